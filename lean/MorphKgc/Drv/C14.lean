import MorphKgc.Drv.Util
import MorphKgc.Drv.Core
import MorphKgc.Gen.Fnml
import MorphKgc.Gen.Canon
import MorphKgc.Spec.Fnml

namespace Drv.C14
open Lean Py Model Model.Fnml Drv Drv.Core

def atomJson : Atom → Json
  | .str s => jobj [("s", jstr s)]
  | .null r => jobj [("n", jstr r)]
  | .other r => jobj [("o", jstr r)]
  | .exc n => jobj [("x", jstr n)]

def valJson : PyVal → Json
  | .atom a => atomJson a
  | .list xs => jobj [("l", jarr (xs.map atomJson))]

def parseAtom (j : Json) : R Atom :=
  match j with
  | Json.str s => pure (.str s.toList)
  | _ =>
    match j.getObjValAs? String "s", j.getObjValAs? String "n", j.getObjValAs? String "o", j.getObjValAs? String "x" with
    | .ok s, _, _, _ => pure (.str s.toList)
    | _, .ok s, _, _ => pure (.null s.toList)
    | _, _, .ok s, _ => pure (.other s.toList)
    | _, _, _, .ok s => pure (.exc s.toList)
    | _, _, _, _ => throw "bad atom"

def parseVal (j : Json) : R PyVal :=
  match j.getObjVal? "l" with
  | .ok (Json.arr xs) => do let l ← xs.toList.mapM parseAtom; pure (.list l)
  | _ => do let a ← parseAtom j; pure (.atom a)

def parseFR (j : Json) : R FR := do
  let a ← asArr j
  a.mapM fun p => match p with
    | Json.arr #[Json.str k, v] => do let c ← parseAtom v; pure (k.toList, c)
    | _ => throw "bad frame cell"

def frJson (σ : FR) : Json := jarr (σ.map fun kv => jarr [jstr kv.1, atomJson kv.2])
def frameJson (fr : Frame) : Json := jarr (fr.map frJson)

def parseVType (s : String) : VType :=
  match s with
  | "constant" => .constant | "template" => .template | "reference" => .reference | "execution" => .execution | _ => .other

def parseDf (j : Json) : R FnmlDf := do
  let a ← match gArr j "df" with | .ok a => pure a | .error _ => pure []
  a.mapM fun r => do
    pure { exec := gStrD r "exec", fn := gStrD r "fn", param := gStrD r "param",
           vtype := parseVType (String.ofList (gStrD r "vtype")), value := gStrD r "value" }

def parseArgs (j : Json) : R Args := do
  let a ← asArr j
  a.mapM fun p => match p with
    | Json.arr #[Json.str k, v] => do let c ← parseAtom v; pure (k.toList, c)
    | _ => throw "bad arg"

def argsJson (args : Args) : Json := jarr (args.map fun kv => jarr [jstr kv.1, atomJson kv.2])

/-- the function environment sent by the harness: signatures and a table of facts `(function id, arguments) ↦ result` obtained by
    calling the real Python function objects; a call without a fact is answered by a poison that names the call, so that the
    harness can supply the fact and ask again -/
def parseFunEnv (j : Json) : R FunEnv := do
  let sigsJ ← match gArr j "sigs" with | .ok a => pure a | .error _ => pure []
  let sigs ← sigsJ.mapM fun s => do
    let ps ← gPairs s "params"
    pure (gStrD s "fn", ps)
  let factsJ ← match gArr j "facts" with | .ok a => pure a | .error _ => pure []
  let facts ← factsJ.mapM fun f => do
    let args ← parseArgs (← f.getObjVal? "args")
    let res ← parseVal (← f.getObjVal? "res")
    pure ((gStrD f "fn", args), res)
  pure {
    sigs := fun f => lookup f sigs
    call := fun f args =>
      match facts.find? (fun p => p.1 = (f, args)) with
      | some p => p.2
      | none => .atom (.exc ("NOFACT ".toList ++ (Json.compress (jobj [("fn", jstr f), ("args", argsJson args)])).toList)) }

def parseOrd (j : Json) : R NullOrder :=
  match j.getObjValAs? String "ord" with
  | .ok "dropnaThenExplode" => pure .dropnaThenExplode
  | .ok "explodeThenDropna" => pure .explodeThenDropna
  | _ => match execKindOf Gen.executeSteps with
    | some o => pure o
    | none => throw "the statement order of execute_fnml is not a recognised one"

def gNa (j : Json) : List Str := match gStrs j "na" with | .ok l => l | .error _ => [[], "nan".toList]

def mkLib (j : Json) : PyLib :=
  let lj := match j.getObjVal? "lib" with | .ok l => l | .error _ => Json.null
  let tbl (k : String) : List (Str × Str) := gPairsD lj k
  let f1 (k : String) (s : Str) : Str := match lookup s (tbl k) with | some r => r | none => "?nofact?".toList ++ s
  let arr (k : String) : List Json := match gArr lj k with | .ok a => a | .error _ => []
  { lower := f1 "lower", upper := f1 "upper", title := f1 "title", htmlEscape := f1 "html", sha256hex := f1 "sha",
    uuid4 := gStrD lj "uuid",
    strptimeDate := fun s f =>
      match (arr "strptime").findSome? (fun e => match e with
        | Json.arr #[Json.str a, Json.str b, c] => if a.toList = s && b.toList = f then (parseAtom c).toOption else none
        | _ => none) with
      | some a => a | none => .exc "nofact".toList
    reprList := fun l =>
      match (arr "repr").findSome? (fun e => match e with
        | Json.arr #[Json.arr xs, Json.str r] =>
          (match xs.toList.mapM parseAtom with | .ok l' => if l' = l then some r.toList else none | .error _ => none)
        | _ => none) with
      | some r => r | none => "?norepr?".toList
    evalSeq := fun s =>
      match (arr "eval").findSome? (fun e => match e with
        | Json.arr #[Json.str a, r] => if a.toList = s then some r else none
        | _ => none) with
      | some (Json.str "keep") => .keep
      | some (Json.arr #[Json.str "text", Json.str t]) => .text t.toList
      | some (Json.arr xs) => (match xs.toList.mapM parseAtom with | .ok l => .list l | .error _ => .otherObj)
      | _ => .otherObj
    parseInt := fun s =>
      (arr "int").findSome? (fun e => match e with
        | Json.arr #[Json.str a, r] => if a.toList = s then r.getInt?.toOption else none
        | _ => none)
    evalTruthy := fun s =>
      (arr "truthy").findSome? (fun e => match e with
        | Json.arr #[Json.str a, Json.bool b] => if a.toList = s then some b else none
        | _ => none)
    roundFloat := fun s =>
      match (arr "round").findSome? (fun e => match e with
        | Json.arr #[Json.str a, c] => if a.toList = s then (parseAtom c).toOption else none
        | _ => none) with
      | some a => a | none => .exc "nofact".toList }

def shapeName : BuiltinShape → String
  | .escapeHtml => "escapeHtml" | .indexOf => "indexOf" | .toStr => "toStr" | .strptimeDate => "strptimeDate"
  | .splitRepr => "splitRepr" | .arrayGet => "arrayGet" | .arraySlice => "arraySlice" | .replaceAll => "replaceAll"
  | .lower => "lower" | .upper => "upper" | .title => "title" | .reverse => "reverse" | .strip => "strip" | .ifEval => "ifEval"
  | .roundNumber => "roundNumber" | .ifCast _ => "ifCast" | .uuid => "uuid" | .splitList => "splitList" | .concat3 => "concat3"
  | .upperUrl r => if r then "upperUrl rest" else "upperUrl scheme" | .sha256Hex => "sha256Hex" | .hashIri => "hashIri"
  | .nameError n => "nameError " ++ String.ofList n | .unrecognised => "unrecognised"

def ttName : Option TermType → Json
  | some t => Json.str (termTypeName t)
  | none => Json.null

def outcomeJson : Outcome → Json
  | .abort n => jobj [("abort", jstr n)]
  | .ok ms => jobj [("ok", jarr (ms.map jopt))]

def mkFEnv (j : Json) : R FEnv := do
  let fe ← parseFunEnv j
  let fe := if gBoolD j "builtins" false then withBuiltins Gen.builtins (mkLib j) fe else fe
  let ord ← parseOrd j
  let df ← parseDf j
  pure { fun_ := fe, ord := ord, assign := Gen.assignShape, df := df, site := Gen.canonSiteFnml, shape := Gen.siteShape, fuel := gNatD j "fuel" 32 }

def handle (op : String) (j : Json) : Option (R Json) :=
  match op with
  | "fnml_gen" => some do
      pure (jobj [
        ("order", match execKindOf Gen.executeSteps with
          | some .dropnaThenExplode => Json.str "dropnaThenExplode" | some .explodeThenDropna => Json.str "explodeThenDropna"
          | none => Json.null),
        ("default_termtype", ttName Gen.siteShape.defaultTermtype), ("lang_termtype", ttName Gen.siteShape.langTermtype),
        ("iri_strip", jbool Gen.siteShape.iriStrip), ("alias_aware", jbool Gen.siteShape.aliasAware),
        ("translated", jbool Gen.fnmlTranslated),
        ("builtins", jarr (Gen.builtins.map fun b => jobj [("fn", jstr b.funId), ("name", jstr b.name),
          ("params", jarr (b.params.map fun p => jarr [jstr p.1, jstr p.2])), ("shape", Json.str (shapeName b.shape))]))])
  | "fnml_execute" => some do
      let E ← mkFEnv j
      let fr ← (← gArr j "frame").mapM parseFR
      let id ← gStr j "id"
      let na := gNa j
      let out := if gBoolD j "spec" false then
          fr.flatMap (Spec.Fnml.execRow E.fun_ na E.df E.fuel id)
        else executeFnml E.fun_ E.ord na E.df E.fuel id fr
      let scope := fr.any (Spec.Fnml.scopeF1Row bindArgs E.fun_ na E.df E.fuel id)
      pure (jobj [("frame", frameJson out), ("scope_f1", jbool scope)])
  | "fnml_rule" => some do
      let E ← mkFEnv j
      let env ← parseEnv j
      let rules ← (← gArr j "rules").mapM parseRule
      let i := gNatD j "index" 0
      match rules[i]? with
      | none => throw "index"
      | some r => pure (outcomeJson (evalRuleF E env rules r))
  | "fnml_refs" => some do
      let df ← parseDf j
      pure (jstrs (refsOfExecution df (gNatD j "fuel" 32) (← gStr j "id")))
  | "fnml_builtin" => some do
      let f ← gStr j "fn"
      let args ← parseArgs (← j.getObjVal? "args")
      match findBuiltin Gen.builtins f with
      | none => pure Json.null
      | some b => pure (valJson (applyBuiltin (mkLib j) b args))
  | "fnml_term" => some do
      let tt ← optTermType j
      let a ← parseAtom (← j.getObjVal? "cell")
      pure (atomJson (fnmlTerm Gen.canonSiteFnml Gen.siteShape.rawElse tt (gStrD j "datatype") a))
  | "fnml_strip" => some do pure (jstr (pyStrip (← gStr j "value")))
  | _ => none

end Drv.C14
