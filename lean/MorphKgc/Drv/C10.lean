import MorphKgc.Drv.Util
import MorphKgc.Drv.C06
import MorphKgc.Spec.Payload
import MorphKgc.Model.SourceKinds

namespace Drv.C10
open Lean Py Model Drv Spec.Payload

def parseTable (j : Json) : R StrTable := do
  let cols ← gStrs j "cols"
  let rows ← (← gArr j "rows").mapM fun r => do let a ← asArr r; a.mapM asOptStr
  pure { cols := cols, rows := rows }

def sepOf (j : Json) : R Char := do
  match (← gStr j "sep") with
  | [c] => pure c
  | _ => throw "sep: one character expected"

def jrecs (recs : List (List Str)) : Json := jarr (recs.map jstrs)

def readerName : FileReader → String
  | .view => "view" | .csv => "csv" | .excel => "excel" | .ods => "ods" | .parquet => "parquet" | .feather => "feather" | .orc => "orc"
  | .stata => "stata" | .sas => "sas" | .spss => "spss" | .json => "json" | .xml => "xml"

def styleJson : QuoteStyle → Json
  | .keep => Json.str "keep" | .brackets => Json.str "brackets" | .replaceBy s => jobj [("replaceBy", jstr s)]

def handle (op : String) (j : Json) : Option (R Json) :=
  match op with
  | "c10_facts" => some (pure (jobj [
      ("translated", jbool Gen.sourceTranslated),
      ("csv_contractual", jbool Gen.csvCall.contractual),
      ("csv_sep_csv", jstr (csvSepFor Gen.csvDelimiter "CSV".toList)),
      ("csv_sep_tsv", jstr (csvSepFor Gen.csvDelimiter "TSV".toList)),
      ("frame_strip", jstr Gen.frameStrip),
      ("file_source_types", jstrs Gen.fileSourceTypes),
      ("preprocess_mapping_steps", jstrs Gen.preprocessMappingSteps),
      ("dialect_default", styleJson Gen.dialectDefault),
      ("bodies", jbool Gen.readerBodiesRecognised),
      ("pre_kind", Json.str (C06.kindName Gen.preprocessKind))]))
  | "c10_render" => some do
      let T ← parseTable j
      match gStrD j "kind" with
      | ['c', 's', 'v'] => pure (jstr (renderCsv (← sepOf j) T))
      | ['j', 's', 'o', 'n'] => pure (jstr (renderJson T))
      | ['x', 'm', 'l'] => pure (jstr (renderXml T))
      | ['x', 'm', 'l', 'a', 't', 't', 'r', 's'] => pure (jstr (renderXmlAttrs T))
      | ['s', 'q', 'l'] => pure (jstrs (renderSql (gStrD j "tbl" "t".toList) T))
      | _ => throw "kind"
  | "c10_render_records" => some do
      let recs ← (← gArr j "records").mapM fun r => do let a ← asArr r; a.mapM asStr
      pure (jstr (renderCsvRecords (← sepOf j) recs))
  | "c10_parse_csv" => some do
      match Csv.parse (← sepOf j) (← gStr j "text") with
      | some recs => pure (jrecs recs)
      | none => pure Json.null
  | "c10_csv_read" => some do
      match Csv.parse (← sepOf j) (← gStr j "text") with
      | some recs => pure (C06.tableJson (csvDeliver Gen.csvShape (Csv.frame recs)))
      | none => pure Json.null
  | "c10_json_escape" => some do pure (jstr (jsonEscape (← gStr j "s")))
  | "c10_json_unescape" => some do pure (jopt (jsonUnescape (← gStr j "s")))
  | "c10_xml_escape" => some do
      let s ← gStr j "s"
      pure (jstr (if gBoolD j "attr" false then xmlEscapeAttr s else xmlEscapeText s))
  | "c10_xml_decode" => some do pure (jopt (xmlDecodeText (← gStr j "s")))
  | "c10_sql_literal" => some do pure (jstr (sqlLiteral (← gStr j "s")))
  | "c10_sql_unquote" => some do pure (jopt (sqlUnquote (← gStr j "s")))
  | "c10_ext" => some do pure (jstr (extensionKind (← gStr j "p")))
  | "c10_source_type" => some do
      pure (jopt (completeSourceType Gen.sourceTypeSteps Gen.fileSourceTypes Gen.rmlNamespace (gOptStr j "rf") (gBoolD j "has_db_url" false)
        (C06.parseLst j) (← gStr j "lsv")))
  | "c10_file_reader" => some do
      pure (match fileReaderFor Gen.fileDispatch (gBoolD j "is_query" false) (← gStr j "source_type") with
        | some r => Json.str (readerName r) | none => Json.null)
  | "c10_csv_sep" => some do pure (jstr (csvSepFor Gen.csvDelimiter (← gStr j "source_type")))
  | "c10_dialect_query" => some do
      pure (jstr (dialectQuery Gen.dialectStyles Gen.dialectDefault (← gStr j "dialect") (← gStr j "q")))
  | "c10_frame" => some do
      pure (C06.exJson C06.tableJson (frameDeliverG Gen.frameStrip (← gStrs j "refs") (← C06.parseRows j "rows")))
  | "c10_typed" => some do
      pure (C06.exJson C06.tableJson ((if gBoolD j "ods" false then odsDeliver else typedDeliver) (← gStrs j "refs") (← C06.parseRows j "rows")))
  | _ => none

end Drv.C10
