import MorphKgc.Drv.SpecD
import MorphKgc.Model.Sections
import MorphKgc.Gen.ParseOrder

namespace Drv.C12
open Lean Py Model Drv Spec Model.Sections

def parseSec (j : Json) : R Sec := do
  let files ← (← gArr j "files").mapM fun f => do (← asArr f).mapM Drv.SpecD.parseTm
  pure { name := gStrD j "name", files := files }

def parseCfg (j : Json) : R Config := do (← gArr j "sections").mapM parseSec

def parseNow (cfg : Config) : Except ParseErr (List Rule) :=
  parseMappings Gen.expandStarGuarded Gen.parseOrder Gen.preprocessOrder cfg

def idxOf? {α} [BEq α] (x : α) (l : List α) : Option Nat := l.findIdx? (· == x)

/-- does `validate_mappings` run before the renumbering (`_normalize_rml_star` inside `_preprocess_mappings`)? -/
def validatesBeforeRenumbering : Bool :=
  match idxOf? Step.validate Gen.parseOrder, idxOf? Step.preprocess Gen.parseOrder with
  | some v, some p => decide (v < p) || !(Gen.preprocessOrder.contains PStep.normalizeRmlStar)
  | some _, none => true
  | none, _ => false

def handle (op : String) (j : Json) : Option (R Json) :=
  match op with
  | "c12_status" => some do
      pure (jobj [("validates_before_renumbering", jbool validatesBeforeRenumbering), ("guarded", jbool Gen.expandStarGuarded),
                  ("translated", jbool Gen.parseOrderTranslated)])
  | "c12_parse" => some do
      let cfg ← parseCfg j
      match parseNow cfg with
      | .ok rs => pure (jobj [("ok", jarr (rs.map ruleToJson))])
      | .error (.dupTriplesMap ids) => pure (jobj [("dup", jstrs ids)])
  | "c12_eval" => some do
      let cfg ← parseCfg j
      let env ← Drv.Core.parseEnv j
      match parseNow cfg with
      | .ok rs => match evalAll env rs with
        | .ok ls => pure (jobj [("ok", jstrs ls)])
        | .error e => pure (Drv.Core.errJson e)
      | .error (.dupTriplesMap ids) => pure (jobj [("dup", jstrs ids)])
  | "c12_doc_eval" => some do
      let cfg ← parseCfg j
      let env ← Drv.Core.parseEnv j
      match evalAll env (normalizeDoc (cfgDoc cfg)) with
      | .ok ls => pure (jobj [("ok", jstrs ls)])
      | .error e => pure (Drv.Core.errJson e)
  | "c12_scopes" => some do
      let cfg ← parseCfg j
      pure (jobj [("dup_id", jbool (hasDupId cfg)), ("value_clash", jbool (valueClash (dedupFirst (rawRules cfg))))])
  | _ => none

end Drv.C12
