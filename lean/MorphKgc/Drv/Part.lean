import MorphKgc.Drv.Util
import MorphKgc.Model.Partition

namespace Drv.Part
open Lean Py Model Drv

def parseMode (s : Str) : PartMode :=
  if s = "MAXIMAL".toList then .maximal
  else if s = "PARTIAL-AGGREGATIONS".toList then .partialAggregations
  else .none

def handle (op : String) (j : Json) : Option (R Json) :=
  match op with
  | "partition" => some do
      let rules ← (← gArr j "rules").mapM parseRule
      match partitionLabels (parseMode (gStrD j "mode")) rules with
      | .ok ls => pure (jobj [("ok", jstrs ls)])
      | .error (.invalidTemplate t) => pure (jobj [("invalid_template", jstr t)])
      | .error (.noParent t) => pure (jobj [("no_parent", jstr t)])
  | _ => none

end Drv.Part
