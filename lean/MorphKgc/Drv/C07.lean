import MorphKgc.Drv.Util
import MorphKgc.Drv.Core
import MorphKgc.Drv.SpecD
import MorphKgc.Lemmas.JoinElimSound
import MorphKgc.Gen.Join

namespace Drv.C07
open Lean Py Model Drv Drv.Core Spec

def parseSRow (j : Json) : R SRow := do
  let a ← asArr j
  a.mapM asPair

def parseFrame (j : Json) (k : String) : R Frame := do
  let f ← j.getObjVal? k
  let cols ← gStrs f "cols"
  let rows ← (← gArr f "rows").mapM parseSRow
  pure ⟨cols, rows⟩

def srowJson (ρ : SRow) : Json := jarr (ρ.map fun kv => jarr [jstr kv.1, jstr kv.2])

def joinErrJson : JoinErr → Json
  | .mat (.keyError c) => jobj [("keyerror", jstr c)]
  | .overlap cs => jobj [("overlap", jstrs cs)]
  | .badKeys => jobj [("badkeys", Json.bool true)]
  | .unsupportedShape => jobj [("unsupported_shape", Json.bool true)]

def handle (op : String) (j : Json) : Option (R Json) :=
  match op with
  -- `_merge_data` with the generated shape on two string frames
  | "c07_merge" => some do
      let data ← parseFrame j "data"
      let parent ← parseFrame j "parent"
      let conds := gPairsD j "conds"
      match mergeFrames Gen.mergeShape data parent conds with
      | .ok f => pure (jobj [("ok", jobj [("cols", jstrs f.cols), ("rows", jarr (f.rows.map srowJson))])])
      | .error e => pure (joinErrJson e)
  -- the nested-loop join of the specification on string rows: the index pairs
  | "c07_spec_join" => some do
      let data ← parseFrame j "data"
      let parent ← parseFrame j "parent"
      let conds := gPairsD j "conds"
      let ic := (List.range data.rows.length).zip data.rows
      let ip := (List.range parent.rows.length).zip parent.rows
      let pairs := innerJoin (fun (c : Nat × SRow) => srowVal c.2) (fun (p : Nat × SRow) => srowVal p.2) conds ic ip
      pure (jarr (pairs.map fun cp => jarr [jnat cp.1.1, jnat cp.2.1]))
  -- the referencing branch, line by line, for rule `index` of the rule table
  | "c07_eval_ref" => some do
      let env ← parseEnv j
      let rules ← (← gArr j "rules").mapM parseRule
      match rules[gNatD j "index" 0]? with
      | none => throw "index"
      | some r => match evalRefRule Gen.mergeShape Gen.refBranchShape env rules r with
        | .ok ls => pure (jobj [("ok", jstrs ls)])
        | .error e => pure (joinErrJson e)
  -- rule normalisation with the generated elimination tests
  | "c07_normalize" => some do
      let doc ← Drv.SpecD.parseDoc j
      pure (jarr ((normalizeDocG Gen.elimShape (applyObjectsSeen Gen.objectQueryShape doc)).map ruleToJson))
  | "c07_model_doc" => some do
      let env ← parseEnv j
      let doc ← Drv.SpecD.parseDoc j
      match evalAll env (normalizeDocG Gen.elimShape doc) with
      | .ok ls => pure (jobj [("ok", jstrs ls)])
      | .error e => pure (errJson e)
  -- the statements of one referencing object map by `Spec.refStmts`
  | "c07_ref_stmts" => some do
      let env ← Drv.SpecD.parseSEnv j
      let doc ← Drv.SpecD.parseDoc j
      let ci := gNatD j "child" 0
      let pi := gNatD j "parent" 1
      match doc.tms[ci]?, doc.tms[pi]? with
      | some tm, some ptm =>
        let pm ← Drv.SpecD.parseTermMap (← j.getObjVal? "pred")
        let gs ← Drv.SpecD.parseTermMaps j "graphs"
        pure (jstrs (dedupFirst (refStmts env tm ptm (gPairsD j "conds") gs pm)))
      | _, _ => throw "child/parent index"
  -- the elimination tests and the scopes of C07_F1 / C07_F2 for rule `index` and its parent
  | "c07_scopes" => some do
      let rules ← (← gArr j "rules").mapM parseRule
      match rules[gNatD j "index" 0]? with
      | none => throw "index"
      | some r => match findRule rules r.objectMapValue with
        | none => pure Json.null
        | some parent =>
          pure (jobj [("tests", jbool (elimTests Gen.elimShape r parent)), ("tests_found", jbool (elimTests ElimShape.found r parent)),
                      ("tests_repaired", jbool (elimTests ElimShape.repaired r parent)),
                      ("F1", jbool (scope_C07_F1 r parent)), ("F2", jbool (scope_C07_F2 r parent))])
  | "c07_shapes" => some do
      pure (jobj [("merge_expected", jbool (Gen.mergeShape == MergeShape.expected)),
                  ("branch_expected", jbool (Gen.refBranchShape == RefBranchShape.expected)),
                  ("cond_route_ok", jbool Gen.joinCondShape.OK),
                  ("elim_found", jbool (Gen.elimShape == ElimShape.found)),
                  ("elim_repaired", jbool (Gen.elimShape == ElimShape.repaired)),
                  ("elim_current", jbool (Gen.elimShape == ElimShape.current)),
                  ("object_query_union", jbool (Gen.objectQueryShape == ObjectQueryShape.union)),
                  ("translated", jbool Gen.joinTranslated)])
  | _ => none

end Drv.C07
