/-
Python `str` primitives actually used by morph-kgc, over `List Char`.

A Python `str` is a sequence of code points; `Char` is a Unicode scalar value, so strings
containing lone surrogates are outside the model (rejected at the protocol boundary).

Everything here is total, structurally recursive (or fuelled) and import-free so that it can be
both executed by the compiled driver and reduced by `decide`.
-/

namespace Py

abbrev Str := List Char

/-- `s.startswith(p)` -/
def startsWith (s p : Str) : Bool := p.isPrefixOf s

/-- `s.endswith(p)` -/
def endsWith (s p : Str) : Bool := p.isSuffixOf s

/-- First occurrence of a non-empty `sep` in `s`: text before it and text after it.
    (`s.partition(sep)` / the first step of `s.split(sep)`.)  -/
def breakOn (sep : Str) : Str → Option (Str × Str)
  | [] => none
  | c :: s =>
    if sep.isPrefixOf (c :: s) then some ([], (c :: s).drop sep.length)
    else match breakOn sep s with
      | some (a, b) => some (c :: a, b)
      | none => none

/-- `sub in s` for non-empty `sub`. -/
def isInfix (sub s : Str) : Bool := (breakOn sub s).isSome

def splitFuel (sep : Str) : Nat → Str → List Str
  | 0, s => [s]
  | n + 1, s =>
    match breakOn sep s with
    | none => [s]
    | some (a, b) => a :: splitFuel sep n b

/-- `s.split(sep)` for non-empty `sep`. -/
def split (s sep : Str) : List Str := splitFuel sep s.length s

/-- `sep.join(parts)` -/
def join (sep : Str) : List Str → Str
  | [] => []
  | [x] => x
  | x :: y :: r => x ++ sep ++ join sep (y :: r)

def replaceFuel (old new : Str) : Nat → Str → Str
  | 0, s => s
  | n + 1, s =>
    match breakOn old s with
    | none => s
    | some (a, b) => a ++ new ++ replaceFuel old new n b

/-- `s.replace(old, new)` for non-empty `old` (left to right, non-overlapping). -/
def replace (s old new : Str) : Str := replaceFuel old new s.length s

/-- Apply an ordered chain of `.replace(a, b)` calls. -/
def applyChain (chain : List (Str × Str)) (s : Str) : Str :=
  chain.foldl (fun acc p => replace acc p.1 p.2) s

/-- code-point lexicographic order (`<` on Python `str`, what pandas `sort_values` uses on object columns) -/
def ltStr : Str → Str → Bool
  | [], [] => false
  | [], _ :: _ => true
  | _ :: _, [] => false
  | a :: as, b :: bs => if a.toNat < b.toNat then true else if a.toNat > b.toNat then false else ltStr as bs

def leStr (a b : Str) : Bool := !ltStr b a

/-- ASCII-only upper/lower (the engine applies `.upper()`/`.lower()` to option values and SQL type names;
    non-ASCII case mapping is outside the model). -/
def asciiUpperC (c : Char) : Char := if c.isLower then Char.ofNat (c.toNat - 32) else c
def asciiLowerC (c : Char) : Char := if c.isUpper then Char.ofNat (c.toNat + 32) else c
def asciiUpper (s : Str) : Str := s.map asciiUpperC
def asciiLower (s : Str) : Str := s.map asciiLowerC

def isAsciiWs (c : Char) : Bool := c = ' ' || c = '\t' || c = '\n' || c = '\r' || c = '\x0b' || c = '\x0c'

def lstrip (s : Str) : Str := s.dropWhile isAsciiWs
def rstrip (s : Str) : Str := (s.reverse.dropWhile isAsciiWs).reverse
/-- `s.strip()` restricted to ASCII whitespace. -/
def strip (s : Str) : Str := rstrip (lstrip s)

/-- insertion sort, stable, on a key with a strict order given as a Bool function. -/
def insertBy {α} (lt : α → α → Bool) (x : α) : List α → List α
  | [] => [x]
  | y :: ys => if lt x y then x :: y :: ys else y :: insertBy lt x ys

/-- stable sort (pandas `sort_values(kind='quicksort')` on small frames is not guaranteed stable; the
    partition scan only depends on the multiset of keys in order, see Props/C03). -/
def sortBy {α} (lt : α → α → Bool) (xs : List α) : List α := xs.foldr (insertBy lt) []

def dedup {α} [BEq α] : List α → List α
  | [] => []
  | x :: xs => let r := dedup xs; if r.elem x then r else x :: r

/-- keep first occurrences (pandas `drop_duplicates`, Python dict insertion order) -/
def dedupFirst {α} [BEq α] (xs : List α) : List α :=
  (xs.foldl (fun acc x => if acc.elem x then acc else x :: acc) []).reverse

end Py

deriving instance DecidableEq for Except
