/-
`pathlib.PurePosixPath` (CPython 3.12) and the `os.path` string functions used by morph-kgc's output
code, over `List Char`.  Drive is always empty on POSIX and is not represented.

Modelled: `Path(a)`, `Path(a, b)`, `.name`, `.suffix`, `.with_suffix(s)`, `.parent`, `str()/.as_posix()`,
`os.path.dirname`, `str.strip()` (full Python whitespace set).
Validated against the real functions on generated names by the C17 check (interface `I9p`).
-/
import MorphKgc.Py.Str

namespace Py

/-- Python exceptions the output-path code can raise -/
inductive PyErr
  | valueError | typeError | keyError
  deriving DecidableEq, Repr


/-- a parsed pure POSIX path: `root` is `""`, `"/"` or `"//"`; `parts` is `_tail` -/
structure PurePath where
  root : Str
  parts : List Str
  deriving DecidableEq, Repr

/-- `s.split('/')` -/
def splitSlash : Str → List Str
  | [] => [[]]
  | c :: s =>
    if c = '/' then [] :: splitSlash s
    else match splitSlash s with
      | x :: xs => (c :: x) :: xs
      | [] => [[c]]

/-- `'/'.join(parts)` -/
def joinSlash : List Str → Str
  | [] => []
  | [x] => x
  | x :: y :: r => x ++ '/' :: joinSlash (y :: r)

/-- `posixpath.splitroot` (root, rest) -/
def splitRoot : Str → Str × Str
  | '/' :: '/' :: '/' :: r => (['/'], '/' :: '/' :: r)
  | '/' :: '/' :: r => (['/', '/'], r)
  | '/' :: r => (['/'], r)
  | s => ([], s)

/-- `PurePosixPath._parse_path` -/
def parsePath (s : Str) : PurePath :=
  let rr := splitRoot s
  { root := rr.1, parts := (splitSlash rr.2).filter (fun x => x ≠ [] ∧ x ≠ ['.']) }

/-- `PurePosixPath(seg₁, …, segₙ)`: an absolute segment discards what precedes it; otherwise the parts are
    concatenated (`posixpath.join` followed by `_parse_path`, written structurally). -/
def pathOfSegments (segs : List Str) : PurePath :=
  segs.foldl (fun acc seg =>
    if seg.head? = some '/' then parsePath seg
    else { root := acc.root, parts := acc.parts ++ (parsePath seg).parts }) { root := [], parts := [] }

/-- `Path(*args)` where an argument may be `None` (`TypeError`) -/
def mkPath (segs : List (Option Str)) : Except PyErr PurePath :=
  if segs.any Option.isNone then .error .typeError else .ok (pathOfSegments (segs.filterMap id))

/-- `str(p)` / `p.as_posix()` -/
def pathStr (p : PurePath) : Str :=
  let s := p.root ++ joinSlash p.parts
  if s = [] then ['.'] else s

/-- `p.name` -/
def PurePath.name (p : PurePath) : Str := p.parts.getLast?.getD []

/-- `p.parent` -/
def PurePath.parent (p : PurePath) : PurePath := { p with parts := p.parts.dropLast }

/-- (stem, suffix) of a final component: the suffix starts at the last `.` unless that dot is the first or the
    last character (`PurePath.suffix`) -/
def splitSuffix (name : Str) : Str × Str :=
  let after := (name.reverse.takeWhile (· ≠ '.')).length
  if after = name.length then (name, [])
  else
    let i := name.length - after - 1
    if 0 < i ∧ 0 < after then (name.take i, name.drop i) else (name, [])

/-- `p.with_suffix(suffix)` -/
def withSuffix (p : PurePath) (suffix : Str) : Except PyErr PurePath :=
  if suffix.contains '/' then .error .valueError
  else if (suffix ≠ [] ∧ suffix.head? ≠ some '.') ∨ suffix = ['.'] then .error .valueError
  else match p.parts.getLast? with
    | none => .error .valueError
    | some name => .ok { p with parts := p.parts.dropLast ++ [(splitSuffix name).1 ++ suffix] }

/-- characters removed by `str.strip()` (`str.isspace`) -/
def isPyWs (c : Char) : Bool :=
  let n := c.toNat
  (9 ≤ n ∧ n ≤ 13) || (28 ≤ n ∧ n ≤ 32) || n = 0x85 || n = 0xA0 || n = 0x1680 || (0x2000 ≤ n ∧ n ≤ 0x200A) ||
  n = 0x2028 || n = 0x2029 || n = 0x202F || n = 0x205F || n = 0x3000

/-- `s.strip()` -/
def pyStrip (s : Str) : Str := ((s.dropWhile isPyWs).reverse.dropWhile isPyWs).reverse

/-- `os.path.dirname` -/
def dirname (s : Str) : Str :=
  let head := (s.reverse.dropWhile (· ≠ '/')).reverse
  if head.all (· = '/') then head else (head.reverse.dropWhile (· = '/')).reverse

/-- Python truthiness of a `str` -/
def truthy (s : Str) : Bool := !s.isEmpty

/-- `d[k]` on an ordered table standing for a dict literal -/
def dictGet (d : List (Str × Str)) (k : Str) : Except PyErr Str :=
  match d.find? (fun kv => kv.1 = k) with
  | some kv => .ok kv.2
  | none => .error .keyError

/-- the directories `os.makedirs(raw)` makes sure exist: every non-empty prefix of the parsed path, as strings -/
def ancestorsOrSelf (p : PurePath) : List Str :=
  (List.range p.parts.length).map fun i => pathStr { root := p.root, parts := p.parts.take (i + 1) }

end Py
