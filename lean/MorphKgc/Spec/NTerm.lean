/-
Specification side of C05: the lexical grammar of N-Triples / N-Quads terms (W3C RDF 1.1 N-Triples §7),
as total executable validators/decoders.
  STRING_LITERAL_QUOTE ::= '"' ([^#x22#x5C#xA#xD] | ECHAR | UCHAR)* '"'
  ECHAR ::= '\' [tbnrf"'\]
  IRIREF ::= '<' ([^#x00-#x20<>"{}|^`\] | UCHAR)* '>'
  BLANK_NODE_LABEL ::= '_:' (PN_CHARS_U | [0-9]) ((PN_CHARS | '.')* PN_CHARS)?
UCHAR is accepted by the grammar but never produced by the engine; the validators below reject it (they are
stricter than the grammar, which is the safe direction for a "valid output" claim).
-/
import MorphKgc.Py.Str

namespace Spec
open Py

def decodeEchar (e : Char) : Option Char :=
  if e = 't' then some '\t' else if e = 'b' then some (Char.ofNat 8) else if e = 'n' then some '\n'
  else if e = 'r' then some '\r' else if e = 'f' then some (Char.ofNat 12) else if e = '"' then some '"'
  else if e = '\'' then some '\'' else if e = '\\' then some '\\' else none

/-- validate and decode the body of a `STRING_LITERAL_QUOTE`; `none` = not a valid body -/
def lexBody : Str → Option Str
  | [] => some []
  | c :: rest =>
    if c = '\\' then
      match rest with
      | [] => none
      | e :: rest' =>
        match decodeEchar e with
        | some d => (lexBody rest').map (d :: ·)
        | none => none
    else if c = '"' || c = '\n' || c = '\r' then none
    else (lexBody rest).map (c :: ·)

/-- characters allowed inside `<…>` without UCHAR -/
def isIriChar (c : Char) : Bool :=
  !(c.toNat ≤ 0x20 || c = '<' || c = '>' || c = '"' || c = '{' || c = '}' || c = '|' || c = '^' || c = '`' || c = '\\')

def IsIriBody (s : Str) : Bool := s.all isIriChar

/-! percent-decoding (RFC 3986 §2.1) followed by UTF-8 decoding -/

def hexVal (c : Char) : Option Nat :=
  if c.isDigit then some (c.toNat - 48)
  else if 'A' ≤ c ∧ c ≤ 'F' then some (c.toNat - 55)
  else if 'a' ≤ c ∧ c ≤ 'f' then some (c.toNat - 87)
  else none

/-- the bytes denoted by a percent-encoded ASCII string -/
def pctBytes : Str → Option (List UInt8)
  | [] => some []
  | c :: rest =>
    if c = '%' then
      match rest with
      | h :: l :: rest' =>
        match hexVal h, hexVal l with
        | some a, some b => (pctBytes rest').map (UInt8.ofNat (a * 16 + b) :: ·)
        | _, _ => none
      | _ => none
    else if c.toNat < 128 then (pctBytes rest).map (UInt8.ofNat c.toNat :: ·)
    else none

def pctDecode (s : Str) : Option Str :=
  match pctBytes s with
  | none => none
  | some bs => bs.toByteArray.utf8Decode?.map Array.toList

end Spec
