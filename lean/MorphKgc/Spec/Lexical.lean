/-
Lexical spaces and value functions of the three datatypes the engine canonicalises, written from
XML Schema Part 2: Datatypes (§3.3.13 integer, §3.2.2 boolean, §3.2.7 dateTime), independently of the
model of the code.  Everything is executable and decidable; digit strings have arbitrary length.
-/
import MorphKgc.Py.Str

namespace Spec
open Py

def xsdInteger : Str := "http://www.w3.org/2001/XMLSchema#integer".toList
def xsdBoolean : Str := "http://www.w3.org/2001/XMLSchema#boolean".toList
def xsdDateTime : Str := "http://www.w3.org/2001/XMLSchema#dateTime".toList

/-! ### xsd:integer — "an optional sign followed by a finite-length sequence of decimal digits" -/

/-- the decimal digits #x30-#x39 -/
def isDec (c : Char) : Bool := 48 ≤ c.toNat && c.toNat ≤ 57

/-- a non-empty sequence of decimal digits #x30-#x39 -/
def isDigits : Str → Bool
  | [] => false
  | [c] => isDec c
  | c :: s => isDec c && isDigits s

def isIntegerLexical : Str → Bool
  | '+' :: s => isDigits s
  | '-' :: s => isDigits s
  | s => isDigits s

def IsIntegerLexical (v : Str) : Prop := isIntegerLexical v = true
instance (v : Str) : Decidable (IsIntegerLexical v) := by unfold IsIntegerLexical; infer_instance

def decVal (c : Char) : Nat := c.toNat - 48

/-- value of a digit sequence, most significant digit first (no bound on the length) -/
def natValueAux : Nat → Str → Nat
  | acc, [] => acc
  | acc, c :: s => natValueAux (10 * acc + decVal c) s

def natValue (s : Str) : Nat := natValueAux 0 s

/-- the integer denoted by a lexical form; `none` outside the lexical space -/
def intValue : Str → Option Int
  | '+' :: s => if isDigits s then some (Int.ofNat (natValue s)) else none
  | '-' :: s => if isDigits s then some (- Int.ofNat (natValue s)) else none
  | s => if isDigits s then some (Int.ofNat (natValue s)) else none

/-- an integer lexical followed by `.0` (what a DBMS driver / pandas float column prints for an integer) -/
def IsIntegerDotZero (v : Str) : Prop := ∃ w, IsIntegerLexical w ∧ v = w ++ ['.', '0']

def isIntegerDotZero (v : Str) : Bool :=
  endsWith v ['.', '0'] && isIntegerLexical (v.take (v.length - 2))

/-! ### xsd:boolean — lexical space {true, false, 1, 0} -/

def booleanLexicals : List (Str × Bool) :=
  [("true".toList, true), ("false".toList, false), ("1".toList, true), ("0".toList, false)]

def boolValue (v : Str) : Option Bool := (booleanLexicals.find? (fun kv => kv.1 == v)).map (·.2)

def IsBooleanLexical (v : Str) : Prop := (boolValue v).isSome = true
instance (v : Str) : Decidable (IsBooleanLexical v) := by unfold IsBooleanLexical; infer_instance

/-! ### xsd:dateTime — `'-'? yyyy '-' mm '-' dd 'T' hh ':' mm ':' ss ('.' s+)? (zzzzzz)?`

The string is first lexed over the alphabet of the production (a character outside it is an error), then
the token sequence is checked.  Field ranges are the per-field ones (month 1-12, day 1-31, hour 0-24,
minute 0-59, second 0-59, zone hour 0-14); day-of-month/leap-year and the 24:00:00 constraints are not checked,
so `IsDateTimeLexical` is a superset of the valid lexical forms: theorems of the form
"valid ⇒ unchanged" are the stronger for it. -/

inductive DtTok | dig (n : Nat) | minus | plus | colon | dot | sepT | zoneZ
  deriving DecidableEq, Repr

def dtTok (c : Char) : Option DtTok :=
  if isDec c then some (.dig (decVal c))
  else if c = '-' then some .minus
  else if c = '+' then some .plus
  else if c = ':' then some .colon
  else if c = '.' then some .dot
  else if c = 'T' then some .sepT
  else if c = 'Z' then some .zoneZ
  else none

def dtLex : Str → Option (List DtTok)
  | [] => some []
  | c :: s => match dtTok c, dtLex s with
    | some t, some ts => some (t :: ts)
    | _, _ => none

def isDigTok : DtTok → Bool | .dig _ => true | _ => false

def isZone : List DtTok → Bool
  | [] => true
  | [.zoneZ] => true
  | [sg, .dig h1, .dig h2, .colon, .dig m1, .dig m2] =>
      (sg == .plus || sg == .minus) && 10 * h1 + h2 ≤ 14 && 10 * m1 + m2 ≤ 59
  | _ => false

def isFracZone : List DtTok → Bool
  | .dot :: r => !(r.takeWhile isDigTok).isEmpty && isZone (r.dropWhile isDigTok)
  | r => isZone r

/-- `hh ':' mm ':' ss ('.' s+)? (zzzzzz)?` -/
def isTimeToks : List DtTok → Bool
  | .dig h1 :: .dig h2 :: .colon :: .dig m1 :: .dig m2 :: .colon :: .dig s1 :: .dig s2 :: r =>
      10 * h1 + h2 ≤ 24 && 10 * m1 + m2 ≤ 59 && 10 * s1 + s2 ≤ 59 && isFracZone r
  | _ => false

/-- `'-'? yyyy '-' mm '-' dd` with four or more year digits -/
def isDateToks (ts : List DtTok) : Bool :=
  let ts := match ts with | .minus :: r => r | r => r
  let y := ts.takeWhile isDigTok
  match ts.dropWhile isDigTok with
  | [.minus, .dig m1, .dig m2, .minus, .dig d1, .dig d2] =>
      4 ≤ y.length && 1 ≤ 10 * m1 + m2 && 10 * m1 + m2 ≤ 12 && 1 ≤ 10 * d1 + d2 && 10 * d1 + d2 ≤ 31
  | _ => false

def isDateTimeToks (ts : List DtTok) : Bool :=
  isDateToks (ts.takeWhile (· != .sepT)) &&
  (match ts.dropWhile (· != .sepT) with
   | .sepT :: r => isTimeToks r
   | _ => false)

def isDateTimeLexical (v : Str) : Bool :=
  match dtLex v with
  | some ts => isDateTimeToks ts
  | none => false

def IsDateTimeLexical (v : Str) : Prop := isDateTimeLexical v = true
instance (v : Str) : Decidable (IsDateTimeLexical v) := by unfold IsDateTimeLexical; infer_instance

/-! ### characters the N-Triples literal escape chain rewrites -/

/-- `\`, `"`, `'` and the control characters (the chain rewrites `\\ \n \t \b \f \r " '`; any control
    character is counted, so the hypothesis on `escape` below is the weaker for it) -/
def needsEscape (c : Char) : Bool :=
  c.toNat = 92 || c.toNat = 34 || c.toNat = 39 || c.toNat < 32 || c.toNat = 127

end Spec
