/-
C10 — the PAYLOADS: one abstract table of strings (with NULLs) written in each textual source format, in Lean.
Nothing here is taken from morph-kgc; these are the formats as their standards define them:

  * CSV / TSV: RFC 4180 — records end with CRLF, a field holding the separator, a double quote, CR or LF is enclosed in double
    quotes with every double quote doubled; in addition the only field of a one-field record is quoted when it is empty or consists
    of blanks only (what Python's `csv` module does for the empty one: such a line would otherwise be an empty line);
    a NULL is the empty field;
  * JSON (RFC 8259): an array of objects; strings escape `"`, `\` and the control characters; a NULL is `null`;
  * XML 1.0: one `<r>` element per row with one child element per non-NULL cell; text escapes `&`, `<`, `>` and CR (a literal CR would be
    normalised to LF by every conforming parser, §2.11); attribute values also `"`, LF and TAB; a NULL is an absent element;
  * SQL: `CREATE TABLE` with TEXT columns and one `INSERT` per row; string literals in single quotes with `'` doubled; a NULL is `NULL`.
-/
import MorphKgc.Py.Str

namespace Spec.Payload
open Py

/-- a logical table of strings: column names and rows of optional strings (`none` = NULL) -/
structure StrTable where
  cols : List Str
  rows : List (List (Option Str))
  deriving DecidableEq, Repr, Inhabited

/-- every row has one cell per column, there is at least one column, and the column names are distinct -/
def StrTable.WF (T : StrTable) : Prop := T.cols ≠ [] ∧ T.cols.Nodup ∧ ∀ r ∈ T.rows, r.length = T.cols.length

/-! ## CSV / TSV (RFC 4180) -/

def isBlank (c : Char) : Bool := c = ' ' || c = '\t'

/-- characters that force quoting -/
def csvSpecial (sep : Char) (c : Char) : Bool := c = sep || c = '"' || c = '\r' || c = '\n'

def csvNeedsQuote (sep : Char) (sole : Bool) (f : Str) : Bool := f.any (csvSpecial sep) || (sole && f.all isBlank)

def csvEscChar (c : Char) : Str := if c = '"' then ['"', '"'] else [c]

def csvQuote (f : Str) : Str := ['"'] ++ f.flatMap csvEscChar ++ ['"']

def csvField (sep : Char) (sole : Bool) (f : Str) : Str := if csvNeedsQuote sep sole f then csvQuote f else f

def crlf : Str := ['\r', '\n']

/-- one record: the fields joined by the separator, then CRLF -/
def csvRecord (sep : Char) (r : List Str) : Str := join [sep] (r.map (csvField sep (r.length == 1))) ++ crlf

def renderCsvRecords (sep : Char) (recs : List (List Str)) : Str := (recs.map (csvRecord sep)).flatten

/-- the records of a table: the header, then one record per row with the empty field for a NULL -/
def StrTable.records (T : StrTable) : List (List Str) := T.cols :: T.rows.map fun r => r.map fun v => v.getD []

def renderCsv (sep : Char) (T : StrTable) : Str := renderCsvRecords sep T.records

/-! ## JSON -/

def hexDigit (n : Nat) : Char := if n < 10 then Char.ofNat (48 + n) else Char.ofNat (87 + n)

/-- four lower-case hexadecimal digits -/
def hex4 (n : Nat) : Str := [hexDigit (n / 4096 % 16), hexDigit (n / 256 % 16), hexDigit (n / 16 % 16), hexDigit (n % 16)]

def jsonEscChar (c : Char) : Str :=
  if c = '"' then ['\\', '"']
  else if c = '\\' then ['\\', '\\']
  else if c = '\n' then ['\\', 'n']
  else if c = '\r' then ['\\', 'r']
  else if c = '\t' then ['\\', 't']
  else if c = '\x08' then ['\\', 'b']
  else if c = '\x0c' then ['\\', 'f']
  else if c.toNat < 32 then ['\\', 'u'] ++ hex4 c.toNat
  else [c]

/-- the text between the quotes of a JSON string -/
def jsonEscape (s : Str) : Str := s.flatMap jsonEscChar

def jsonString (s : Str) : Str := ['"'] ++ jsonEscape s ++ ['"']

def jsonValue : Option Str → Str
  | some s => jsonString s
  | none => "null".toList

def jsonObject (cols : List Str) (r : List (Option Str)) : Str :=
  ['{'] ++ join [','] (List.zipWith (fun c v => jsonString c ++ [':'] ++ jsonValue v) cols r) ++ ['}']

/-- a top-level array of objects (iterator `$[*]`) -/
def renderJson (T : StrTable) : Str := ['['] ++ join [','] (T.rows.map (jsonObject T.cols)) ++ [']']

/-! ## XML -/

def xmlEscTextChar (c : Char) : Str :=
  if c = '&' then "&amp;".toList else if c = '<' then "&lt;".toList else if c = '>' then "&gt;".toList
  else if c = '\r' then "&#13;".toList else [c]

def xmlEscAttrChar (c : Char) : Str :=
  if c = '"' then "&quot;".toList else if c = '\n' then "&#10;".toList else if c = '\t' then "&#9;".toList else xmlEscTextChar c

def xmlEscapeText (s : Str) : Str := s.flatMap xmlEscTextChar
def xmlEscapeAttr (s : Str) : Str := s.flatMap xmlEscAttrChar

def xmlElem (tag : Str) (text : Str) : Str := ['<'] ++ tag ++ ['>'] ++ xmlEscapeText text ++ ['<', '/'] ++ tag ++ ['>']

def xmlRow (cols : List Str) (r : List (Option Str)) : Str :=
  "<r>".toList ++ (List.zipWith (fun c v => match v with | some s => xmlElem c s | none => []) cols r).flatten ++ "</r>".toList

/-- `<root><r><c1>…</c1>…</r>…</root>` (iterator `/root/r`; the column names must be XML names) -/
def renderXml (T : StrTable) : Str :=
  "<?xml version=\"1.0\" encoding=\"UTF-8\"?>\n<root>".toList ++ (T.rows.map (xmlRow T.cols)).flatten ++ "</root>".toList

/-- the attribute form: `<r c1="…" c2="…"/>`, a NULL is an absent attribute (references `@c`) -/
def xmlAttrRow (cols : List Str) (r : List (Option Str)) : Str :=
  "<r".toList ++ (List.zipWith (fun c v => match v with
      | some s => [' '] ++ c ++ ['=', '"'] ++ xmlEscapeAttr s ++ ['"']
      | none => []) cols r).flatten ++ "/>".toList

def renderXmlAttrs (T : StrTable) : Str :=
  "<?xml version=\"1.0\" encoding=\"UTF-8\"?>\n<root>".toList ++ (T.rows.map (xmlAttrRow T.cols)).flatten ++ "</root>".toList

/-! ## SQL -/

def sqlEscChar (c : Char) : Str := if c = '\'' then ['\'', '\''] else [c]

def sqlLiteral (s : Str) : Str := ['\''] ++ s.flatMap sqlEscChar ++ ['\'']

def sqlValue : Option Str → Str
  | some s => sqlLiteral s
  | none => "NULL".toList

def sqlIdEscChar (c : Char) : Str := if c = '"' then ['"', '"'] else [c]

/-- a delimited identifier of standard SQL -/
def sqlIdent (s : Str) : Str := ['"'] ++ s.flatMap sqlIdEscChar ++ ['"']

def sqlCreate (tbl : Str) (cols : List Str) : Str :=
  "CREATE TABLE ".toList ++ sqlIdent tbl ++ " (".toList ++ join ", ".toList (cols.map fun c => sqlIdent c ++ " TEXT".toList) ++ ")".toList

def sqlInsert (tbl : Str) (r : List (Option Str)) : Str :=
  "INSERT INTO ".toList ++ sqlIdent tbl ++ " VALUES (".toList ++ join ", ".toList (r.map sqlValue) ++ ")".toList

/-- the statements that create and fill the table -/
def renderSql (tbl : Str) (T : StrTable) : List Str := sqlCreate tbl T.cols :: T.rows.map (sqlInsert tbl)

end Spec.Payload
