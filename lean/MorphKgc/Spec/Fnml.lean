/-
Specification side of C14: what a function-valued term map means, ROW BY ROW, written without frames, `dropna` or `explode`.

  * `nullish`, `resultAtoms`: a NULL result contributes nothing, a list result one value per non-NULL element, any other result
    one value.  NULL is what the configuration calls NULL: a NULL object, or a string listed in `na_values`.
  * `bindByIri`: the Python parameter `k` receives the value of THE input whose `rml:parameter` is the IRI that the decorator
    declares for `k` (independent of the order of the inputs and of the order of the decorator's keyword arguments).
  * `execRowWith` / `execRow`: an execution on one row: the nested executions of its inputs first (each sees only this row and
    the values produced for it so far), then the function on the bound arguments.
  * documented contracts of the string built-ins are stated in `Props/C14.lean` against the definitions of
    `Model/FnmlBuiltins.lean`; the repository has no `docs/` directory, the contracts are those of the GREL function
    reference (https://openrefine.org/docs/manual/grelfunctions), of the idlab-fn descriptions and of the comments in
    built_in_functions.py, quoted at each theorem.
-/
import MorphKgc.Model.FnmlBuiltins

namespace Spec.Fnml
open Py Model Model.Fnml

/-- NULL: a NULL object, or a string the configuration lists in `na_values` -/
def nullish (na : List Str) : Atom → Bool
  | .null _ => true
  | .str s => na.contains s
  | _ => false

/-- the values a function result stands for -/
def resultAtoms (na : List Str) : PyVal → List Atom
  | .atom a => if nullish na a then [] else [a]
  | .list xs => xs.filter fun a => !nullish na a

/-- the value of an input for one row -/
def argValue (σ : FR) (r : FRow) : Atom :=
  match r.vtype with
  | .constant => .str r.value
  | .template => fnmlTemplate σ r.value
  | .reference => getCol σ r.value
  | .execution => getCol σ r.value          -- the value the nested execution produced for this row
  | .other => getCol σ r.value

/-- binding by parameter IRI -/
def bindByIri (sig : Sig) (rows : List FRow) (σ : FR) : Args :=
  sig.filterMap fun kv => (rows.find? fun r => r.param = kv.2).map fun r => (kv.1, argValue σ r)

/-- the nested executions among the inputs, one after the other, each on the rows produced so far for this row -/
def innerRow (rec : Str → FR → Frame) : List FRow → Frame → Frame
  | [], acc => acc
  | r :: rs, acc => innerRow rec rs (if r.vtype = .execution then acc.flatMap (rec r.value) else acc)

/-- one execution on one row; `bind` and `fin` (result ↦ values) are parameters so that the frame-level model can be compared
    with it for either statement order -/
def execRowWith (bind : Sig → List FRow → FR → Args) (fin : PyVal → List Atom) (env : FunEnv) (df : FnmlDf) :
    Nat → Str → FR → Frame
  | 0, id, σ => [setCol σ id (.exc "RecursionError".toList)]
  | n + 1, id, σ =>
    match rowsOf df id with
    | [] => [setCol σ id (.exc "IndexError".toList)]
    | r0 :: rs =>
      let fr1 := innerRow (execRowWith bind fin env df n) (r0 :: rs) [σ]
      match env.sigs r0.fn with
      | none => fr1.map fun σ' => setCol σ' id (.exc "KeyError".toList)
      | some sig => fr1.flatMap fun σ' => (fin (callOn env r0.fn (bind sig (r0 :: rs)) σ')).map (setCol σ' id)

/-- **the specification**: binding by IRI, NULL results dropped, lists spread -/
def execRow (env : FunEnv) (na : List Str) (df : FnmlDf) : Nat → Str → FR → Frame :=
  execRowWith bindByIri (resultAtoms na) env df

/-- the values of an execution for one row -/
def vals (env : FunEnv) (na : List Str) (df : FnmlDf) (n : Nat) (id : Str) (σ : FR) : List Atom :=
  (execRow env na df n id σ).map fun σ' => getCol σ' id

/-! ### scope of C14_F1 -/

/-- a list result that is empty or has a NULL element -/
def BadList (na : List Str) : PyVal → Bool
  | .list xs => xs.isEmpty || xs.any (nullish na)
  | .atom _ => false

def scopeInner (sc : Str → FR → Bool) (rec : Str → FR → Frame) : List FRow → Frame → Bool
  | [], _ => false
  | r :: rs, acc =>
    if r.vtype = .execution then acc.any (sc r.value) || scopeInner sc rec rs (acc.flatMap (rec r.value))
    else scopeInner sc rec rs acc

/-- `scope_C14_F1` for one row: some call made while evaluating execution `id` on `σ` returns a `BadList` -/
def scopeF1Row (bind : Sig → List FRow → FR → Args) (env : FunEnv) (na : List Str) (df : FnmlDf) : Nat → Str → FR → Bool
  | 0, _, _ => false
  | n + 1, id, σ =>
    match rowsOf df id with
    | [] => false
    | r0 :: rs =>
      scopeInner (scopeF1Row bind env na df n) (execRowWith bind (resultAtoms na) env df n) (r0 :: rs) [σ] ||
      match env.sigs r0.fn with
      | none => false
      | some sig =>
        (innerRow (execRowWith bind (resultAtoms na) env df n) (r0 :: rs) [σ]).any fun σ' =>
          BadList na (callOn env r0.fn (bind sig (r0 :: rs)) σ')

/-! ### well-formed FNML tables -/

/-- every execution names each parameter at most once -/
def ParamsDistinct (df : FnmlDf) : Prop := ∀ id, ((rowsOf df id).map (·.param)).Nodup

instance (df : FnmlDf) (id : Str) : Decidable (((rowsOf df id).map (·.param)).Nodup) := inferInstance

/-- execution ids mentioned by a table: defined ones and nested references -/
def mentioned (df : FnmlDf) : List Str :=
  df.flatMap fun r => r.exec :: (if r.vtype = .execution then [r.value] else [])

end Spec.Fnml
