/-
N-Quads(-star) line grammar: an executable, total serialiser and parser (specification side).

Reading of the W3C grammars (RDF 1.1 N-Triples / N-Quads, RDF-star CG report "N-Triples-star"):

  nquadsDoc        ::= statement? (EOL statement)* EOL?                EOL ::= [#xD#xA]+
  statement        ::= subject predicate object graphLabel? '.'        (white space = [#x20#x9]*, comments `# …`)
  subject          ::= IRIREF | BLANK_NODE_LABEL | quotedTriple
  predicate        ::= IRIREF
  object           ::= IRIREF | BLANK_NODE_LABEL | literal | quotedTriple
  graphLabel       ::= IRIREF | BLANK_NODE_LABEL
  quotedTriple     ::= '<<' subject predicate object '>>'
  literal          ::= STRING_LITERAL_QUOTE ('^^' IRIREF | LANGTAG)?
  IRIREF           ::= '<' ([^#x00-#x20<>"{}|^`\] | UCHAR)* '>'
  STRING_LITERAL_QUOTE ::= '"' ([^#x22#x5C#xA#xD] | ECHAR | UCHAR)* '"'
  BLANK_NODE_LABEL ::= '_:' (PN_CHARS_U | [0-9]) ((PN_CHARS | '.')* PN_CHARS)?
  LANGTAG          ::= '@' [a-zA-Z]+ ('-' [a-zA-Z0-9]+)*
  UCHAR            ::= '\u' HEX HEX HEX HEX | '\U' HEX×8          ECHAR ::= '\' [tbnrf"'\]

No raw line feed / carriage return can occur inside a token, so a document is split at EOL characters
first and every non-blank line is parsed as one statement.

Terms are *decoded*: `Term.lit lex _` holds the lexical form (escapes resolved), `Term.iri v` the IRI
string (UCHARs resolved).  Everything is structurally recursive (the nesting of `<< >>` by a fuel equal
to the line length), so `decide` can run it and the driver executes it.
-/
import MorphKgc.Py.Str

namespace Spec.NQ
open Py

inductive LitKind
  | plain
  | lang (tag : Str)
  | typed (dt : Str)
  deriving DecidableEq, Repr

inductive Term
  | iri (v : Str)
  | bnode (label : Str)
  | lit (lex : Str) (k : LitKind)
  | quoted (s p o : Term)
  deriving DecidableEq, Repr

structure Stmt where
  s : Term
  p : Term
  o : Term
  g : Option Term
  deriving DecidableEq, Repr

/-! ### character classes -/

def inR (c : Char) (lo hi : Nat) : Bool := lo ≤ c.toNat && c.toNat ≤ hi

def isWs (c : Char) : Bool := c = ' ' || c = '\t'
def isEol (c : Char) : Bool := c = '\n' || c = '\r'

/-- `[^#x00-#x20<>"{}|^`\]` -/
def iriChar (c : Char) : Bool :=
  !(c.toNat ≤ 0x20 || c = '<' || c = '>' || c = '"' || c = '{' || c = '}' || c = '|' || c = '^' || c = '`' || c = '\\')

/-- `[^#x22#x5C#xA#xD]` (the quote and the backslash are tested before this is consulted) -/
def strChar (c : Char) : Bool := !(c = '"' || c = '\\' || c = '\n' || c = '\r')

def pnCharsBase (c : Char) : Bool :=
  inR c 0x41 0x5A || inR c 0x61 0x7A || inR c 0xC0 0xD6 || inR c 0xD8 0xF6 || inR c 0xF8 0x2FF || inR c 0x370 0x37D ||
  inR c 0x37F 0x1FFF || inR c 0x200C 0x200D || inR c 0x2070 0x218F || inR c 0x2C00 0x2FEF || inR c 0x3001 0xD7FF ||
  inR c 0xF900 0xFDCF || inR c 0xFDF0 0xFFFD || inR c 0x10000 0xEFFFF
def isDigit (c : Char) : Bool := inR c 0x30 0x39
def pnCharsU (c : Char) : Bool := pnCharsBase c || c = '_' || c = ':'
def pnChars (c : Char) : Bool :=
  pnCharsU c || c = '-' || isDigit c || c.toNat = 0xB7 || inR c 0x300 0x36F || inR c 0x203F 0x2040
/-- characters that may continue a blank node label (the final one must not be a dot) -/
def labelChar (c : Char) : Bool := pnChars c || c = '.'
def isAlpha (c : Char) : Bool := inR c 0x41 0x5A || inR c 0x61 0x7A
def langChar (c : Char) : Bool := isAlpha c || isDigit c || c = '-'

/-! ### serialiser -/

/-- ECHAR table: escape letter ↦ character -/
def echar (e : Char) : Option Char :=
  if e = 't' then some '\t' else if e = 'b' then some '\x08' else if e = 'n' then some '\n' else if e = 'r' then some '\r'
  else if e = 'f' then some '\x0c' else if e = '"' then some '"' else if e = '\'' then some '\'' else if e = '\\' then some '\\'
  else none

/-- the escaping the engine applies to lexical forms (every ECHAR is used, no UCHAR) -/
def escChar (c : Char) : Str :=
  if c = '\\' then ['\\', '\\'] else if c = '\n' then ['\\', 'n'] else if c = '\t' then ['\\', 't']
  else if c = '\x08' then ['\\', 'b'] else if c = '\x0c' then ['\\', 'f'] else if c = '\r' then ['\\', 'r']
  else if c = '"' then ['\\', '"'] else if c = '\'' then ['\\', '\''] else [c]

def escape (s : Str) : Str := s.flatMap escChar

def renderTerm : Term → Str
  | .iri v => '<' :: v ++ ['>']
  | .bnode l => '_' :: ':' :: l
  | .lit lex .plain => '"' :: escape lex ++ ['"']
  | .lit lex (.lang t) => '"' :: escape lex ++ '"' :: '@' :: t
  | .lit lex (.typed d) => '"' :: escape lex ++ '"' :: '^' :: '^' :: '<' :: d ++ ['>']
  | .quoted s p o => '<' :: '<' :: ' ' :: renderTerm s ++ ' ' :: renderTerm p ++ ' ' :: renderTerm o ++ [' ', '>', '>']

/-- the two shapes of strings in the set returned by `materialize_set` -/
inductive Shape
  | triple    -- N-TRIPLES: `s p o`
  | quad      -- N-QUADS:   `s p o g`, or `s p o ` (trailing space) in the default graph
  deriving DecidableEq, Repr

/-- statement without the terminating dot, as the engine renders it -/
def renderStmtBody (sh : Shape) (st : Stmt) : Str :=
  renderTerm st.s ++ ' ' :: renderTerm st.p ++ ' ' :: renderTerm st.o ++
    (match sh, st.g with
     | .triple, _ => []
     | .quad, none => [' ']
     | .quad, some g => ' ' :: renderTerm g)

/-- canonical N-Quads line (`s p o [g] .`) -/
def renderStmt (st : Stmt) : Str :=
  renderTerm st.s ++ ' ' :: renderTerm st.p ++ ' ' :: renderTerm st.o ++
    (match st.g with
     | none => [' ', '.']
     | some g => ' ' :: renderTerm g ++ [' ', '.'])

/-! ### lexer -/

inductive LexSt
  | normal
  | esc
  | hex (remaining acc : Nat)

def hexVal (c : Char) : Option Nat :=
  if isDigit c then some (c.toNat - 0x30)
  else if inR c 0x41 0x46 then some (c.toNat - 0x41 + 10)
  else if inR c 0x61 0x66 then some (c.toNat - 0x61 + 10)
  else none

/-- a code point that is a Unicode scalar value -/
def scalar (n : Nat) : Option Char :=
  if n.isValidChar then some (Char.ofNat n) else none

/-- Reads up to the unescaped closing delimiter `close`; returns the decoded content and the rest.
    `plain` says which characters may appear raw, `ech` is the table of one-letter escapes
    (empty for IRIREF); `\uXXXX` / `\UXXXXXXXX` are decoded in both. -/
def pDelim (close : Char) (plain : Char → Bool) (ech : Char → Option Char) : LexSt → Str → Option (Str × Str)
  | _, [] => none
  | .normal, c :: r =>
    if c = close then some ([], r)
    else if c = '\\' then pDelim close plain ech .esc r
    else if plain c then (pDelim close plain ech .normal r).map fun x => (c :: x.1, x.2)
    else none
  | .esc, c :: r =>
    if c = 'u' then pDelim close plain ech (.hex 4 0) r
    else if c = 'U' then pDelim close plain ech (.hex 8 0) r
    else match ech c with
      | some d => (pDelim close plain ech .normal r).map fun x => (d :: x.1, x.2)
      | none => none
  | .hex 0 _, _ :: _ => none
  | .hex (k + 1) acc, c :: r =>
    match hexVal c with
    | none => none
    | some v =>
      if k = 0 then
        match scalar (acc * 16 + v) with
        | some d => (pDelim close plain ech .normal r).map fun x => (d :: x.1, x.2)
        | none => none
      else pDelim close plain ech (.hex k (acc * 16 + v)) r

def pIri (s : Str) : Option (Str × Str) := pDelim '>' iriChar (fun _ => none) .normal s
def pString (s : Str) : Option (Str × Str) := pDelim '"' strChar echar .normal s

def skipWs (s : Str) : Str := s.dropWhile isWs

/-- remove trailing dots -/
def stripDots (s : Str) : Str := (s.reverse.dropWhile (· = '.')).reverse

def validLabelStart (l : Str) : Bool :=
  match l with
  | [] => false
  | c :: _ => pnCharsU c || isDigit c

/-- `[a-zA-Z]+ ('-' [a-zA-Z0-9]+)*` as an automaton: `first` = still in the first subtag, `fresh` = at the start of a subtag -/
def validLangAux : Bool → Bool → Str → Bool
  | _, fresh, [] => !fresh
  | first, fresh, c :: r =>
    if c = '-' then (!fresh) && validLangAux false true r
    else if first then isAlpha c && validLangAux true false r
    else (isAlpha c || isDigit c) && validLangAux false false r

def validLang (t : Str) : Bool := validLangAux true true t

/-- IRIREF, BLANK_NODE_LABEL or literal -/
def pAtom : Str → Option (Term × Str)
  | [] => none
  | c :: r =>
    if c = '<' then (pIri r).map fun x => (.iri x.1, x.2)
    else if c = '_' then
      match r with
      | [] => none
      | d :: r1 =>
        if d = ':' then
          let lbl := stripDots (r1.takeWhile labelChar)
          if validLabelStart lbl then some (.bnode lbl, r1.drop lbl.length) else none
        else none
    else if c = '"' then
      match pString r with
      | none => none
      | some (lex, r1) =>
        match r1 with
        | [] => some (.lit lex .plain, [])
        | d :: r2 =>
          if d = '@' then
            let tag := r2.takeWhile langChar
            if validLang tag then some (.lit lex (.lang tag), r2.drop tag.length) else none
          else if d = '^' then
            match r2 with
            | e :: f :: r3 => if e = '^' && f = '<' then (pIri r3).map fun x => (.lit lex (.typed x.1), x.2) else none
            | _ => none
          else some (.lit lex .plain, d :: r2)
    else none

/-- `some rest` when the input starts with `<<` -/
def quoteOpen : Str → Option Str
  | c :: d :: r => if c = '<' && d = '<' then some r else none
  | _ => none

def quoteClose : Str → Option Str
  | c :: d :: r => if c = '>' && d = '>' then some r else none
  | _ => none

def okSubj : Term → Bool
  | .lit _ _ => false
  | _ => true

def okPred : Term → Bool
  | .iri _ => true
  | _ => false

def okGraph : Option Term → Bool
  | none => true
  | some (.iri _) => true
  | some (.bnode _) => true
  | some _ => false

/-- a term; the fuel bounds the nesting depth of `<< >>` -/
def pTerm : Nat → Str → Option (Term × Str)
  | 0, s =>
    match quoteOpen s with
    | some _ => none
    | none => pAtom s
  | n + 1, s =>
    match quoteOpen s with
    | none => pAtom s
    | some r =>
      match pTerm n (skipWs r) with
      | none => none
      | some (a, r1) =>
        match pTerm n (skipWs r1) with
        | none => none
        | some (b, r2) =>
          match pTerm n (skipWs r2) with
          | none => none
          | some (o, r3) =>
            match quoteClose (skipWs r3) with
            | none => none
            | some r4 => if okSubj a && okPred b then some (.quoted a b o, r4) else none

/-- end of the line: nothing, or a comment -/
def lineEnd : Str → Bool
  | [] => true
  | c :: _ => c = '#'

/-- after the object: `[graphLabel] '.'` -/
def pTail (fuel : Nat) (s : Str) : Option (Option Term) :=
  match s with
  | [] => none
  | c :: r =>
    if c = '.' then (if lineEnd (skipWs r) then some none else none)
    else
      match pTerm fuel s with
      | none => none
      | some (g, r1) =>
        match skipWs r1 with
        | [] => none
        | d :: r2 => if d = '.' && lineEnd (skipWs r2) then some (some g) else none

/-- one statement line (no line end inside) -/
def parseLineF (f : Nat) (s : Str) : Option Stmt :=
  match pTerm f (skipWs s) with
  | none => none
  | some (a, r1) =>
    match pTerm f (skipWs r1) with
    | none => none
    | some (b, r2) =>
      match pTerm f (skipWs r2) with
      | none => none
      | some (o, r3) =>
        match pTail f (skipWs r3) with
        | none => none
        | some g => if okSubj a && okPred b && okGraph g then some ⟨a, b, o, g⟩ else none

def parseLine (s : Str) : Option Stmt := parseLineF s.length s

def consHead (c : Char) : List Str → List Str
  | [] => [[c]]
  | l :: ls => (c :: l) :: ls

/-- split at every EOL character (`\n`, `\r`) -/
def eolSplit : Str → List Str
  | [] => [[]]
  | c :: r => if isEol c then [] :: eolSplit r else consHead c (eolSplit r)

def isBlankLine (l : Str) : Bool := lineEnd (skipWs l)

def parseLines : List Str → Option (List Stmt)
  | [] => some []
  | l :: ls =>
    if isBlankLine l then parseLines ls
    else match parseLine l with
      | none => none
      | some st => (parseLines ls).map fun r => st :: r

/-- a whole N-Quads(-star) document -/
def parseDoc (s : Str) : Option (List Stmt) := parseLines (eolSplit s)

/-! ### well-formedness (what the serialiser needs for its output to be in the grammar) -/

def wfLang (t : Str) : Bool := t.all langChar && validLang t
def wfLabel (l : Str) : Bool := l.all labelChar && validLabelStart l && (stripDots l == l)
def wfIri (v : Str) : Bool := v.all iriChar

def wfTerm : Term → Bool
  | .iri v => wfIri v
  | .bnode l => wfLabel l
  | .lit _ .plain => true
  | .lit _ (.lang t) => wfLang t
  | .lit _ (.typed d) => wfIri d
  | .quoted s p o => wfTerm s && wfTerm p && wfTerm o && okSubj s && okPred p

def wfStmt (st : Stmt) : Bool :=
  wfTerm st.s && wfTerm st.p && wfTerm st.o && okSubj st.s && okPred st.p &&
  (match st.g with | none => true | some g => wfTerm g) && okGraph st.g

def depth : Term → Nat
  | .quoted s p o => 1 + max (depth s) (max (depth p) (depth o))
  | _ => 0

end Spec.NQ
