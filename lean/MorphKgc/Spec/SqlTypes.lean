/-
Specification side of C20: the R2RML natural mapping of SQL datatypes (R2RML §10.2) and the `data_type`
strings that the catalogues of the supported DBMSs report, each with the XSD datatype it must get
(`none` = plain literal).  Written from the R2RML recommendation and the DBMS manuals, independently of
the engine's table.
-/
import MorphKgc.Py.Str

namespace Spec
open Py

def xsd (s : String) : Option Str := some ("http://www.w3.org/2001/XMLSchema#".toList ++ s.toList)

/-- R2RML §10.2, SQL 2008 core types -/
def naturalMapping : List (String × Option Str) := [
  ("BINARY", xsd "hexBinary"), ("BINARY VARYING", xsd "hexBinary"), ("BINARY LARGE OBJECT", xsd "hexBinary"),
  ("VARBINARY", xsd "hexBinary"), ("BLOB", xsd "hexBinary"),
  ("NUMERIC", xsd "decimal"), ("DECIMAL", xsd "decimal"),
  ("SMALLINT", xsd "integer"), ("INTEGER", xsd "integer"), ("INT", xsd "integer"), ("BIGINT", xsd "integer"),
  ("FLOAT", xsd "double"), ("REAL", xsd "double"), ("DOUBLE PRECISION", xsd "double"),
  ("BOOLEAN", xsd "boolean"),
  ("DATE", xsd "date"),
  ("TIME", xsd "time"),
  ("TIMESTAMP", xsd "dateTime"),
  ("INTERVAL", none),
  ("CHARACTER", none), ("CHAR", none), ("CHARACTER VARYING", none), ("VARCHAR", none),
  ("CHARACTER LARGE OBJECT", none), ("CLOB", none), ("NATIONAL CHARACTER", none), ("NCHAR", none),
  ("NATIONAL CHARACTER VARYING", none), ("NCLOB", none)
]

/-- `data_type` strings as reported by information_schema.columns (MySQL/MariaDB, PostgreSQL, SQL Server),
    all_tab_columns (Oracle) and `typeof` (SQLite) -/
def dbmsCatalogNames : List (String × Option Str) := [
  -- MySQL / MariaDB
  ("int", xsd "integer"), ("smallint", xsd "integer"), ("mediumint", xsd "integer"), ("bigint", xsd "integer"),
  ("decimal", xsd "decimal"), ("float", xsd "double"), ("double", xsd "double"),
  ("date", xsd "date"), ("time", xsd "time"), ("datetime", xsd "dateTime"), ("timestamp", xsd "dateTime"),
  ("char", none), ("varchar", none), ("text", none), ("tinytext", none), ("mediumtext", none), ("longtext", none),
  ("binary", xsd "hexBinary"), ("varbinary", xsd "hexBinary"), ("blob", xsd "hexBinary"),
  ("enum", none), ("set", none), ("json", none), ("point", none), ("multipoint", none), ("year", none),
  -- PostgreSQL
  ("integer", xsd "integer"), ("numeric", xsd "decimal"), ("real", xsd "double"), ("double precision", xsd "double"),
  ("boolean", xsd "boolean"),
  ("character varying", none), ("character", none), ("uuid", none), ("interval", none), ("inet", none),
  ("timestamp without time zone", xsd "dateTime"), ("timestamp with time zone", xsd "dateTime"),
  ("time without time zone", xsd "time"), ("time with time zone", xsd "time"),
  -- Oracle
  ("NUMBER", xsd "double"), ("VARCHAR2", none), ("NVARCHAR2", none), ("DATE", xsd "date"),
  ("TIMESTAMP(6)", xsd "dateTime"), ("TIMESTAMP(6) WITH TIME ZONE", xsd "dateTime"),
  ("TIMESTAMP(3) WITH LOCAL TIME ZONE", xsd "dateTime"),
  ("RAW", xsd "hexBinary"), ("LONG RAW", xsd "hexBinary"), ("BLOB", xsd "hexBinary"), ("BFILE", xsd "hexBinary"),
  ("CLOB", none), ("INTERVAL DAY(2) TO SECOND(6)", none), ("INTERVAL YEAR(2) TO MONTH", none), ("ROWID", none),
  -- SQL Server
  ("datetime2", xsd "dateTime"), ("nvarchar", none), ("nchar", none), ("ntext", none),
  ("uniqueidentifier", none), ("money", none), ("xml", none),
  -- SQLite typeof()
  ("text", none), ("null", none)
]

/-- type names to which a parenthesised parameter list may be attached -/
def parameterisable : List String :=
  ["VARCHAR", "CHAR", "CHARACTER VARYING", "NUMERIC", "DECIMAL", "FLOAT", "TIME", "TIMESTAMP", "DATETIME",
   "BINARY", "VARBINARY", "INT", "INTEGER", "BIGINT", "SMALLINT", "TINYINT", "NUMBER", "VARCHAR2", "DOUBLE", "BIT"]

def characterTypes : List String :=
  ["CHARACTER", "CHAR", "CHARACTER VARYING", "VARCHAR", "CHARACTER LARGE OBJECT", "CLOB", "NCHAR", "NCLOB", "TEXT",
   "VARCHAR2", "NVARCHAR", "NVARCHAR2", "character varying", "text"]

/-- a parenthesised parameter list such as `(10)`, `(10,2)`, `(6) ` : starts with '(' and contains no letter or underscore -/
def IsParenArgs (a : Str) : Bool :=
  match a with
  | '(' :: r => r.all (fun c => !(c.isAlpha || c = '_'))
  | _ => false

end Spec
