/-
Specification side of C19: the DOCUMENTED configuration options of morph-kgc, their documented values and
defaults.  Written from the documentation shipped in /repo, independently of the tables in config.py:

  [ini]   /repo/examples/configuration-file/default_config.ini  ("default_config": every option with its default;
          the README L55 points to it as the example INI file)
  [readme]/repo/README.md L52-77 (config as a file or as a string)
  [prop]  the text of property C19 (names `only_printable_chars`, `file_path`, the behavioural options)
  [rtd]   the on-line manual the README links (morph-kgc.readthedocs.io, "Configuration"); it is not shipped in
          /repo and not reachable from the sandbox: the lists of valid values below follow it from memory and the
          error messages of the engine.  This file is therefore *my reading* of the documentation (trusted base).

Two option names in [ini] are stale (`only_printable_characters` L10, `logs_file` L22): the engine reads
`only_printable_chars` and `logging_file`.  Unknown option *names* are outside the property (it speaks of the
values of documented options); the two options are listed under the names the engine and [prop]/[rtd] use.
-/
import MorphKgc.Py.Str

namespace Spec.ConfigDoc
open Py

/-- a documented default: a literal value, or "left empty = chosen by the engine" (number_of_processes:
    twice the number of CPUs, [rtd]; [ini] L18 leaves it empty) -/
inductive DocDefault
  | value (s : String)
  | twiceCpuCount
  deriving DecidableEq, Repr

structure DocOption where
  name : String
  default : DocDefault
  /-- where the default is documented -/
  source : String
  deriving Repr

/-- the documented options of the CONFIGURATION section with their documented defaults -/
def options : List DocOption := [
  ⟨"na_values", .value ",#N/A,N/A,#N/A N/A,n/a,NA,<NA>,#NA,NULL,null,NaN,nan,None", "[ini] L4"⟩,
  ⟨"output_file", .value "knowledge-graph.nt", "[ini] L7 (the file that is written)"⟩,
  ⟨"output_dir", .value "", "[ini] L8"⟩,
  ⟨"output_format", .value "N-TRIPLES", "[ini] L9"⟩,
  ⟨"only_printable_chars", .value "no", "[ini] L10 (under the stale name only_printable_characters), [prop]"⟩,
  ⟨"safe_percent_encoding", .value "", "[ini] L11"⟩,
  ⟨"mapping_partitioning", .value "PARTIAL-AGGREGATIONS", "[ini] L14"⟩,
  ⟨"infer_sql_datatypes", .value "no", "[ini] L15"⟩,
  ⟨"number_of_processes", .twiceCpuCount, "[ini] L18 (empty), [rtd]"⟩,
  ⟨"logging_level", .value "INFO", "[ini] L21"⟩,
  ⟨"logging_file", .value "", "[ini] L22 (under the stale name logs_file)"⟩
]

def documentedOptions : List Str := options.map (·.name.toList)

def documentedDefault (o : Str) : Option DocDefault :=
  (options.find? (fun d => d.name.toList = o)).map (·.default)

/-- the options whose values are enumerations -/
def enumOptions : List Str := ["output_format".toList, "logging_level".toList, "mapping_partitioning".toList]

/-- documented values of the enumerated options (upper-case spelling; the property demands that they are
    accepted in any letter case).
    output_format: [ini] L9 shows N-TRIPLES; N-QUADS: [rtd], test-suite configurations.
    logging_level: the level names of Python's `logging` ([rtd]).
    mapping_partitioning: [ini] L14 shows PARTIAL-AGGREGATIONS; MAXIMAL and the four "no partitioning" spellings: [rtd]. -/
def documentedValues (o : Str) : List Str :=
  if o = "output_format".toList then ["N-TRIPLES".toList, "N-QUADS".toList]
  else if o = "logging_level".toList then
    ["DEBUG".toList, "INFO".toList, "WARNING".toList, "ERROR".toList, "CRITICAL".toList, "NOTSET".toList]
  else if o = "mapping_partitioning".toList then
    ["PARTIAL-AGGREGATIONS".toList, "MAXIMAL".toList, "NO".toList, "FALSE".toList, "OFF".toList, "0".toList]
  else []

/-- boolean options ([ini] L10, L15 use `no`); their values are configparser booleans -/
def booleanOptions : List Str := ["only_printable_chars".toList, "infer_sql_datatypes".toList]

/-- Python library reference, configparser "Supported Datatypes": getboolean "recognizes Boolean values from
    'yes'/'no', 'on'/'off', 'true'/'false' and '1'/'0'", case-insensitively; anything else raises ValueError -/
def truthTable (b : Bool) : List Str :=
  if b then ["1".toList, "yes".toList, "true".toList, "on".toList]
  else ["0".toList, "no".toList, "false".toList, "off".toList]

/-- file extension of each output format ([ini] L7+L9: N-TRIPLES is written to `knowledge-graph.nt`;
    `.nq` is the registered extension of N-Quads) -/
def extensionOf (format : Str) : Option Str :=
  if format = "N-TRIPLES".toList then some ".nt".toList
  else if format = "N-QUADS".toList then some ".nq".toList
  else none

/-- the separator of the `na_values` list ([ini] L4: comma-separated) -/
def naSeparator : Str := ",".toList

/-- The property: "absent or empty options take the documented defaults".  READING: for the list-valued option
    `na_values` an explicitly empty value is itself a value — the list whose only token is the empty string
    ("only empty cells are NULL"; there is no other way to write it, and config.py L93 lists the option among
    those "not to be completed with default value if they are empty") — so `na_values=` is *honoured*, not
    defaulted.  Every other documented option must behave as if absent when left empty.  A stricter reader
    deletes the exception below; `Props.C19.C19_empty_partial` then fails with `na_values` as the witness. -/
def emptyTakesDefault (o : Str) : Bool := o ≠ "na_values".toList

end Spec.ConfigDoc
