/-
Specification side of C13: the RML-star generation rules, written independently of the engine (no rule table, no data
frames, no renumbering):

  a subject map or object map that refers to a *quoted triples map* contributes, for each logical row (without join
  condition: the same row; with join conditions: every row of the quoted map's logical source that satisfies them),
  the quoted triple « s p o » of EACH triple the quoted map generates for that row — all its predicate-object maps and
  classes, no graph term — nested to any depth.  A statement needs all of its terms and a graph placement (R2RML §11);
  a quoted map "generates" a triple for a row iff it would place it in at least one graph.  Triples maps typed
  `rml:NonAssertedTriplesMap` contribute no statement of their own.

Rendering as in `Spec/Rules.lean`; a quoted triple is written `<< s p o >>`.
-/
import MorphKgc.Spec.Rules

namespace Spec.Star
open Py Model Spec

/-- a subject / object position: an ordinary term map, or a reference to a quoted triples map with join conditions
    (child reference, parent reference) -/
inductive Pos
  | term (tm : TermMap)
  | quoted (id : Str) (join : List (Str × Str))
  deriving Repr, DecidableEq, Inhabited

structure SPom where
  predicates : List TermMap
  objects : List Pos
  graphs : List TermMap
  deriving Repr, DecidableEq, Inhabited

structure STm where
  id : Str
  sourceName : Str
  lsv : Str
  /-- `false` = `rml:NonAssertedTriplesMap` -/
  asserted : Bool := true
  subject : Pos
  classes : List Str
  graphs : List TermMap
  poms : List SPom
  deriving Repr, DecidableEq, Inhabited

structure SDoc where
  tms : List STm
  deriving Repr, DecidableEq, Inhabited

def SDoc.find (doc : SDoc) (id : Str) : Option STm := doc.tms.find? (fun t => t.id = id)

def _root_.Spec.SEnv.tableS (env : SEnv) (tm : STm) : Table :=
  match env.tables.find? (fun p => p.1 = (tm.sourceName, tm.lsv)) with
  | some p => p.2
  | none => []

/-- `<< s p o >>` -/
def quote (t : Str) : Str := "<< ".toList ++ t ++ " >>".toList

def renderTriple (s p o : Str) : Str := s ++ [' '] ++ p ++ [' '] ++ o

/-- the (predicate map, object position, applicable graph maps) combinations of a triples map: one per class and one
    per predicate × object of every predicate-object map -/
def combos (env : SEnv) (tm : STm) : List (TermMap × Pos × List TermMap) :=
  (tm.classes.map fun c => (classPred env, Pos.term { kind := .constant, value := c, termType := .iri }, tm.graphs)) ++
  tm.poms.flatMap fun pom =>
    pom.predicates.flatMap fun p => pom.objects.map fun o => (p, o, tm.graphs ++ pom.graphs)

/-- the rows of the quoted map that a row is paired with -/
def pairedRows (env : SEnv) (conds : List (Str × Str)) (ρ : Row) (q : STm) : List Row :=
  if conds.isEmpty then [ρ] else joinRows env.na conds ρ (env.tableS q)

/-- the triples `s p o` (no graph) a triples map generates for a row, to quoting depth `d` -/
def triplesOf (env : SEnv) (doc : SDoc) : Nat → STm → Row → List Str
  | 0, _, _ => []
  | d + 1, tm, ρ =>
    let posTerms : Pos → List Str := fun pos =>
      match pos with
      | .term t => (genTerm env.safe env.na t ρ).toList
      | .quoted id conds =>
        match doc.find id with
        | none => []
        | some q => (pairedRows env conds ρ q).flatMap fun ρ' => (triplesOf env doc d q ρ').map quote
    (combos env tm).flatMap fun c =>
      if (graphTerms env c.2.2 ρ).isEmpty then [] else
      (posTerms tm.subject).flatMap fun s =>
        (genTerm env.safe env.na c.1 ρ).toList.flatMap fun p =>
          (posTerms c.2.1).map fun o => renderTriple s p o

/-- the terms of a position for a row -/
def posTerms (env : SEnv) (doc : SDoc) (d : Nat) (ρ : Row) : Pos → List Str
  | .term t => (genTerm env.safe env.na t ρ).toList
  | .quoted id conds =>
    match doc.find id with
    | none => []
    | some q => (pairedRows env conds ρ q).flatMap fun ρ' => (triplesOf env doc d q ρ').map quote

/-- the statements a triples map places at the top level for a row -/
def stmtsOf (env : SEnv) (doc : SDoc) (d : Nat) (tm : STm) (ρ : Row) : List Str :=
  (combos env tm).flatMap fun c =>
    (posTerms env doc d ρ tm.subject).flatMap fun s =>
      (genTerm env.safe env.na c.1 ρ).toList.flatMap fun p =>
        (posTerms env doc d ρ c.2.1).flatMap fun o =>
          (graphTerms env c.2.2 ρ).map fun g => renderStmt env.fmt s p o g

/-- the statements the RML-star generation rules prescribe for a document, quoting followed to depth `d` -/
def evalDoc (env : SEnv) (doc : SDoc) (d : Nat) : List Str :=
  (doc.tms.filter (·.asserted)).flatMap fun tm => (env.tableS tm).flatMap fun ρ => stmtsOf env doc d tm ρ

/-! ### the same rules on a *flat* document: one (subject, predicate, object, graph) combination per rule

A flat rule is what a triples map with a single class or a single predicate-object pair and a single graph map is; a
quoted position names ONE flat rule.  `Props.C13` relates the engine to this reading rule by rule; quoting a triples
map amounts to quoting each of its flat rules (`combos`). -/

structure FlatRule where
  id : Str
  asserted : Bool := true
  sourceName : Str
  lsv : Str
  subject : Pos
  pred : TermMap
  object : Pos
  graph : TermMap
  deriving Repr, DecidableEq, Inhabited

def findFlat (frs : List FlatRule) (id : Str) : Option FlatRule := frs.find? (fun f => f.id = id)

def _root_.Spec.SEnv.tableF (env : SEnv) (fr : FlatRule) : Table :=
  match env.tables.find? (fun p => p.1 = (fr.sourceName, fr.lsv)) with
  | some p => p.2
  | none => []

def flatPaired (env : SEnv) (conds : List (Str × Str)) (ρ : Row) (q : FlatRule) : List Row :=
  if conds.isEmpty then [ρ] else joinRows env.na conds ρ (env.tableF q)

/-- the triples `s p o` a flat rule generates for a row, quoting followed to depth `d` -/
def flatTriples (env : SEnv) (frs : List FlatRule) : Nat → FlatRule → Row → List Str
  | 0, _, _ => []
  | d + 1, fr, ρ =>
    let pos : Pos → List Str := fun p =>
      match p with
      | .term t => (genTerm env.safe env.na t ρ).toList
      | .quoted id conds =>
        match findFlat frs id with
        | none => []
        | some q => (flatPaired env conds ρ q).flatMap fun ρ' => (flatTriples env frs d q ρ').map quote
    if (graphTerms env [fr.graph] ρ).isEmpty then [] else
    (pos fr.subject).flatMap fun s =>
      (genTerm env.safe env.na fr.pred ρ).toList.flatMap fun p =>
        (pos fr.object).map fun o => renderTriple s p o

/-- the terms of a position of a flat rule for a row -/
def flatPos (env : SEnv) (frs : List FlatRule) (d : Nat) (ρ : Row) : Pos → List Str
  | .term t => (genTerm env.safe env.na t ρ).toList
  | .quoted id conds =>
    match findFlat frs id with
    | none => []
    | some q => (flatPaired env conds ρ q).flatMap fun ρ' => (flatTriples env frs d q ρ').map quote

/-- the statements a flat rule places at the top level for a row -/
def flatLines (env : SEnv) (frs : List FlatRule) (d : Nat) (fr : FlatRule) (ρ : Row) : List Str :=
  (flatPos env frs d ρ fr.subject).flatMap fun s =>
    (genTerm env.safe env.na fr.pred ρ).toList.flatMap fun p =>
      (flatPos env frs d ρ fr.object).flatMap fun o =>
        (graphTerms env [fr.graph] ρ).map fun g => renderStmt env.fmt s p o g

/-- the statements of a flat document -/
def evalFlat (env : SEnv) (frs : List FlatRule) (d : Nat) : List Str :=
  (frs.filter (·.asserted)).flatMap fun fr => (env.tableF fr).flatMap fun ρ => flatLines env frs d fr ρ

def posQuoted : Pos → Option (Str × List (Str × Str))
  | .term _ => none
  | .quoted id conds => some (id, conds)

/-- every quoted reference of the rule resolves, and to rules of depth at most `n - 1`: quoting depth at most `n` -/
def depthLe (frs : List FlatRule) : Nat → FlatRule → Bool
  | 0, fr => (posQuoted fr.subject).isNone && (posQuoted fr.object).isNone
  | n + 1, fr =>
    let ok : Pos → Bool := fun p =>
      match p with
      | .term _ => true
      | .quoted id _ => match findFlat frs id with | none => false | some q => depthLe frs n q
    ok fr.subject && ok fr.object

/-- no flat rule reaches itself through quoted references, and every reference resolves (decided with the number of
    rules as bound on the depth) -/
def AcyclicFlat (frs : List FlatRule) : Bool := frs.all fun fr => depthLe frs frs.length fr

/-- the triples maps a triples map quotes -/
def quotedIds (tm : STm) : List Str :=
  (match tm.subject with | .quoted id _ => [id] | .term _ => []) ++
  tm.poms.flatMap fun pom => pom.objects.flatMap fun o => match o with | .quoted id _ => [id] | .term _ => []

/-- quoting depth of a triples map, explored with fuel `n`; `none` = fuel exhausted (a quoting cycle, or a chain longer
    than `n`) -/
def depthOf (doc : SDoc) : Nat → Str → Option Nat
  | 0, _ => none
  | n + 1, id =>
    match doc.find id with
    | none => some 0
    | some tm =>
      (quotedIds tm).foldl (fun acc q =>
        match acc, depthOf doc n q with
        | some a, some b => some (max a (b + 1))
        | _, _ => none) (some 0)

/-- no triples map reaches itself through quoted-map references (RML-star requires it) -/
def AcyclicQuoting (doc : SDoc) : Bool :=
  doc.tms.all fun tm => (depthOf doc (doc.tms.length + 1) tm.id).isSome

end Spec.Star
