/-
Vocabularies a mapping document can be written in, and what each term means in the RML-Core vocabulary (`http://w3id.org/rml/`),
written from the specifications and NOT from morph-kgc's dictionaries:

  * R2RML Recommendation, appendix "Index of R2RML vocabulary terms" (every property, the classes and the four IRIs
    `rr:defaultGraph`, `rr:IRI`, `rr:BlankNode`, `rr:Literal`, `rr:SQL2008`).  RML-Core keeps the local names of R2RML, except that a
    logical table is a logical source, a column is a reference and an SQL query is a query.
  * legacy RML (`http://semweb.mmlab.be/ns/rml#`): the six terms it adds to R2RML, its RML-star terms, and the FNML terms
    (`http://semweb.mmlab.be/ns/fnml#`), with their RML-Core / RML-FNML / RML-star names.

`Role` says where a term can occur in a mapping graph: as a predicate, as an object, or at places no part of a processor has to read
(`rr:inverseExpression` is an optimisation hint; `rr:sqlVersion rr:SQL2008` is the only SQL version there is; the optional classes of
term maps and logical tables type nodes that are recognised by their properties).
-/
import MorphKgc.Py.Str

namespace Spec
open Py

inductive Role | pred | obj | unread
  deriving DecidableEq, Repr, Inhabited

structure VEntry where
  old : Str
  new : Str
  role : Role
  deriving DecidableEq, Repr, Inhabited

/-- `http://www.w3.org/ns/r2rml#` (written as a character list: cheap for the kernel) -/
def rrNs : Str :=
  ['h','t','t','p',':','/','/','w','w','w','.','w','3','.','o','r','g','/','n','s','/','r','2','r','m','l','#']
/-- `http://w3id.org/rml/` (written as a character list: cheap for the kernel) -/
def rmlNs : Str :=
  ['h','t','t','p',':','/','/','w','3','i','d','.','o','r','g','/','r','m','l','/']
/-- `http://semweb.mmlab.be/ns/rml#` (written as a character list: cheap for the kernel) -/
def rmlLegacyNs : Str :=
  ['h','t','t','p',':','/','/','s','e','m','w','e','b','.','m','m','l','a','b','.','b','e','/','n','s','/','r','m','l','#']
/-- `http://semweb.mmlab.be/ns/fnml#` (written as a character list: cheap for the kernel) -/
def fnmlLegacyNs : Str :=
  ['h','t','t','p',':','/','/','s','e','m','w','e','b','.','m','m','l','a','b','.','b','e','/','n','s','/','f','n','m','l','#']

private def same (ns : Str) (role : Role) (l : String) : VEntry := ⟨ns ++ l.toList, rmlNs ++ l.toList, role⟩
private def ren (ns : Str) (role : Role) (l l' : String) : VEntry := ⟨ns ++ l.toList, rmlNs ++ l'.toList, role⟩

/-- the R2RML vocabulary -/
def r2rmlVocabulary : List VEntry := [
  -- properties
  same rrNs .pred "child", same rrNs .pred "class", ren rrNs .pred "column" "reference", same rrNs .pred "datatype",
  same rrNs .pred "constant", same rrNs .pred "graph", same rrNs .pred "graphMap", same rrNs .unread "inverseExpression",
  same rrNs .pred "joinCondition", same rrNs .pred "language", ren rrNs .pred "logicalTable" "logicalSource",
  same rrNs .pred "object", same rrNs .pred "objectMap", same rrNs .pred "parent", same rrNs .pred "parentTriplesMap",
  same rrNs .pred "predicate", same rrNs .pred "predicateMap", same rrNs .pred "predicateObjectMap",
  ren rrNs .pred "sqlQuery" "query", same rrNs .unread "sqlVersion", same rrNs .pred "subject", same rrNs .pred "subjectMap",
  same rrNs .pred "tableName", same rrNs .pred "template", same rrNs .pred "termType",
  -- IRIs that occur as objects
  same rrNs .obj "defaultGraph", same rrNs .obj "IRI", same rrNs .obj "BlankNode", same rrNs .obj "Literal",
  same rrNs .unread "SQL2008", same rrNs .obj "TriplesMap",
  -- classes that only type nodes recognised by their properties
  same rrNs .unread "BaseTableOrView", same rrNs .unread "GraphMap", same rrNs .unread "Join", same rrNs .unread "LogicalTable",
  same rrNs .unread "ObjectMap", same rrNs .unread "PredicateMap", same rrNs .unread "PredicateObjectMap",
  same rrNs .unread "R2RMLView", same rrNs .unread "RefObjectMap", same rrNs .unread "SubjectMap", same rrNs .unread "TermMap"
]

/-- what legacy RML adds to R2RML -/
def legacyVocabulary : List VEntry := [
  same rmlLegacyNs .pred "logicalSource", same rmlLegacyNs .pred "source", same rmlLegacyNs .pred "iterator",
  same rmlLegacyNs .pred "referenceFormulation", same rmlLegacyNs .pred "reference", same rmlLegacyNs .pred "query",
  -- RML-star
  same rmlLegacyNs .pred "quotedTriplesMap", same rmlLegacyNs .pred "subjectMap", same rmlLegacyNs .pred "objectMap",
  -- FNML
  ren fnmlLegacyNs .pred "execution" "functionExecution", same fnmlLegacyNs .pred "input", same fnmlLegacyNs .pred "functionMap",
  same fnmlLegacyNs .pred "returnMap", same fnmlLegacyNs .pred "parameterMap", ren fnmlLegacyNs .pred "valueMap" "inputValueMap",
  same fnmlLegacyNs .pred "function", same fnmlLegacyNs .pred "return", same fnmlLegacyNs .pred "parameter",
  ren fnmlLegacyNs .pred "value" "inputValue"
]

/-- the term-map shortcuts of R2RML 7.2 / RML-Core (constant shortcut properties) and the property each abbreviates -/
def shortcuts : List (Str × Str) :=
  [("subject", "subjectMap"), ("predicate", "predicateMap"), ("object", "objectMap"), ("graph", "graphMap"),
   ("language", "languageMap"), ("datatype", "datatypeMap")].map fun p => (rmlNs ++ p.1.toList, rmlNs ++ p.2.toList)

/-- R2RML 7.4, default term type: literal for a column-valued object map and for an object map with a language tag or a datatype;
    IRI otherwise.  (A constant-valued term map has the term type of its constant.) -/
inductive Position | subject | predicate | object | graph
  deriving DecidableEq, Repr, Inhabited

end Spec
