/-
Specification side of C07: the relational inner equi-join, written as the nested loop of the definition
(SQL: `SELECT * FROM child, parent WHERE child.c1 = parent.p1 AND … AND child.cn = parent.pn`), independently of the
engine (no index, no `merge`, no prefixes, no de-duplication).  A comparison with a NULL is never true, so a row
with a NULL in a join column matches nothing.

The definition is generic in the row type: a row is anything that gives a value (`some v`) or NULL (`none`) for a
column name.  It is instantiated (a) with the raw logical rows of `Spec/Rules.lean` (`valueOf na`) and (b) with the
string rows the engine joins after `_preprocess_data` (`lookup`).
-/
import MorphKgc.Spec.Rules

namespace Spec
open Py Model

/-- one join condition `child.c = parent.p` under SQL three-valued logic: true only for two equal non-NULL values -/
def condHolds (cv pv : Str → Option Str) (cp : Str × Str) : Bool :=
  match cv cp.1, pv cp.2 with
  | some a, some b => a == b
  | _, _ => false

/-- all join conditions hold -/
def keysMatch (cv pv : Str → Option Str) (conds : List (Str × Str)) : Bool := conds.all (condHolds cv pv)

/-- **the inner equi-join**: every pair (child row, parent row) satisfying all conditions, with multiplicities,
    in nested-loop order -/
def innerJoin {α β} (cval : α → Str → Option Str) (pval : β → Str → Option Str) (conds : List (Str × Str))
    (child : List α) (parent : List β) : List (α × β) :=
  child.flatMap fun c => (parent.filter fun p => keysMatch (cval c) (pval p) conds).map fun p => (c, p)

/-- the join of two logical tables (cells that are NULL or an `na_values` token are NULL) -/
def joinTables (na : List Str) (conds : List (Str × Str)) (child parent : Table) : List (Row × Row) :=
  innerJoin (valueOf na) (valueOf na) conds child parent

/-- the statements a referencing object map prescribes (R2RML §11.1, "for each row of the joint query"):
    one per pair of the join and graph, provided every generated term is non-NULL -/
def refStmts (env : SEnv) (tm ptm : TriplesMap) (conds : List (Str × Str)) (gs : List TermMap) (p : TermMap) : List Str :=
  (joinTables env.na conds (env.table tm) (env.table ptm)).flatMap fun cp =>
    match genTerm env.safe env.na tm.subject cp.1, genTerm env.safe env.na p cp.1,
          genTerm env.safe env.na ptm.subject cp.2 with
    | some s, some pt, some o => (graphTerms env gs cp.1).map fun g => renderStmt env.fmt s pt o g
    | _, _, _ => []

end Spec
