import MorphKgc.Py.Str
import MorphKgc.Model.Rule
import MorphKgc.Model.SqlTypes
import MorphKgc.Model.Infer
import MorphKgc.Gen.SqlTypes
import MorphKgc.Spec.SqlTypes
import MorphKgc.Props.C20
