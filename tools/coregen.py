"""
Shared generators / renderers / adapters for the properties that exercise materialization end to end
(C01, C02, C03, C05, C06, C07, C08, C11, C12, C13):

  * abstract mapping documents of the core fragment (+ joins), rendered to R2RML Turtle
  * tables, written as CSV (and verified to read back unchanged through the engine's own reader call)
  * conversion of the real normalised rule table (`rml_df`) into the JSON rules of the Lean driver
  * running the real engine in-process
"""
import csv
import io
import json
import os

RML = 'http://w3id.org/rml/'
XSD = 'http://www.w3.org/2001/XMLSchema#'
RDF_TYPE = 'http://www.w3.org/1999/02/22-rdf-syntax-ns#type'

MAPTYPE = {RML + 'constant': 'constant', RML + 'template': 'template', RML + 'reference': 'reference',
           RML + 'functionExecution': 'execution', RML + 'quotedTriplesMap': 'quoted', RML + 'parentTriplesMap': 'parentTM'}
TERMTYPE = {RML + 'IRI': 'iri', RML + 'BlankNode': 'bnode', RML + 'Literal': 'literal', RML + 'RDFstarTriple': 'star'}


# ----------------------------------------------------------------------------------------------------
# strings
# ----------------------------------------------------------------------------------------------------

IRI_SAFE = 'abcdefghijklmnopqrstuvwxyzABCDEFGHIJKLMNOPQRSTUVWXYZ0123456789-._~/:#?=&'
NASTY = ['"', '\\', "'", '\n', '\r', '\t', '\b', '\f', ' ', '<', '>', '{', '}', '|', '^', '`', '%', '/', '#', '?', ':', '@',
         '\x00', '\x01', '\x1f', '\x7f', '\x85', '\xa0', 'é', 'ß', 'İ', 'ǆ', '​', ' ', '﻿', '퟿', '',
         '�', '\U0001F600', '\U0010FFFF', '中', 'я', '.', '0', '-', '+', 'e']


LONE = ['\r', '\n', '\t', '"', "'", '\\', '\b', '\f', '%', ' ', '<', '>', '{', '}', '^', '`', '|', '#', '?', '/', ':', '@', '&', '+', '=', ';', ',', '~', '.']
TOKENS = ['%41', '%2F', 'a%2Fb', '%C3%A9', '100%25', '%zz', '%4', '%%', 'x%20y', '\\n', '\\u0041', '\\"', '\\\\', '&lt;', '&#65;',
          '1.0', '10.0', '1e3', '+5', '-0', '1.', '.5', ' 7 ', '007', 'TRUE', 'False', '2020-01-01T00:00:00', '2020-01-01 00:00:00',
          'http://a/b', 'a b', 'a  b', ' a', 'a ', '_:b', '<x>', '"x"', '"x"@en', '^^', '{id}', '\\{', 'zzyy_xxww', '\r\n']


def rand_value(rng, kind='any', maxlen=8):
    """a cell value: `plain` (alnum), `any` (every code point class), `label` (blank-node-label safe).
    `any` also produces, with fixed small probabilities, (a) otherwise plain values with exactly ONE special character
    (changes that skip a transformation unless some other special character is present only show on these) and
    (b) values built around multi-character tokens (well-formed and ill-formed percent triplets, backslash sequences,
    numeric and boolean spellings, term-like text)."""
    n = rng.randrange(1, maxlen + 1) if kind != 'any' or rng.random() > 0.03 else 0
    if kind == 'plain' or kind == 'label':
        return ''.join(rng.choice('abcXYZ019') for _ in range(max(n, 1)))
    r0 = rng.random()
    if r0 < 0.10:
        base = [rng.choice('abcxyzAZ019') for _ in range(rng.randrange(0, maxlen))]
        base.insert(rng.randrange(0, len(base) + 1), rng.choice(LONE))
        return ''.join(base)
    if r0 < 0.20:
        pre = ''.join(rng.choice('abcAZ019-._~') for _ in range(rng.randrange(0, 3)))
        suf = ''.join(rng.choice('abcAZ019-._~') for _ in range(rng.randrange(0, 3)))
        return pre + rng.choice(TOKENS) + (rng.choice(TOKENS) if rng.random() < 0.2 else '') + suf
    out = []
    for _ in range(n):
        r = rng.random()
        if r < 0.45:
            out.append(rng.choice('abcxyzAZ019'))
        elif r < 0.9:
            out.append(rng.choice(NASTY))
        else:
            cp = rng.choice([rng.randrange(0x20, 0x7f), rng.randrange(0xa0, 0x2000), rng.randrange(0x10000, 0x10ffff)])
            if 0xD800 <= cp <= 0xDFFF:
                cp = 0x41
            out.append(chr(cp))
    return ''.join(out)


def turtle_str(s):
    out = ['"']
    for ch in s:
        o = ord(ch)
        if ch == '\\':
            out.append('\\\\')
        elif ch == '"':
            out.append('\\"')
        elif ch == '\n':
            out.append('\\n')
        elif ch == '\r':
            out.append('\\r')
        elif ch == '\t':
            out.append('\\t')
        elif o < 0x20 or o == 0x7f or 0x80 <= o < 0xa0 or o in (0x2028, 0x2029, 0xfeff, 0xfffe, 0xffff):
            out.append('\\u%04X' % o)
        elif o > 0xffff:
            out.append('\\U%08X' % o)
        else:
            out.append(ch)
    out.append('"')
    return ''.join(out)


# ----------------------------------------------------------------------------------------------------
# tables
# ----------------------------------------------------------------------------------------------------

def write_csv(path, columns, rows):
    """rows: list of dict col -> str. Returns True iff the engine's reader call gives the table back unchanged."""
    import pandas as pd
    with open(path, 'w', encoding='utf-8', newline='') as f:
        w = csv.writer(f, quoting=csv.QUOTE_ALL, lineterminator='\n')
        w.writerow(columns)
        for r in rows:
            w.writerow([r[c] for c in columns])
    try:
        df = pd.read_table(path, sep=',', index_col=False, encoding='utf-8', encoding_errors='strict', engine='c',
                           dtype=str, keep_default_na=False, na_filter=False)
    except Exception:
        return False
    if list(df.columns) != list(columns) or len(df) != len(rows):
        return False
    for i, r in enumerate(rows):
        for c in columns:
            if df.at[i, c] != r[c]:
                return False
    return True


def gen_table(rng, columns, nrows, value_kind='any', null_rate=0.15, na_tokens=('', 'nan')):
    rows = []
    for _ in range(nrows):
        r = {}
        for c in columns:
            if rng.random() < null_rate:
                r[c] = rng.choice(list(na_tokens))
            else:
                v = rand_value(rng, value_kind)
                r[c] = v
        rows.append(r)
    # duplicates and near-duplicates matter for set semantics
    if rows and rng.random() < 0.4:
        rows.append(dict(rng.choice(rows)))
    return rows


# ----------------------------------------------------------------------------------------------------
# abstract documents (core fragment) and their R2RML rendering
# ----------------------------------------------------------------------------------------------------

def esc_brace(s):
    return s.replace('{', '\\{').replace('}', '\\}')


def render_tpl(tpl):
    """concrete R2RML template syntax of an abstract template (Spec.Tpl.render)"""
    return esc_brace(tpl['pre']) + ''.join('{' + r + '}' + esc_brace(l) for r, l in tpl['parts'])


def gen_tpl(rng, columns, iri, nrefs=None, with_escapes=True):
    """an abstract template: literal prefix + (reference, following literal) pairs"""
    nrefs = rng.randrange(1, 4) if nrefs is None else nrefs
    pre = ('http://ex.org/' if iri else '') + rand_lit_segment(rng, iri, with_escapes)
    parts = []
    for i in range(nrefs):
        lit = rand_lit_segment(rng, iri, with_escapes) if (rng.random() < 0.7 or i < nrefs - 1) else ''
        parts.append([rng.choice(columns), lit])
    return {'pre': pre, 'parts': parts}


def tpl_map(tpl, termtype):
    return {'kind': 'template', 'tpl': tpl, 'value': render_tpl(tpl), 'termtype': termtype}


def gen_template(rng, columns, iri, nrefs=None, with_escapes=True):
    return render_tpl(gen_tpl(rng, columns, iri, nrefs, with_escapes))


def rand_lit_segment(rng, iri, with_escapes):
    n = rng.randrange(0, 4)
    alphabet = 'abz09-._~/:#' if iri else 'ab z09-._~/:#!?'
    s = ''.join(rng.choice(alphabet) for _ in range(n))
    if with_escapes and not iri and rng.random() < 0.15:
        s += rng.choice(['{', '}', '{x}', '}{'])
    return s


def gen_termmap(rng, columns, position, value_kind):
    """position in subject/predicate/object/graph. Returns dict(kind, value, termtype[, lang, datatype])."""
    r = rng.random()
    tm = {}
    if position == 'predicate':
        if r < 0.75:
            tm = {'kind': 'constant', 'value': 'http://ex.org/p/' + rng.choice('abcde')}
        elif r < 0.9:
            tm = tpl_map(gen_tpl(rng, columns, True, nrefs=1), 'iri')
        else:
            tm = tpl_map({'pre': 'http://ex.org/p' + rng.choice('ab') + '/', 'parts': [[rng.choice(columns), '']]}, 'iri')
        tm['termtype'] = 'iri'
    elif position == 'graph':
        if r < 0.5:
            tm = {'kind': 'constant', 'value': 'http://ex.org/g/' + rng.choice('abc')}
        elif r < 0.6:
            tm = {'kind': 'constant', 'value': 'DEFAULT'}
        elif r < 0.85:
            tm = tpl_map(gen_tpl(rng, columns, True, nrefs=1), 'iri')
        else:
            tm = {'kind': 'reference', 'value': rng.choice(columns)}
        tm['termtype'] = 'iri'
    elif position == 'subject':
        if r < 0.7:
            tm = tpl_map(gen_tpl(rng, columns, True), 'iri')
        elif r < 0.8:
            tm = tpl_map({'pre': 'b', 'parts': [[rng.choice(columns), '']]}, 'bnode')
        elif r < 0.9:
            tm = {'kind': 'constant', 'value': 'http://ex.org/s/' + rng.choice('abc'), 'termtype': 'iri'}
        else:
            tm = {'kind': 'reference', 'value': rng.choice(columns), 'termtype': 'iri'}
    else:  # object
        if r < 0.3:
            tm = {'kind': 'reference', 'value': rng.choice(columns), 'termtype': 'literal'}
        elif r < 0.45:
            tm = tpl_map(gen_tpl(rng, columns, False), 'literal')
        elif r < 0.65:
            tm = tpl_map(gen_tpl(rng, columns, True), 'iri')
        elif r < 0.75:
            tm = {'kind': 'constant', 'value': 'http://ex.org/o/' + rng.choice('abc'), 'termtype': 'iri'}
        elif r < 0.85:
            tm = {'kind': 'constant', 'value': rng.choice(['lit', 'a b', 'x-1', '42']), 'termtype': 'literal'}
        elif r < 0.92:
            tm = tpl_map({'pre': 'n', 'parts': [[rng.choice(columns), '']]}, 'bnode')
        else:
            tm = {'kind': 'reference', 'value': rng.choice(columns), 'termtype': 'iri'}
        if tm['termtype'] == 'literal':
            q = rng.random()
            if q < 0.2:
                tm['lang'] = rng.choice(['en', 'es', 'en-GB'])
            elif q < 0.4:
                tm['datatype'] = XSD + rng.choice(['string', 'token', 'decimal', 'date', 'anyURI'])
    return tm


def gen_doc(rng, sources, max_tms=3, max_poms=3, value_kind='any', graphs=True, classes=True):
    """sources: list of (path, columns). Returns the abstract document (dict)."""
    tms = []
    for i in range(rng.randrange(1, max_tms + 1)):
        path, columns = rng.choice(sources)
        sm = gen_termmap(rng, columns, 'subject', value_kind)
        sm['classes'] = ['http://ex.org/C' + rng.choice('123') for _ in range(rng.randrange(0, 3))] if classes and rng.random() < 0.5 else []
        sm['graphs'] = [gen_termmap(rng, columns, 'graph', value_kind) for _ in range(rng.randrange(1, 3))] if graphs and rng.random() < 0.3 else []
        poms = []
        for _ in range(rng.randrange(0 if sm['classes'] else 1, max_poms + 1)):
            poms.append({
                'predicates': [gen_termmap(rng, columns, 'predicate', value_kind) for _ in range(1 if rng.random() < 0.8 else 2)],
                'objects': [gen_termmap(rng, columns, 'object', value_kind) for _ in range(1 if rng.random() < 0.8 else 2)],
                'graphs': [gen_termmap(rng, columns, 'graph', value_kind) for _ in range(rng.randrange(1, 3))] if graphs and rng.random() < 0.3 else [],
            })
        tms.append({'id': f'http://ex.org/tm/TM{i}', 'source': path, 'subject': sm, 'poms': poms})
    return {'tms': tms}


R2RML_PREFIX = ('@prefix rr: <http://www.w3.org/ns/r2rml#> .\n@prefix rml: <http://semweb.mmlab.be/ns/rml#> .\n'
                '@prefix ql: <http://semweb.mmlab.be/ns/ql#> .\n@prefix xsd: <http://www.w3.org/2001/XMLSchema#> .\n')

TT = {'iri': 'rr:IRI', 'bnode': 'rr:BlankNode', 'literal': 'rr:Literal'}


def render_termmap(tm, position, explicit_termtype=True):
    """R2RML/legacy-RML spelling used by most of the repository's tests: rr: vocabulary + rml:reference"""
    ps = []
    if tm['kind'] == 'constant':
        if tm['value'] == 'DEFAULT':
            ps.append('rr:constant rr:defaultGraph')
        elif tm.get('termtype') == 'literal':
            ps.append('rr:constant ' + turtle_str(tm['value']))
        else:
            ps.append(f'rr:constant <{tm["value"]}>')
    elif tm['kind'] == 'template':
        ps.append('rr:template ' + turtle_str(tm['value']))
    else:
        ps.append('rml:reference ' + turtle_str(tm['value']))
    if explicit_termtype and tm.get('termtype') and not (tm['kind'] == 'constant'):
        ps.append('rr:termType ' + TT[tm['termtype']])
    if tm.get('lang'):
        ps.append('rr:language ' + turtle_str(tm['lang']))
    if tm.get('datatype'):
        ps.append(f'rr:datatype <{tm["datatype"]}>')
    return '[ ' + ' ; '.join(ps) + ' ]'


def render_doc(doc, fmt='csv'):
    out = [R2RML_PREFIX]
    for tm in doc['tms']:
        lines = [f'<{tm["id"]}> a rr:TriplesMap ;']
        lines.append(f'  rml:logicalSource [ rml:source {turtle_str(tm["source"])} ; rml:referenceFormulation ql:CSV ] ;')
        sm = tm['subject']
        sparts = [render_termmap(sm, 'subject')[2:-2]]
        for c in sm.get('classes', []):
            sparts.append(f'rr:class <{c}>')
        for g in sm.get('graphs', []):
            sparts.append('rr:graphMap ' + render_termmap(g, 'graph'))
        lines.append('  rr:subjectMap [ ' + ' ; '.join(sparts) + ' ]' + (' ;' if tm['poms'] else ' .'))
        for k, pom in enumerate(tm['poms']):
            pp = []
            for p in pom['predicates']:
                pp.append('rr:predicateMap ' + render_termmap(p, 'predicate'))
            for o in pom['objects']:
                if o.get('parent'):
                    js = ' ; '.join(f'rr:joinCondition [ rr:child {turtle_str(c)} ; rr:parent {turtle_str(p)} ]' for c, p in o['join'])
                    pp.append(f'rr:objectMap [ rr:parentTriplesMap <{o["parent"]}>' + (' ; ' + js if js else '') + ' ]')
                else:
                    pp.append('rr:objectMap ' + render_termmap(o, 'object'))
            for g in pom.get('graphs', []):
                pp.append('rr:graphMap ' + render_termmap(g, 'graph'))
            lines.append('  rr:predicateObjectMap [ ' + ' ; '.join(pp) + ' ]' + (' ;' if k < len(tm['poms']) - 1 else ' .'))
        out.append('\n'.join(lines))
    return '\n\n'.join(out) + '\n'


# ----------------------------------------------------------------------------------------------------
# the real engine
# ----------------------------------------------------------------------------------------------------

def config_text(mapping_path, fmt='N-TRIPLES', partitioning=None, extra='', section='DS', nproc=1, na=None, safe=None,
                only_printable=None):
    c = ['[CONFIGURATION]', f'output_format={fmt}', f'number_of_processes={nproc}', 'logging_level=CRITICAL']
    if partitioning is not None:
        c.append(f'mapping_partitioning={partitioning}')
    if na is not None:
        c.append(f'na_values={na}')
    if safe is not None:
        c.append(f'safe_percent_encoding={safe}')
    if only_printable is not None:
        c.append(f'only_printable_chars={only_printable}')
    c.append(extra)
    c += [f'[{section}]', f'mappings={mapping_path}']
    return '\n'.join(x for x in c if x) + '\n'


LAST_RULES = {}


def _install_capture():
    """stash the rule table that materialize_set computes (saves a second parse for the I6/I7 correspondences)"""
    import morph_kgc
    if getattr(morph_kgc, '_verif_capture', False):
        return
    orig = morph_kgc.retrieve_mappings

    def wrapper(config):
        rml_df, fnml_df = orig(config)
        LAST_RULES['rml_df'] = rml_df.copy()
        LAST_RULES['fnml_df'] = fnml_df.copy()
        return rml_df, fnml_df
    morph_kgc.retrieve_mappings = wrapper
    morph_kgc._verif_capture = True


def run_engine(cfg_text, python_source=None):
    """materialize_set -> ('ok', sorted list) | ('exc', ExceptionClassName: message)"""
    import morph_kgc
    _install_capture()
    LAST_RULES.clear()
    try:
        res = morph_kgc.materialize_set(cfg_text, python_source)
        bad = [x for x in res if not isinstance(x, str)]
        if bad:
            return 'nonstr', sorted(str(x) for x in res)
        return 'ok', sorted(res)
    except Exception as e:  # noqa
        return 'exc', f'{type(e).__name__}: {str(e)[:200]}'


def real_rules(cfg_text):
    """the normalised rule table of the real parser"""
    from morph_kgc.args_parser import load_config_from_argument
    from morph_kgc.mapping.mapping_parser import retrieve_mappings
    config = load_config_from_argument(cfg_text)
    rml_df, fnml_df = retrieve_mappings(config)
    return rml_df, fnml_df, config


def rules_to_json(rml_df):
    """rml_df rows -> the JSON rules understood by `Drv.parseRule`"""
    import pandas as pd
    out = []
    for _, r in rml_df.iterrows():
        def g(k):
            v = r.get(k)
            return None if v is None or (isinstance(v, float) and pd.isna(v)) or v is pd.NA else str(v)
        j = {
            'source_name': g('source_name') or '', 'triples_map_id': g('triples_map_id') or '',
            'asserted': g('triples_map_type') == RML + 'TriplesMap',
            'source_type': 'rdb' if g('source_type') == 'RDB' else ('memory' if g('source_type') in ('PYTHON_SOURCE',) else 'file'),
            'logical_source_value': g('logical_source_value') or '',
            'mapping_partition': g('mapping_partition') or '',
        }
        lst = g('logical_source_type')
        if lst:
            j['logical_source_type'] = {RML + 'source': 'source', RML + 'tableName': 'tableName', RML + 'query': 'query'}.get(lst, 'source')
        if g('iterator') is not None:
            j['iterator'] = g('iterator')
        for pos in ('subject', 'predicate', 'object', 'graph'):
            mt = g(f'{pos}_map_type')
            if mt is not None:
                j[f'{pos}_map_type'] = MAPTYPE.get(mt, 'constant')
            j[f'{pos}_map_value'] = g(f'{pos}_map_value') or ''
        for pos in ('subject', 'object'):
            tt = g(f'{pos}_termtype')
            if tt is not None:
                j[f'{pos}_termtype'] = TERMTYPE.get(tt.strip(), 'iri')
            jc = g(f'{pos}_join_conditions')
            if jc:
                d = eval(jc)
                j[f'{pos}_join'] = [[v['child_value'], v['parent_value']] for v in d.values()]
        ld = g('lang_datatype')
        if ld is not None:
            j['lang_datatype'] = {RML + 'languageMap': 'languageMap', RML + 'datatypeMap': 'datatypeMap'}[ld]
            j['lang_datatype_map_type'] = MAPTYPE[g('lang_datatype_map_type')]
        j['lang_datatype_map_value'] = g('lang_datatype_map_value') or ''
        out.append(j)
    return out


def table_json(source_name, lsv, rows):
    return {'source_name': source_name, 'lsv': lsv, 'rows': [{k: v for k, v in r.items()} for r in rows]}


def nonprintable_of(strings):
    s = set()
    for x in strings:
        for ch in x:
            if not ch.isprintable():
                s.add(ch)
    return ''.join(sorted(s))


def doc_for_driver(doc, source_name='DS'):
    """the abstract document as the Lean driver expects it (default graph by IRI, source section name)"""
    d = json.loads(json.dumps(doc))
    def fix(tm):
        if tm.get('kind') == 'constant' and tm.get('value') == 'DEFAULT':
            tm['value'] = RML + 'defaultGraph'
    for tm in d['tms']:
        tm.setdefault('source_name', source_name)
        for g in tm['subject'].get('graphs', []):
            fix(g)
        for pom in tm['poms']:
            for g in pom.get('graphs', []):
                fix(g)
    return d
