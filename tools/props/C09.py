"""C09 — the surface syntax of a mapping never changes its meaning."""
import json
import os
import sqlite3

import coregen as cg
import corecases as cc
import surfgen as sg

PROP = 'C09'
LEAN_TARGETS = ['MorphKgc.Props.C09', 'MorphKgc.Props.C09Now']
GEN_KEYS = ['surface']
M = 'MorphKgc.Props.C09'
THEOREMS = [{'name': f'Props.C09.{n}', 'module': M} for n in [
    'C09_vocab_total', 'C09_vocab_fixpoint', 'C09_vocab_idempotent', 'rawRules_eq', 'C09_order_irrelevant',
    'C09_order_class_before_graphs_matters', 'C09_order_shortcuts_before_graphs_matters', 'C09_order_class_before_typing_matters',
    'C09_order_vocabulary_first_matters', 'C09_order_shortcuts_before_termtypes_matters', 'C09_vocab', 'C09_shortcut', 'C09_class', 'C09_subjGraph', "C09_subjGraph'", 'C09_pomFactor_partial', 'C09_pomFactor_spec', 'C09_F3_referencing_object_map_dropped',
    'C09_perm_tms', 'C09_perm_poms', 'coherent_normalizeSurface', 'C09_eval_resp', 'C09_spelling_invariance', 'C09_all_respellings',
    'C09_termtype_default', 'C09_termtype_explicit_default', 'C09_delim_reference', 'C09_delim_plain', 'C09_yarrrml_template', 'C09_yarrrml_template_partial',
    'C09_yarrrml_reference', 'C09_yarrrml_term_partial',
    'C09_F1_trailing_text_taken_for_reference', 'C09_F1_spec', 'C09_F2_literal_braces_become_references', 'C09_F2_spec']] + [
    {'name': f'Model.{n}', 'module': 'MorphKgc.Lemmas.VocabTables'} for n in [
        'r2rmlStepOK_holds', 'legacyStepOK_holds', 'rewrittenUnderstood_holds', 'shortcutTableOK_holds', 'shortcutTableMatchesSpec_holds',
        'orderOK_holds', 'surfaceTranslated']] + [
    {'name': 'Model.runNormSteps_accepted', 'module': 'MorphKgc.Lemmas.Surface'},
    {'name': 'Model.acceptedOrders_complete', 'module': 'MorphKgc.Lemmas.Surface'},
    {'name': 'Model.rows_splitPoms', 'module': 'MorphKgc.Lemmas.SurfaceSplit'},
    {'name': 'Model.evalAll_resp', 'module': 'MorphKgc.Lemmas.SurfaceEval'},
    {'name': 'Model.post_resp', 'module': 'MorphKgc.Lemmas.SurfaceEval'}]
# hypothesis-free theorems of the repaired shapes the translator reads from /repo now (Props/C09Now.lean)
THEOREMS += [{'name': f'Props.C09.{n}', 'module': 'MorphKgc.Props.C09Now'} for n in ['C09_current_yarrrml_shapes', 'C09_yarrrml_template_current', 'C09_yarrrml_term_current', 'C09_current_object_delivery', 'C09_pomFactor_current']]
LINKS = [{'target': 'MorphKgc.Props.C09Link', 'needs': ['MorphKgc.Props.C01'], 'theorems': [{'name': f'Props.C09Link.{n}', 'module': 'MorphKgc.Props.C09Link'} for n in ['C09_link_set', 'C09_link_list', 'C09_writeDefaults', 'respelling_rawRules', 'respelling_all', 'C09_C01_end_to_end_partial', 'C09_C01_all_respellings_partial', 'names_agree']]}]
RULE = ('ONE abstract document (core fragment + referencing object maps; 1-3 triples maps, 0-3 predicate-object maps with 1-2 predicate / '
        'object / graph maps, classes, subject graph maps, rr:defaultGraph, language tags, datatypes incl. xsd:string) over CSV tables or the '
        'same tables in SQLite is rendered by tools/surfgen.py into 8-12 spellings per case: vocabulary R2RML (SQLite only) / RML / legacy RML '
        '/ YARRRML x shortcut|expanded x rr:class|rdf:type POM x subject graphs|POM graphs x multi-valued|split x term types written|defaulted '
        'x language/datatype shortcut|map x plain|delimited identifiers x triples maps IRI|blank node x typed|untyped x serialisation Turtle '
        '(nested|labelled, three prefix sets, @base) | N-Triples (shuffled, relabelled) | RDF/XML | N3 | JSON-LD x extension ttl|rml|nt|xml|rdf|'
        'n3|jsonld|yml|yaml|yarrrml x one|two mapping files; plus one deterministic document that uses every vocabulary term, swept through every '
        'single-feature spelling. Per spelling: direct oracle = materialize_set equals that of the first spelling (both output formats over '
        'the run); I6 = real rule table vs Model.normalizeSurface of the SDoc the spelling denotes; I7 = result vs Model.evalAll of it; plus '
        'function-level correspondences for the vocabulary rewrites (every term of Spec/Vocab.lean through the real _r2rml_to_rml / '
        '_rml_legacy_to_rml), yarrrml._template_to_rml / _add_template, the delimiter helpers. non-trivial = a spelling other than the base '
        'with a non-empty result and a data-dependent term; distinct = hash of (document, tables, spelling).')
TRUSTED_BASE = [
    'modelled, not verified: rdflib parsers (Turtle, N-Triples, RDF/XML, N3, JSON-LD) and SPARQL engine, ruamel.yaml; the part of yarrrml.py '
    'outside _template_to_rml / _add_template (key normalisation, prefix expansion, list expansion, graph moving) is covered by I6/I7 and the '
    'direct oracle only',
    'tools/surfgen.py: my reading of the R2RML, RML-Core, legacy RML and YARRRML documents (which spellings mean the same mapping)',
    'Spec/Vocab.lean: the vocabularies and their RML equivalents, written from the specifications',
    'Model.evalAll as a model of the materializer (C01: I7)',
]
ASSUMPTIONS = [
    'YARRRML spellings: term strings without `~` keep the short `~type` suffix, others use the long form; one join condition per referencing object; '
    'constant IRIs in predicate / graph position start with http or ftp (morph-kgc reads any other constant as a literal); TriG is not a graph '
    'serialisation (rdflib parses it into a dataset and the mapping graph stays empty)',
    'typed / language-tagged literal constants (`rr:object "5"^^xsd:integer`) are outside the fragment (the engine drops the datatype: C01 domain)',
]

RML = sg.RML


# ----------------------------------------------------------------------------------------------------
# cases
# ----------------------------------------------------------------------------------------------------

def add_joins(rng, case):
    """give some predicate-object maps a referencing object map (other triples map or the same one)"""
    tms = case.doc['tms']
    for tm in tms:
        for pom in tm['poms']:
            if rng.random() < 0.2:
                parent = rng.choice(tms)
                if parent['subject'].get('termtype') not in ('iri', 'bnode'):
                    continue
                ccols, pcols = case.columns[tm['source']], case.columns[parent['source']]
                # a referencing object map WITHOUT join condition is evaluated on the child's own rows (R2RML 8: the joint query is the
                # child query), which only means something when both maps have the same logical source: generated for `parent is tm`
                # only (two triples maps may get different logical tables over the same file in the SQL spellings)
                join = [[rng.choice(ccols), rng.choice(pcols)]] if (rng.random() < 0.8 or parent is not tm) else []
                if parent is tm and rng.random() < 0.5:
                    c = rng.choice(ccols)
                    join = [[c, c]]
                pom['objects'].append({'parent': parent['id'], 'join': join})


def make_sql(case, rng):
    """the tables of the case in a SQLite database; every triples map gets a logical table (`tableName` or `sqlQuery`)"""
    if any('\x00' in v for rows in case.tables.values() for r in rows for v in r.values()):
        return None
    if any('.' in c or '"' in c for cols in case.columns.values() for c in cols):
        return None
    db = os.path.join(case.dir, 'v.db')
    if os.path.exists(db):
        os.remove(db)
    con = sqlite3.connect(db)
    names = {}
    for k, (p, rows) in enumerate(case.tables.items()):
        names[p] = f't{k}'
        cols = case.columns[p]
        con.execute(f'CREATE TABLE t{k} (' + ', '.join(f'"{c}" TEXT' for c in cols) + ')')
        for r in rows:
            con.execute(f'INSERT INTO t{k} VALUES (' + ','.join('?' for _ in cols) + ')', [r[c] for c in cols])
    con.commit()
    con.close()
    doc = json.loads(json.dumps(case.doc))
    for tm in doc['tms']:
        t = names[tm['source']]
        tm['ls'] = list(rng.choice([('table', t), ('query', f'SELECT * FROM {t}')])) if not tm.get('ls') else tm['ls']
    return db, doc


def kitchen_sink(d):
    """a document that uses every construct (and, rendered in each vocabulary, every vocabulary term) at least once"""
    os.makedirs(d, exist_ok=True)
    p0, p1 = os.path.join(d, 't0.csv'), os.path.join(d, 't1.csv')
    cols0, cols1 = ['id', 'name', 'dept'], ['dept', 'label']
    rows0 = [{'id': '1', 'name': 'Ann "A"', 'dept': 'd1'}, {'id': '2', 'name': 'Bob', 'dept': 'd2'}, {'id': '3', 'name': '', 'dept': 'd1'}]
    rows1 = [{'dept': 'd1', 'label': 'Dev'}, {'dept': 'd2', 'label': 'Ops'}]
    assert cg.write_csv(p0, cols0, rows0) and cg.write_csv(p1, cols1, rows1)

    def tpl(pre, parts, tt):
        return cg.tpl_map({'pre': pre, 'parts': parts}, tt)

    def const(v, tt='iri'):
        return {'kind': 'constant', 'value': v, 'termtype': tt}
    tm0 = {'id': 'http://ex.org/tm/TM0', 'source': p0,
           'subject': dict(tpl('http://ex.org/emp/', [['id', '']], 'iri'), classes=['http://ex.org/C1'],
                           graphs=[tpl('http://ex.org/g/', [['dept', '']], 'iri')]),
           'poms': [
               {'predicates': [const('http://ex.org/p/name'), const('http://ex.org/p/label')],
                'objects': [{'kind': 'reference', 'value': 'name', 'termtype': 'literal', 'lang': 'en'},
                            dict(tpl('', [['name', ' of '], ['dept', '.']], 'literal'), lang='es'),
                            dict(tpl('#', [['id', '']], 'literal'), datatype=cg.XSD + 'token')], 'graphs': []},
               {'predicates': [const('http://ex.org/p/id')],
                'objects': [{'kind': 'reference', 'value': 'id', 'termtype': 'literal', 'datatype': cg.XSD + 'integer'},
                            {'kind': 'reference', 'value': 'id', 'termtype': 'literal', 'datatype': cg.XSD + 'string'}],
                'graphs': [const('DEFAULT'), const('http://ex.org/g/b')]},
               {'predicates': [const('http://ex.org/p/said')],
                'objects': [tpl('he said "', [['name', '" to "'], ['id', '"']], 'literal'), const('a b', 'literal'),
                            const('http://ex.org/o/x'), tpl('x', [['id', ''], ['dept', '']], 'literal')], 'graphs': []},
               {'predicates': [tpl('http://ex.org/p/', [['dept', '']], 'iri')],
                'objects': [tpl('http://ex.org/dept/', [['dept', '/'], ['id', '']], 'iri'), tpl('n', [['id', '']], 'bnode'),
                            {'kind': 'reference', 'value': 'dept', 'termtype': 'iri'}], 'graphs': [const('http://ex.org/g/c')]},
               {'predicates': [const('http://ex.org/p/dept')], 'objects': [{'parent': 'http://ex.org/tm/TM1', 'join': [['dept', 'dept']]}],
                'graphs': []},
           ]}
    tm1 = {'id': 'http://ex.org/tm/TM1', 'source': p1,
           'subject': dict(tpl('http://ex.org/dept/', [['dept', '']], 'iri'), classes=['http://ex.org/Dept'], graphs=[]),
           'poms': [{'predicates': [const('http://ex.org/p/label')], 'objects': [{'kind': 'reference', 'value': 'label', 'termtype': 'literal'}],
                     'graphs': []}]}
    tm2 = {'id': 'http://ex.org/tm/TM2', 'source': p1,
           'subject': dict(const('http://ex.org/s/org'), classes=[], graphs=[]),
           'poms': [{'predicates': [const('http://ex.org/p/has')], 'objects': [tpl('http://ex.org/dept/', [['dept', '']], 'iri')],
                     'graphs': [{'kind': 'reference', 'value': 'label', 'termtype': 'iri'}]}]}
    doc = {'tms': [tm0, tm1, tm2]}
    c = cc.Case(d, doc, {p0: rows0, p1: rows1}, {p0: cols0, p1: cols1})
    c.write_mapping()
    return c


ALL_ON = dict(shortcut=True, class_pom=True, graphs_on_poms=True, split=True, termtypes='implicit', delim=True)


def sweep_spellings(group, full, pick):
    """every single-feature deviation from the default spelling.  `full`: in every vocabulary of the group (thorough tier, or when
    something is broken); otherwise the base and the all-features-on spelling in every vocabulary and the single-feature sweep in one
    vocabulary (rotating with the seed: `pick`)"""
    out = []
    vocabs = (['r2rml'] if group == 'sql' else []) + ['rml', 'legacy', 'yarrrml']
    swept = vocabs if full else (['r2rml'] if group == 'sql' else [vocabs[pick % len(vocabs)]])
    for v in vocabs:
        base = dict(sg.DEFAULT_SPELLING, vocab=v)
        if v == 'yarrrml':
            base.update(ser='yarrrml', ext='yml')
        out.append(base)
        out.append(dict(base, **ALL_ON) if v != 'yarrrml' else dict(base, shortcut=True, split=True, termtypes='implicit', ext='yarrrml'))
        if v not in swept:
            continue
        for k in ('shortcut', 'class_pom', 'graphs_on_poms', 'split'):
            out.append(dict(base, **{k: True}))
        out.append(dict(base, termtypes='implicit'))
        out.append(dict(base, termtypes='implicit', shortcut=True))
        if v == 'yarrrml':
            out.append(dict(base, ext='yaml', graphs_on_poms=True, class_pom=True))
            continue
        out.append(dict(base, delim=True))
        if group == 'sql' and not full:
            continue        # document-level variants are swept in the CSV group
        out.append(dict(base, tm_bnode=True, typed=False))
        out.append(dict(base, nested=False, prefixes=1, base=True, shuffle=7))
        out.append(dict(base, prefixes=2, shuffle=11, ext='rml'))
        for ser, ext in (('nt', 'nt'), ('xml', 'xml'), ('xml', 'rdf'), ('n3', 'n3'), ('json-ld', 'jsonld')):
            out.append(dict(base, ser=ser, ext=ext, shuffle=13))
        out.append(dict(base, files=2))
        if v == 'rml':
            out.append(dict(base, langdt_expanded=True))
        if v == 'legacy' and group == 'sql':
            out.append(dict(base, legacy_table=True))
    return out


# ----------------------------------------------------------------------------------------------------
# scope predicates of the findings (the same definitions as the Lean counter-witnesses: Props/C09.lean `scopeF1`, `scopeF2`)
# ----------------------------------------------------------------------------------------------------

def templates_of(doc):
    for pos, tm, _ in cc.all_termmaps(doc):
        if tm.get('kind') == 'template' and tm.get('tpl'):
            yield pos, tm


def scope_f1(doc, kinds):
    """C09_F1: a YARRRML template that starts with its only reference and goes on with literal text (`$(x)/a`)"""
    if kinds.get('add') != 'startsCount':
        return False
    return any(tm['tpl']['pre'] == '' and len(tm['tpl']['parts']) == 1 and tm['tpl']['parts'][0][1] != '' for _, tm in templates_of(doc))


def scope_f2(doc, kinds):
    """C09_F2: a YARRRML template whose literal text contains a brace"""
    if kinds.get('template') != 'raw':
        return False
    return any(any(ch in seg for ch in '{}') for _, tm in templates_of(doc)
               for seg in [tm['tpl']['pre']] + [l for _, l in tm['tpl']['parts']])


def scope_f3(doc, sp, ref_sp, kinds):
    """C09_F3: a predicate-object map with both an object map and a referencing object map, written multi-valued in one of the two
    spellings and split in the other (YARRRML always splits lists of objects into independent mappings)"""
    if kinds.get('delivery', 'consecutiveOptionals') != 'consecutiveOptionals':
        return False
    mixed = any(any(o.get('parent') for o in pom['objects']) and any(not o.get('parent') for o in pom['objects'])
                for tm in doc['tms'] for pom in tm['poms'])
    is_split = lambda s: bool(s.get('split')) or s['vocab'] == 'yarrrml'
    return mixed and ref_sp is not None and is_split(sp) != is_split(ref_sp)


def y_single_ref_template(doc):
    """a template that consists of one reference only (`{x}`): YARRRML cannot tell it from a reference; the two differ in the IRI position
    (a template percent-encodes, a reference does not), so such a document has no YARRRML spelling"""
    return any(tm['tpl']['pre'] == '' and len(tm['tpl']['parts']) == 1 and tm['tpl']['parts'][0][1] == '' and tm.get('termtype') == 'iri'
               for _, tm in templates_of(doc))


def y_unsafe_text(doc):
    """literal text or names that YARRRML's own syntax reserves (`$(`, `)` in a name); not generated, checked for replayed inputs"""
    for _, tm in templates_of(doc):
        if any('$(' in seg for seg in [tm['tpl']['pre']] + [l for _, l in tm['tpl']['parts']]) or any(')' in r for r, _ in tm['tpl']['parts']):
            return True
    return False


def triage(doc, sp, kinds, ref_sp=None):
    if sp['vocab'] == 'yarrrml' and scope_f1(doc, kinds):
        return 'C09_F1'
    if sp['vocab'] == 'yarrrml' and scope_f2(doc, kinds):
        return 'C09_F2'
    if scope_f3(doc, sp, ref_sp, kinds):
        return 'C09_F3'
    return None


# ----------------------------------------------------------------------------------------------------
# one case
# ----------------------------------------------------------------------------------------------------

def write_spelling(case, doc, sp, group, tag, meaning=None):
    """render and write the mapping file(s); returns the `mappings=` value"""
    if sp.get('files') == 2 and sp['vocab'] != 'yarrrml' and len(doc['tms']) > 1 and not sp['tm_bnode']:
        # triples maps are IRIs, so the union of the graphs of the two files is the whole document (parents may live in the other file)
        marks = []
        triples = sg.to_triples(doc, sp, group, marks)
        paths = []
        for i, part in enumerate([triples[:marks[1]], triples[marks[1]:]]):
            text, ext = sg.serialise(part, sp)
            p = os.path.join(case.dir, f'm_{tag}_{i}.{ext}')
            with open(p, 'w', encoding='utf-8') as f:
                f.write(text)
            paths.append(p)
        return ','.join(paths)
    text, ext = sg.render(doc, sp, group, meaning)
    p = os.path.join(case.dir, f'm_{tag}.{ext}')
    with open(p, 'w', encoding='utf-8') as f:
        f.write(text)
    return p


def table_json(case, doc, group):
    if group == 'csv':
        return case.tables_json()
    out = []
    seen = set()
    for tm in doc['tms']:
        lsv = tm['ls'][1]
        if lsv not in seen:
            seen.add(lsv)
            out.append(cg.table_json('DS', lsv, case.tables[tm['source']]))
    return out


def canon(rules):
    out = cc.canon_rules(rules)
    return out


def run_spellings(ctx, drv, case, doc, group, db, spellings, fmt, kinds, label):
    """direct oracle (pairwise equality with the first spelling) + I6 + I7 for every spelling"""
    extra = f'db_url=sqlite:///{db}\n' if group == 'sql' else ''
    ref = None
    for k, sp in enumerate(spellings):
        if sp['vocab'] == 'yarrrml' and (sg.yarrrml_expressible(doc) or y_single_ref_template(doc) or y_unsafe_text(doc)):
            ctx.bump('yarrrml: document has no YARRRML spelling')
            continue
        meaning = [] if sp['vocab'] == 'yarrrml' else None
        mp = write_spelling(case, doc, sp, group, f'{label}{k}', meaning)
        kind, res = cg.run_engine(cg.config_text(mp, fmt=fmt) + extra)
        rules = cg.rules_to_json(cg.LAST_RULES['rml_df']) if 'rml_df' in cg.LAST_RULES else None
        inp = {'doc': doc, 'tables': {os.path.basename(p): r for p, r in case.tables.items()}, 'fmt': fmt, 'group': group,
               'columns': {os.path.basename(p): c for p, c in case.columns.items()}, 'spelling': sp,
               'reference_spelling': spellings[0]}
        dd = any(tm.get('kind') in ('template', 'reference') for _, tm, _ in cc.all_termmaps(doc))
        ctx.case([doc, inp['tables'], sp, fmt, group], nontrivial=(k > 0 and kind == 'ok' and bool(res) and dd),
                 kind=f"{group} {sp['vocab']} {sp['ser']}",
                 sample={'spelling': {a: b for a, b in sp.items() if b != sg.DEFAULT_SPELLING.get(a)}, 'fmt': fmt,
                         'lines': res[:2] if kind == 'ok' else res})
        ctx.traces_validated += 1
        fid = triage(doc, sp, kinds, ref[1] if ref else None)
        if ref is None:
            if kind != 'ok':
                ctx.violation(f'materialization of a legal mapping failed in the reference spelling: {res}', inp, finding=fid)
                return
            ref = (res, sp)
        elif kind != 'ok':
            ctx.violation(f"the spelling {short(sp)} of a mapping fails ({res}) while {short(ref[1])} gives {len(ref[0])} statements",
                          inp, finding=fid)
            continue
        elif res != ref[0]:
            missing = [x for x in ref[0] if x not in res][:3]
            extra_l = [x for x in res if x not in ref[0]][:3]
            ctx.violation(f'two spellings of one mapping give different results: {short(sp)} vs {short(ref[1])}: missing {missing!r}, '
                          f'extra {extra_l!r}', inp, finding=fid)
            continue
        if not drv or kind != 'ok' or fid in ('C09_F1', 'C09_F2'):
            continue
        # the surface document this spelling denotes
        if sp['vocab'] == 'yarrrml':
            sdoc = sg.sdoc_from_yarrrml(meaning, lambda t: drv.call('y_add_template', template=t))
        else:
            sdoc = sg.to_sdoc(doc, sp, group)
        for tm in sdoc['tms']:
            tm['source_name'] = 'DS'
        # I6: rule table
        nm = canon(drv.call('normalize_surface', sdoc=sdoc))
        rr = canon(rules) if rules is not None else None
        if rr is not None and nm != rr:
            ctx.disagree('I6 retrieve_mappings vs Model.normalizeSurface', inp, [x for x in nm if x not in rr][:3],
                         [x for x in rr if x not in nm][:3])
        # I7: result
        m = drv.call('surface_eval', sdoc=sdoc, tables=table_json(case, doc, group), fmt=fmt, safe='')
        mres = sorted(m['ok']) if 'ok' in m else m
        if mres != res:
            ctx.disagree('I7 materialize_set vs Model.evalAll(Model.normalizeSurface)', inp,
                         mres if not isinstance(mres, list) else [x for x in mres if x not in res][:3], [x for x in res if x not in mres][:3])


def short(sp):
    d = {a: b for a, b in sp.items() if b != sg.DEFAULT_SPELLING.get(a) and a not in ('shuffle',)}
    d['vocab'] = sp['vocab']
    return json.dumps(d, sort_keys=True)


# ----------------------------------------------------------------------------------------------------
# function-level correspondences
# ----------------------------------------------------------------------------------------------------

def vocabulary_correspondence(ctx, drv):
    """every term of Spec/Vocab.lean through the REAL `_r2rml_to_rml` + `_rml_legacy_to_rml` (on a one-triple graph) vs the model's
    rewrite chain; and the direct oracle of `C09_vocab_total`: a read term must arrive at the RML term the specification names"""
    import rdflib
    from morph_kgc.mapping import mapping_parser as mp
    for e in drv.call('spec_vocabulary'):
        g = rdflib.Graph()
        s, x = rdflib.URIRef('http://ex.org/s'), rdflib.URIRef('http://ex.org/x')
        if e['role'] == 'obj':
            g.add((s, rdflib.URIRef('http://ex.org/p'), rdflib.URIRef(e['old'])))
        else:
            g.add((s, rdflib.URIRef(e['old']), x))
        try:
            g = mp._rml_legacy_to_rml(mp._r2rml_to_rml(g))
            got = sorted(str(o if e['role'] == 'obj' else p) for _, p, o in g if e['role'] == 'obj' or o == x)
        except Exception as ex:  # noqa
            got = [f'{type(ex).__name__}']
        model = drv.call('rewrite_obj' if e['role'] == 'obj' else 'rewrite_pred', term=e['old'])
        ctx.case(['vocab', e['old']], nontrivial=True, kind='vocabulary term')
        if got != [model]:
            ctx.disagree('vocabulary rewrite of one term', e, model, got)
        if e['role'] != 'unread' and got != [e['new']]:
            ctx.violation(f"the {e['vocab']} term <{e['old']}> is not rewritten to <{e['new']}> (got {got}): documents using it are read differently "
                          f"from their RML spelling", {'vocabulary_term': e}, finding=None)


Y_SEGS = ['', 'http://ex.org/', 'a', ' b ', '/', '#x', '{', '}', '{k}', '\\', '$', '(', ')', '$()', '~', 'a)b']
Y_NAMES = ['x', 'id', 'b c', 'x_1', 'a.b', 'Ünï']


def yarrrml_function_correspondence(ctx, drv, rng, n):
    from morph_kgc.mapping import yarrrml as ym
    import rdflib
    cases = ['$(x)', '$(x)/a', 'a$(x)', '$(x)$(y)', 'a', 'http://ex.org/a', 'ftp://h/x', 'lit', '', '$(', '$(x', 'a$(x', '$(x)$(', 'x{y}$(z)$(w)',
             '$(a)-$(b)-$(c)', 'pre $(a) mid $(b) post', '$(x))', '()$(x)', '$$(x)', '$($(x))']
    for _ in range(n):
        parts = [rng.choice(Y_SEGS)]
        for _ in range(rng.randrange(0, 4)):
            parts.append('$(' + rng.choice(Y_NAMES) + ')')
            parts.append(rng.choice(Y_SEGS))
        cases.append(''.join(parts))
    for t in cases:
        try:
            real_t = ym._template_to_rml(t)
        except Exception as ex:  # noqa
            real_t = f'EXC {type(ex).__name__}'
        model_t = drv.call('y_template', template=t)
        ctx.case(['y_template', t], nontrivial=t.count('$(') >= 1, kind='yarrrml template')
        if real_t != model_t:
            ctx.disagree('yarrrml._template_to_rml', t, model_t, real_t)
        g = rdflib.Graph()
        b = rdflib.BNode()
        try:
            ym._add_template(g, b, t)
            (_, p, o), = list(g)
            p = str(p)
            if p == RML + 'reference':
                real_a = {'reference': str(o)}
            elif p == RML + 'template':
                real_a = {'template': str(o)}
            elif str(o) == sg.RDF_TYPE and t == 'a':
                real_a = {'rdftype': None}
            elif isinstance(o, rdflib.URIRef):
                real_a = {'iri': str(o)}
            else:
                real_a = {'literal': str(o)}
        except Exception as ex:  # noqa
            real_a = {'exc': type(ex).__name__}
        model_a = drv.call('y_add_template', template=t)
        if real_a != model_a:
            ctx.disagree('yarrrml._add_template', t, model_a, real_a)


def delimiter_correspondence(ctx, drv, rng, n):
    from morph_kgc.mapping import mapping_parser as mp
    cases = ['id', '"id"', '""', '"', '"a', 'a"', '"a"b"', 'http://ex.org/{"id"}', 'http://ex.org/{id}', '{"a"}-{"b"}', 'say "{id}"', '\\{"x"\\}{id}',
             '{"a b"}', '"}{"', '{""}']
    for _ in range(n):
        cases.append(''.join(rng.choice(['"', '{', '}', 'a', 'id', ' ', '\\', '{"', '"}']) for _ in range(rng.randrange(0, 7))))
    for s in cases:
        m = drv.call('undelim', s=s)
        real = {'ident': mp._get_undelimited_identifier(s), 'template': mp._get_valid_template_identifiers(s)}
        ctx.case(['undelim', s], nontrivial='"' in s, kind='delimiters')
        if m != real:
            ctx.disagree('_get_undelimited_identifier / _get_valid_template_identifiers', s, m, real)


# ----------------------------------------------------------------------------------------------------
# run
# ----------------------------------------------------------------------------------------------------

def gen_kinds(lean, drv):
    if drv:
        try:
            return drv.call('y_kinds')
        except Exception:  # noqa
            pass
    sh = (lean.get('gen', {}).get('surface', {}) or {}).get('shapes', {})
    return {'template': sh.get('_template_to_rml') or 'raw', 'add': sh.get('_add_template') or 'startsCount',
            'delivery': 'consecutiveOptionals'}


def run(ctx, lean, findings):
    rng = ctx.rng
    drv = ctx.get_driver() if ctx.model_available else None
    if not drv:
        ctx.notes.append('driver unavailable: only the direct oracle (pairwise equality of spellings) is exercised')
    kinds = gen_kinds(lean, drv)
    esc = 3 if ctx.escalate else 1
    if drv:
        vocabulary_correspondence(ctx, drv)
        yarrrml_function_correspondence(ctx, drv, rng, ctx.budget(150, 4000) * esc)
        delimiter_correspondence(ctx, drv, rng, ctx.budget(100, 3000) * esc)

    # the deterministic document, every single-feature spelling, both source kinds
    ks = kitchen_sink(os.path.join(ctx.tmp, 'ks'))
    fmt0 = 'N-QUADS'
    full = ctx.tier == 'thorough' or ctx.escalate
    run_spellings(ctx, drv, ks, ks.doc, 'csv', None, sweep_spellings('csv', full, ctx.seed), fmt0, kinds, 'c')
    sql = make_sql(ks, rng)
    if sql:
        run_spellings(ctx, drv, ks, sql[1], 'sql', sql[0], sweep_spellings('sql', full, ctx.seed + 1), fmt0, kinds, 's')

    # random documents x random spellings
    n = ctx.budget(8, 900) * esc
    cap = 55 if ctx.tier == 'quick' else 800
    for it in range(n):
        case = cc.make_case(rng, os.path.join(ctx.tmp, f'c{it}'))
        add_joins(rng, case)
        case.write_mapping()
        fmt = rng.choice(['N-TRIPLES', 'N-QUADS'])
        group = rng.choice(['csv', 'sql'])
        doc, db = case.doc, None
        if group == 'sql':
            sql = make_sql(case, rng)
            if not sql:
                group = 'csv'
            else:
                db, doc = sql
        vocabs = ['rml', 'legacy', 'yarrrml'] + (['r2rml'] if group == 'sql' else [])
        base = dict(sg.DEFAULT_SPELLING, vocab='r2rml' if group == 'sql' else 'rml')
        spellings = [base] + [sg.rand_spelling(rng, v) for v in vocabs] + [sg.rand_spelling(rng, rng.choice(vocabs)) for _ in range(ctx.budget(2, 5))]
        for sp in spellings[1:]:
            if rng.random() < 0.15:
                sp['files'] = 2
        run_spellings(ctx, drv, case, doc, group, db, spellings, fmt, kinds, 'r')
        if not ctx.escalate and ctx.elapsed() > cap and it >= 1:
            ctx.notes.append(f'time cap reached after {it + 1} random documents')
            break

    if sg.FALLBACKS:
        ctx.bump('serialiser output did not read back (N-Triples used instead)', len(sg.FALLBACKS))
    # recorded findings, minimal replays
    for f in findings:
        if f.get('property') == PROP and f.get('status') == 'open' and f.get('replay'):
            if replay_input(ctx, f['replay'], os.path.join(ctx.tmp, 'kf_' + f['id'])):
                ctx.known(f['id'], f['what'])
            else:
                ctx.notes.append(f'finding {f["id"]} no longer reproduces')


# ----------------------------------------------------------------------------------------------------
# replay
# ----------------------------------------------------------------------------------------------------

def replay_input(ctx, inp, d):
    """True iff the two spellings named in the input still give different results (or one of them fails)"""
    if 'vocabulary_term' in inp:
        import rdflib
        from morph_kgc.mapping import mapping_parser as mp
        e = inp['vocabulary_term']
        g = rdflib.Graph()
        x = rdflib.URIRef('http://ex.org/x')
        if e['role'] == 'obj':
            g.add((rdflib.URIRef('http://ex.org/s'), rdflib.URIRef('http://ex.org/p'), rdflib.URIRef(e['old'])))
        else:
            g.add((rdflib.URIRef('http://ex.org/s'), rdflib.URIRef(e['old']), x))
        g = mp._rml_legacy_to_rml(mp._r2rml_to_rml(g))
        got = sorted(str(o if e['role'] == 'obj' else p) for _, p, o in g if e['role'] == 'obj' or o == x)
        return got != [e['new']]
    from props.C01 import build_case
    case = build_case(d, {'doc': inp['doc'], 'tables': inp['tables'], 'columns': inp.get('columns', {})})
    doc, group, db = case.doc, inp.get('group', 'csv'), None
    if group == 'sql':
        for tm, tm0 in zip(doc['tms'], inp['doc']['tms']):
            tm['ls'] = tm0.get('ls')
        import random
        sql = make_sql(case, random.Random(0))
        if not sql:
            return False
        db, doc = sql
    extra = f'db_url=sqlite:///{db}\n' if group == 'sql' else ''
    out = []
    for k, sp in enumerate([inp.get('reference_spelling') or sg.DEFAULT_SPELLING, inp['spelling']]):
        mp = write_spelling(case, doc, dict(sg.DEFAULT_SPELLING, **sp), group, f'rp{k}')
        out.append(cg.run_engine(cg.config_text(mp, fmt=inp.get('fmt', 'N-TRIPLES')) + extra))
    return out[0][0] != 'ok' or out[1] != out[0]


def replay(ctx, data):
    return replay_input(ctx, data['input'], os.path.join(ctx.tmp, 'rp'))
