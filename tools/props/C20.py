"""C20 — inferred literal datatypes follow the R2RML natural mapping of SQL types."""
import os
import re
import sqlite3

PROP = 'C20'
LEAN_TARGETS = ['MorphKgc.Props.C20']
GEN_KEYS = ['sql_types']
M = 'MorphKgc.Props.C20'
THEOREMS = [{'name': f'Props.C20.{n}', 'module': M} for n in [
    'C20_table_self_consistent', 'C20_natural_mapping', 'C20_dbms_catalog_names', 'C20_character_types',
    'C20_parameters', 'C20_override_explicit', 'C20_inference_off', 'C20_only_reference_literals', 'C20_inferred',
    'C20_ref_loop_shape', 'C20_query_first_table_with_type']]
RULE = ('catalogue type names: every name of Spec.naturalMapping/dbmsCatalogNames/characterTypes x {as is, upper, lower} '
        'x {no parameters, generated parameter lists}, plus strings assembled from fragments of the table keys; '
        'each is looked up by the real _get_column_table_datatype (catalogue query stubbed) and by the Lean model; '
        'non-trivial = at least one table key is a substring of the upper-cased name; distinct = the name. '
        'End-to-end: materialize_set on SQLite with the catalogue answer stubbed, over rule shapes x inference on/off.')
TRUSTED_BASE = [
    'modelled, not verified: str.upper (ASCII only in the model), re.search with the two look-around classes, '
    'the catalogue queries themselves (information_schema / all_tab_columns / typeof) and sql_metadata table extraction',
    'Spec/SqlTypes.lean: reading of R2RML 10.2 and of the DBMS catalogue type names',
]
ASSUMPTIONS = ['only SQLite is available: other dialects are reached by stubbing the catalogue query result',
               'catalogue strings are ASCII']

XSD = 'http://www.w3.org/2001/XMLSchema#'


class PdShim:
    def __init__(self, pd, f):
        self._pd = pd
        self.read_sql_query = f

    def __getattr__(self, n):
        return getattr(self._pd, n)


def real_lookup(name):
    """`_get_column_table_datatype` with the connection and the catalogue query stubbed to answer `name`."""
    import pandas as pd
    from morph_kgc.data_source import relational_db as rdb
    saved = (rdb._relational_db_connection, rdb.pd)
    rdb._relational_db_connection = lambda config, source: (None, 'MYSQL')
    rdb.pd = PdShim(pd, lambda q, con=None, **kw: pd.DataFrame({'data_type': [name]}))
    try:
        return rdb._get_column_table_datatype(None, 'S', 'T', 'C')
    finally:
        rdb._relational_db_connection, rdb.pd = saved


def gen_args(rng):
    k = rng.random()
    if k < 0.3:
        return '(%d)' % rng.randrange(0, 10 ** rng.randrange(1, 12))
    if k < 0.6:
        return '(%d,%d)' % (rng.randrange(0, 99), rng.randrange(0, 99))
    if k < 0.8:
        return '(%d, %d) ' % (rng.randrange(0, 10 ** 6), rng.randrange(0, 99))
    return '(' + ''.join(rng.choice('0123456789, ') for _ in range(rng.randrange(0, 30))) + ')'


def e2e_case(ctx, catalogue, infer, use_query):
    """materialize_set on a SQLite table whose catalogue type answers are stubbed; returns set of lines."""
    import pandas as pd
    import morph_kgc
    from morph_kgc.data_source import relational_db as rdb
    d = os.path.join(ctx.tmp, 'e2e')
    os.makedirs(d, exist_ok=True)
    db = os.path.join(d, 'db.sqlite')
    if not os.path.exists(db):
        con = sqlite3.connect(db)
        con.execute('CREATE TABLE T (ID TEXT, A TEXT, B TEXT, C TEXT, D TEXT, E TEXT)')
        con.execute("INSERT INTO T VALUES ('1', '7', 'vb', 'vc', 'vd', 've')")
        con.commit()
        con.close()
    ls = '[ rr:sqlQuery "SELECT ID, A, B, C, D, E FROM T" ]' if use_query else '[ rr:tableName "T" ]'
    mp = os.path.join(d, f'm{int(use_query)}.ttl')
    with open(mp, 'w') as f:
        f.write(f'''@prefix rr: <http://www.w3.org/ns/r2rml#> .
@prefix ex: <http://ex/> .
@prefix xsd: <http://www.w3.org/2001/XMLSchema#> .
<http://ex/TM> a rr:TriplesMap; rr:logicalTable {ls};
  rr:subjectMap [ rr:template "http://ex/s/{{ID}}" ];
  rr:predicateObjectMap [ rr:predicate ex:plain ; rr:objectMap [ rr:column "A" ] ];
  rr:predicateObjectMap [ rr:predicate ex:typed ; rr:objectMap [ rr:column "B" ; rr:datatype xsd:token ] ];
  rr:predicateObjectMap [ rr:predicate ex:lang ; rr:objectMap [ rr:column "C" ; rr:language "en" ] ];
  rr:predicateObjectMap [ rr:predicate ex:tpl ; rr:objectMap [ rr:template "x{{D}}" ; rr:termType rr:Literal ] ];
  rr:predicateObjectMap [ rr:predicate ex:iri ; rr:objectMap [ rr:column "E" ; rr:termType rr:IRI ] ] .
''')
    real = pd.read_sql_query

    def fake(q, con=None, **kw):
        m = re.search(r"typeof\('([^']*)'\)", q)
        if m:
            return pd.DataFrame({'data_type': [catalogue.get(m.group(1), 'text')]})
        return real(q, con=con, **kw)
    saved = rdb.pd
    rdb.pd = PdShim(pd, fake)
    try:
        cfg = (f'[CONFIGURATION]\ninfer_sql_datatypes={"yes" if infer else "no"}\nnumber_of_processes=1\nlogging_level=CRITICAL\n'
               f'[DS]\nmappings={mp}\ndb_url=sqlite:///{db}\n')
        return morph_kgc.materialize_set(cfg)
    finally:
        rdb.pd = saved


def e2e_multi_case(ctx):
    """Two relational data source sections whose databases hold tables of the SAME names (T1, T2) with the same column names but
    different catalogue types, each mapped through an rr:sqlQuery that joins both tables, the typed columns living in the SECOND
    table of the query.  The catalogue is emulated per (database, table, column); a column a table does not have gives an empty
    catalogue answer, as information_schema does.  Every literal must get the natural-mapping datatype of ITS column in ITS source."""
    import pandas as pd
    import morph_kgc
    from morph_kgc.data_source import relational_db as rdb
    d = os.path.join(ctx.tmp, 'e2e_multi')
    os.makedirs(d, exist_ok=True)
    cat = {}
    cfg_sections = []
    want = set()
    types = {0: {('T1', 'A'): ('INTEGER', XSD + 'integer'), ('T2', 'B'): ('DATE', XSD + 'date'), ('T2', 'C'): ('double precision', XSD + 'double')},
             1: {('T1', 'A'): ('DOUBLE', XSD + 'double'), ('T2', 'B'): ('character varying', None), ('T2', 'C'): ('BOOLEAN', XSD + 'boolean')}}
    vals = {0: {'A': '7', 'B': '2020-01-01', 'C': '2.5'}, 1: {'A': '8', 'B': 'text', 'C': 'true'}}
    for k in (0, 1):
        db = os.path.join(d, f'db{k}.sqlite')
        if os.path.exists(db):
            os.remove(db)
        con = sqlite3.connect(db)
        con.execute('CREATE TABLE T1 (ID TEXT, A TEXT)')
        con.execute('CREATE TABLE T2 (ID2 TEXT, B TEXT, C TEXT)')
        con.execute("INSERT INTO T1 VALUES ('1', ?)", (vals[k]['A'],))
        con.execute("INSERT INTO T2 VALUES ('1', ?, ?)", (vals[k]['B'], vals[k]['C']))
        con.commit()
        con.close()
        for (t, c), (ty, _) in types[k].items():
            cat[(f'db{k}.sqlite', t, c)] = ty
        cat[(f'db{k}.sqlite', 'T1', 'ID')] = 'text'
        cat[(f'db{k}.sqlite', 'T2', 'ID2')] = 'text'
        mp = os.path.join(d, f'm{k}.ttl')
        with open(mp, 'w') as f:
            f.write(f'''@prefix rr: <http://www.w3.org/ns/r2rml#> .
@prefix ex: <http://ex/> .
<http://ex/TM{k}> a rr:TriplesMap; rr:logicalTable [ rr:sqlQuery "SELECT T1.ID, T1.A, T2.B, T2.C FROM T1 JOIN T2 ON T1.ID = T2.ID2" ];
  rr:subjectMap [ rr:template "http://ex/s{k}/{{ID}}" ];
  rr:predicateObjectMap [ rr:predicate ex:a{k} ; rr:objectMap [ rr:column "A" ] ];
  rr:predicateObjectMap [ rr:predicate ex:b{k} ; rr:objectMap [ rr:column "B" ] ];
  rr:predicateObjectMap [ rr:predicate ex:c{k} ; rr:objectMap [ rr:column "C" ] ] .
''')
        cfg_sections.append(f'[DS{k}]\nmappings={mp}\ndb_url=sqlite:///{db}\n')
        for col, (t, c) in (('a', ('T1', 'A')), ('b', ('T2', 'B')), ('c', ('T2', 'C'))):
            dt = types[k][(t, c)][1]
            want.add(f'<http://ex/s{k}/1> <http://ex/{col}{k}> "{vals[k][c]}"' + (f'^^<{dt}>' if dt else ''))
    real = pd.read_sql_query

    def fake(q, con=None, **kw):
        m = re.search(r"typeof\('([^']*)'\) as data_type FROM '([^']*)'", q)
        if m:
            dbname = os.path.basename(str(getattr(getattr(con, 'engine', con), 'url', '')))
            ty = cat.get((dbname, m.group(2), m.group(1)))
            return pd.DataFrame({'data_type': [ty] if ty is not None else []})
        return real(q, con=con, **kw)
    saved = rdb.pd
    rdb.pd = PdShim(pd, fake)
    try:
        cfg = '[CONFIGURATION]\ninfer_sql_datatypes=yes\nnumber_of_processes=1\nlogging_level=CRITICAL\n' + ''.join(cfg_sections)
        try:
            got = {t.strip() for t in morph_kgc.materialize_set(cfg)}
        except Exception as e:   # noqa: BLE001
            got = {f'{type(e).__name__}: {str(e)[:200]}'}
    finally:
        rdb.pd = saved
    inp = {'kind': 'multi', 'sources': 2, 'query': 'join of T1 and T2, typed columns in the second table'}
    ctx.case(inp, nontrivial=True, kind='e2e two sources, joined query', sample={'result': sorted(got)})
    ctx.traces_validated += 1
    if got != want:
        ctx.violation(f'datatypes of a joined query over two sources with same-named tables: missing {sorted(want - got)[:3]}, '
                      f'unexpected {sorted(got - want)[:3]}', {**inp, 'got': sorted(got), 'want': sorted(want)})
    return got != want


def run(ctx, lean, findings):
    rng = ctx.rng
    drv = ctx.get_driver() if ctx.model_available else None
    table = lean['gen'].get('sql_types', {}).get('table', [])
    keys = [k for k, _ in table]

    # the specification lists come from the Lean side (single source of truth)
    spec = []          # (name, expected or None)
    if drv:
        for name, exp in drv.call('c20_spec'):
            spec.append((name, exp))
    else:
        ctx.notes.append('driver unavailable: specification list reduced to the built-in fallback')
        spec = [('TIMESTAMP', XSD + 'dateTime'), ('DATETIME', XSD + 'dateTime'), ('INTERVAL', None), ('INTEGER', XSD + 'integer'),
                ('DOUBLE PRECISION', XSD + 'double'), ('DATE', XSD + 'date'), ('TIME', XSD + 'time'), ('VARCHAR', None),
                ('BOOLEAN', XSD + 'boolean'), ('timestamp without time zone', XSD + 'dateTime')]

    def both(name, expected=None, has_exp=False, kind='spec'):
        impl = real_lookup(name)
        nontriv = any(k in name.upper() for k in keys)
        ctx.case(name, nontrivial=nontriv, kind=kind, sample={'type': name, 'impl': impl, 'expected': expected if has_exp else '(model)'})
        if drv:
            mod = drv.call('sql_lookup', type=name)
            if mod != impl:
                ctx.disagree('I10 sql lookup', {'type': name}, mod, impl)
        if has_exp and impl != expected:
            ctx.violation(f'catalogue type {name!r} is given datatype {impl!r}, the natural mapping says {expected!r}',
                          {'type': name, 'expected': expected, 'got': impl})

    # (1) every specification name, in three letter cases, bare and with parameter lists
    nparams = ctx.budget(2, 12)
    for name, exp in spec:
        for variant in {name, name.upper(), name.lower()}:
            both(variant, exp, True)
            if '(' not in variant:
                for _ in range(nparams):
                    both(variant + gen_args(rng), exp, True, kind='spec+params')
    # (2) the engine's own table keys
    for k, v in table:
        both(k, v, True, kind='table-key')
        both(k.lower() + gen_args(rng), v, True, kind='table-key+params')
    # (3) model vs implementation on strings assembled from key fragments (no expectation)
    frag = [k[i:j] for k in keys for i in range(len(k)) for j in range(i + 1, len(k) + 1)] or ['INT']
    for _ in range(ctx.budget(400, 20000)):
        parts = []
        for _ in range(rng.randrange(1, 4)):
            r = rng.random()
            if r < 0.5:
                parts.append(rng.choice(keys or ['INT']))
            elif r < 0.8:
                parts.append(rng.choice(frag))
            else:
                parts.append(rng.choice(['_', ' ', '(', ')', '2', 'x', 'Z', '-', '8', 'é', 'ß']))
        s = ''.join(parts)
        if rng.random() < 0.3:
            s = s.lower()
        if any(ord(c) > 127 for c in s) and s.upper() != ''.join(c.upper() if ord(c) < 128 else c for c in s):
            ctx.bump('skipped: non-ASCII case mapping changes length')
            continue
        both(s, kind='fragments')

    # (5) two sources, joined query, per-(database, table, column) catalogue
    e2e_multi_case(ctx)

    # (4) end to end on SQLite with the catalogue answers stubbed
    cats = [('INTEGER', XSD + 'integer'), ('timestamp', XSD + 'dateTime'), ('varchar(20)', None), ('DOUBLE PRECISION', XSD + 'double'),
            ('boolean', XSD + 'boolean'), ('date', XSD + 'date')]
    rng.shuffle(cats)
    for cat, exp in cats[:ctx.budget(2, 6)]:
        for infer in (True, False):
            for use_query in (False, True):
                res = e2e_case(ctx, {c: cat for c in 'ABCDE'}, infer, use_query)
                suffix = f'^^<{exp}>' if (infer and exp) else ''
                want = {
                    f'<http://ex/s/1> <http://ex/plain> "7"{suffix}',
                    f'<http://ex/s/1> <http://ex/typed> "vb"^^<{XSD}token>',
                    '<http://ex/s/1> <http://ex/lang> "vc"@en',
                    '<http://ex/s/1> <http://ex/tpl> "xvd"',
                    '<http://ex/s/1> <http://ex/iri> <ve>',
                }
                got = {t.strip() for t in res}
                inp = {'catalogue_type': cat, 'infer': infer, 'query_source': use_query}
                ctx.case(inp, nontrivial=True, kind='e2e', sample={'input': inp, 'result': sorted(got)})
                ctx.traces_validated += 1
                if got != want:
                    ctx.violation(f'inference applied/omitted wrongly for {inp}: got {sorted(got ^ want)}', {**inp, 'got': sorted(got), 'want': sorted(want)})
                if drv:
                    # model of _infer_datatypes on the five rules
                    shapes = [('plain', 'reference', 'literal', None), ('typed', 'reference', 'literal', 'datatypeMap'),
                              ('lang', 'reference', 'literal', 'languageMap'), ('tpl', 'template', 'literal', None),
                              ('iri', 'reference', 'iri', None)]
                    for nm, omt, ott, ld in shapes:
                        rule = {'source_type': 'rdb', 'object_map_type': omt, 'object_termtype': ott, 'object_map_value': 'X'}
                        if ld:
                            rule['lang_datatype'] = ld
                            rule['lang_datatype_map_type'] = 'constant'
                            rule['lang_datatype_map_value'] = 'v'
                        out = drv.call('infer_rule', rule=rule, catalogue_type=cat, infer=infer)
                        model_dt = out['lang_datatype_map_value'] if (out['lang_datatype'] == 'datatypeMap' and not ld) else None
                        impl_dt = exp if (nm == 'plain' and f'"7"^^<{exp}>' in ' '.join(got)) else None
                        if nm == 'plain' and model_dt != (exp if infer else None):
                            ctx.disagree('I6 infer_datatypes', {**inp, 'rule': nm}, model_dt, impl_dt)
                        if nm != 'plain' and model_dt is not None:
                            ctx.disagree('I6 infer_datatypes', {**inp, 'rule': nm}, model_dt, None)


def replay(ctx, data):
    inp = data['input']
    if inp.get('kind') == 'multi':
        return e2e_multi_case(ctx)
    if 'type' in inp:
        return real_lookup(inp['type']) != inp.get('expected')
    res = {t.strip() for t in e2e_case(ctx, {c: inp['catalogue_type'] for c in 'ABCDE'}, inp['infer'], inp['query_source'])}
    return res != set(inp['want'])
