"""C01 — output equals the R2RML/RML generation rules for every mapping and table."""
import os
import re

import coregen as cg
import corecases as cc

PROP = 'C01'
LEAN_TARGETS = ['MorphKgc.Props.C01', 'MorphKgc.Props.CoreFuncs']
GEN_KEYS = ['escape', 'canon', 'core']
M = 'MorphKgc.Props.C01'
THEOREMS = [{'name': f'Props.C01.{n}', 'module': M} for n in [
    'C01_F1_escaped_literal_taken_for_reference', 'C01_F1_spec', 'C01_F3_constant_unescaped', 'C01_F3_constant_reference',
    'C01_F4_all_constant_rule_ignores_rows', 'C01_template_subst', 'C01_escape_chain', 'C01_rule_refinement',
    'C01_refinement_partial', 'C01_no_raise', 'C01_no_extra', 'C01_no_missing']] + [
    {'name': 'Model.materializeTemplate_eq_subst', 'module': 'MorphKgc.Lemmas.Template'},
    {'name': 'Model.refs_of_render', 'module': 'MorphKgc.Lemmas.Template'},
    {'name': 'Model.mem_evalRule_plain', 'module': 'MorphKgc.Lemmas.EvalRule'}]
# the model functions these theorems are about are EQUAL to the functions translated from /repo's source (Gen/CoreFuncs.lean)
THEOREMS += [{'name': f'Props.CoreFuncs.{n}', 'module': 'MorphKgc.Props.CoreFuncs'} for n in ['refs_eq', 'materialize_template_eq', 'translated_template_is_substitution', 'rowTriple_eq', 'refs_of_rule_eq', 'refs_of_rule_subject_eq']]
RULE = ('abstract documents of the core fragment (1-3 triples maps, 0-3 predicate-object maps with 1-2 predicate/object/graph maps, '
        'constant/template/reference term maps, IRI/blank-node/literal term types, language tags, datatypes, classes, escaped braces) x '
        'CSV tables of 0-5 rows over a Unicode alphabet with NA tokens; each case is evaluated by the real engine, by Model.evalAll on the '
        'REAL rule table (I7), by Model.normalizeDoc vs the real rule table (I6) and by Spec.evalDoc (oracle); 40% of the eligible cases are run a second time with '
        'every table loaded into SQLite (plus two unreferenced columns holding SQL NULLs) behind rr:sqlQuery / rr:tableName logical tables, '
        'against the same oracle. '
        'non-trivial = at least one data-dependent term map and one surviving row; distinct = hash of (document, tables).')
TRUSTED_BASE = [
    'modelled, not verified: rdflib Turtle parser and SPARQL engine behind RML_PARSING_QUERY (the normaliser model states what they must deliver; '
    'I6 compares), pandas read_table / replace / dropna / drop_duplicates, str methods as in Py/Str.lean',
    'Spec/Rules.lean: reading of R2RML 7, 11 and RML-core generation rules',
]
ASSUMPTIONS = ['CSV payloads that do not read back unchanged through pandas (C10 domain) are regenerated',
               'backslash-backslash unescaping of R2RML 7.3 is outside the stated fragment']


def nontrivial(case, res):
    dd = any(tm.get('kind') in ('template', 'reference') for _, tm, _ in cc.all_termmaps(case.doc))
    return dd and bool(res)


PLACEHOLDER = 'ZqZplaceholderZqZ'


def f4_explains(drv, case, fmt, sp, res):
    """C01_F4 (all-constant rule over an empty logical source, evaluated on a one-row placeholder frame): the difference is
    attributed to it only if nothing is missing and every extra statement is one the generation rules prescribe once each
    empty table is given a single placeholder row, and does not carry a value of that row (i.e. it is data-free)."""
    if not drv or not cc.scope_allconst_empty(case) or any(x not in res for x in sp):
        return False
    extra = [x for x in res if x not in sp]
    c2 = cc.Case(case.dir, case.doc, {p: (rows or [{c: PLACEHOLDER for c in case.columns[p]}]) for p, rows in case.tables.items()},
                 case.columns)
    sp2 = set(cc.spec(drv, c2, fmt=fmt))
    return all(x in sp2 and PLACEHOLDER not in x for x in extra)


def triage(case, drv=None, fmt=None, sp=None, res=None):
    if cc.scope_template_clash(case.doc):
        return 'C01_F1'
    if cc.scope_constant_braces(case.doc):
        return 'C01_F3'
    if sp is None:
        return 'C01_F4' if cc.scope_allconst_empty(case) else None
    if f4_explains(drv, case, fmt, sp, res):
        return 'C01_F4'
    return None


def one_case(ctx, drv, case, fmt):
    kind, res = cc.engine(case, fmt=fmt)
    inp = {'doc': case.doc, 'tables': {os.path.basename(p): r for p, r in case.tables.items()}, 'fmt': fmt,
           'columns': {os.path.basename(p): c for p, c in case.columns.items()}}
    ctx.case(case.key() + [fmt], nontrivial=(kind == 'ok' and nontrivial(case, res)), kind=f'e2e {fmt}',
             sample={'summary': case.summary(), 'fmt': fmt, 'lines': (res[:2] if kind == 'ok' else res)})
    ctx.traces_validated += 1
    if kind != 'ok':
        ctx.violation(f'materialization of a legal mapping failed: {res}', inp, finding=triage(case))
        return
    if drv:
        # I7: the materializer model on the real rule table
        (mk, mres), rules = cc.model_on_real_rules(drv, case, fmt=fmt, reuse=True)
        if mk != 'ok' or mres != res:
            ctx.disagree('I7 materialize_set vs Model.evalAll(real rules)', inp, mres if mk == 'ok' else str(mres)[:300], res)
        # I6: the normaliser model vs the real rule table
        nm = cc.canon_rules(cc.normalize_model(drv, case))
        rr = cc.canon_rules(rules)
        if nm != rr:
            ctx.disagree('I6 retrieve_mappings vs Model.normalizeDoc', inp, [x for x in nm if x not in rr][:3], [x for x in rr if x not in nm][:3])
        # oracle: the generation rules
        sp = cc.spec(drv, case, fmt=fmt)
        if sp != res:
            missing = [x for x in sp if x not in res][:3]
            extra = [x for x in res if x not in sp][:3]
            ctx.violation(f'result differs from the generation rules: missing {missing!r}, extra {extra!r}', inp,
                          finding=triage(case, drv, fmt, sp, res))
        elif ctx.rng.random() < 0.4:
            sql_variant(ctx, drv, case, fmt, sp, ctx.rng)


SIMPLE_ID = re.compile(r'^[A-Za-z_][A-Za-z0-9_]*$')


def sql_variant(ctx, drv, case, fmt, sp, rng, fixed_kinds=None):
    """The same document over a relational source: every table is loaded into a SQLite database (TEXT columns, plus two
    columns no rule references that hold SQL NULLs in some rows) and every logical source becomes `rr:sqlQuery` or
    `rr:tableName`.  The generation rules prescribe the same statements (`sp`); only the oracle is applied."""
    import sqlite3
    if any(not SIMPLE_ID.match(c) for cols in case.columns.values() for c in cols):
        return
    if any('\x00' in v for rows in case.tables.values() for r in rows for v in r.values()):
        return
    db = os.path.join(case.dir, 'v.db')
    con = sqlite3.connect(db)
    names = {}
    for k, (p, rows) in enumerate(case.tables.items()):
        names[p] = f't{k}'
        cols = case.columns[p]
        con.execute(f'CREATE TABLE t{k} (' + ', '.join(f'"{c}" TEXT' for c in cols) + ', "zz_extra" TEXT, "zz_num" INTEGER)')
        for i, r in enumerate(rows):
            con.execute(f'INSERT INTO t{k} VALUES (' + ','.join('?' for _ in range(len(cols) + 2)) + ')',
                        [r[c] for c in cols] + [None if i % 2 == 0 else 'x', None if i % 3 != 1 else 7])
    con.commit()
    con.close()
    text = cg.render_doc(case.doc)
    kinds = []
    for p, t in names.items():
        src = f'rml:logicalSource [ rml:source {cg.turtle_str(p)} ; rml:referenceFormulation ql:CSV ] ;'
        while src in text:
            kind = fixed_kinds[len(kinds)] if fixed_kinds else rng.choice(['query', 'query', 'table'])
            kinds.append(kind)
            text = text.replace(src, f'rr:logicalTable [ rr:sqlQuery "SELECT * FROM {t}" ] ;' if kind == 'query'
                                else f'rr:logicalTable [ rr:tableName "{t}" ] ;', 1)
    mp = os.path.join(case.dir, 'm_sql.ttl')
    with open(mp, 'w', encoding='utf-8') as f:
        f.write(text)
    kind, res = cg.run_engine(cg.config_text(mp, fmt=fmt, extra='') + f'db_url=sqlite:///{db}\n')
    inp = {'doc': case.doc, 'tables': {os.path.basename(p): r for p, r in case.tables.items()}, 'fmt': fmt,
           'columns': {os.path.basename(p): c for p, c in case.columns.items()}, 'sql': kinds}
    if fixed_kinds is not None:
        return kind != 'ok' or res != sp
    ctx.case(case.key() + [fmt, 'sql', kinds], nontrivial=(kind == 'ok' and bool(res)), kind=f'e2e sqlite {fmt}')
    ctx.traces_validated += 1
    if kind != 'ok':
        ctx.violation(f'materialization of a legal mapping over SQLite failed: {res}', inp, finding=triage(case))
    elif res != sp:
        missing = [x for x in sp if x not in res][:3]
        extra = [x for x in res if x not in sp][:3]
        ctx.violation(f'SQLite rendering of the source: result differs from the generation rules: missing {missing!r}, extra {extra!r}',
                      inp, finding=triage(case, drv, fmt, sp, res))


def run(ctx, lean, findings):
    rng = ctx.rng
    drv = ctx.get_driver() if ctx.model_available else None
    if not drv:
        ctx.notes.append('driver unavailable: only engine self-consistency is exercised')
    n = ctx.budget(70, 2500) * (3 if ctx.escalate else 1)
    for it in range(n):
        case = cc.make_case(rng, os.path.join(ctx.tmp, f'c{it}'))
        one_case(ctx, drv, case, rng.choice(['N-TRIPLES', 'N-QUADS']))
        if not ctx.escalate and ctx.elapsed() > (75 if ctx.tier == 'quick' else 780):
            ctx.notes.append(f'time cap reached after {it + 1} cases')
            break
    # recorded findings, minimal replays
    for f in findings:
        if f.get('property') == PROP and f.get('status') == 'open' and f.get('replay'):
            if replay_input(ctx, drv, f['replay'], os.path.join(ctx.tmp, 'kf_' + f['id'])):
                ctx.known(f['id'], f['what'])
            else:
                ctx.notes.append(f'finding {f["id"]} no longer reproduces')


def build_case(d, inp):
    os.makedirs(d, exist_ok=True)
    tables, columns = {}, {}
    ren = {}
    for name, rows in inp['tables'].items():
        p = os.path.join(d, name)
        cols = inp.get('columns', {}).get(name) or sorted({c for r in rows for c in r})
        cg.write_csv(p, cols, rows)
        tables[p] = rows
        columns[p] = cols
        ren[name] = p
    doc = {'tms': []}
    import json
    doc = json.loads(json.dumps(inp['doc']))
    for tm in doc['tms']:
        tm['source'] = ren.get(os.path.basename(tm['source']), tm['source'])
    c = cc.Case(d, doc, tables, columns)
    c.write_mapping()
    return c


def replay_input(ctx, drv, inp, d):
    """True iff the engine's result still differs from the generation rules (or the engine fails)"""
    case = build_case(d, inp)
    fmt = inp.get('fmt', 'N-TRIPLES')
    drv = drv or ctx.get_driver()
    if inp.get('sql'):
        return bool(sql_variant(ctx, drv, case, fmt, cc.spec(drv, case, fmt=fmt), None, fixed_kinds=inp['sql']))
    kind, res = cc.engine(case, fmt=fmt)
    if kind != 'ok':
        return True
    return cc.spec(drv, case, fmt=fmt) != res


def replay(ctx, data):
    return replay_input(ctx, None, data['input'], os.path.join(ctx.tmp, 'rp'))
