"""C16 — materialization is a pure function of configuration, mappings and data.

Two parts:
  * correspondence of the *mechanisms* of the Lean process model (`Model.Proc.callWith Gen.procShape`): after every call
    of a history the real interpreter's `sys.modules['udfs']`, the root logger and the caller's in-memory objects are
    compared with the model's `udfModule`, `logger` and `heap`;
  * the history oracle (direct, does not trust the model): seeded histories of 2-8 library calls in ONE interpreter, each
    result compared with the same call in a fresh interpreter; SHA-256 of every data/mapping/UDF/config file and deep
    copies of every in-memory source compared before/after each call; repeated identical calls compared.

The file is also the script run in the subprocesses: `python C16.py <job.json>` (no vlib import at module level).
"""
import hashlib
import json
import os
import pickle
import subprocess
import sys

PROP = 'C16'
LEAN_TARGETS = ['MorphKgc.Props.C16']
GEN_KEYS = ['proc']
M = 'MorphKgc.Props.C16'
THEOREMS = [{'name': f'Props.C16.{n}', 'module': M} for n in [
    'C16_shape_recognised', 'C16_state_listed', 'C16_result_indep', 'C16_inputs_unmodified_partial',
    'C16_F1_counter_witness', 'C16_inputs_unmodified', 'C16_history', 'C16_history_partial', 'C16_repeat']]
RULE = ('histories: seeded sequences of 2-8 calls of materialize_set in one interpreter, drawn from a pool of call '
        'descriptions (CSV/JSON files, DataFrame/dict/list/tuple/JSON-string sources, two UDF files defining the same '
        'function id differently + a built-in function, logging options, partition modes, output formats, 1 and 2 '
        'processes, na_values variants, config as string and as file, files rewritten by the caller between calls, a '
        'failing call). One case = one call inside a history; non-trivial = the call is preceded in its history by at least one '
        'other call (so state left behind could reach it; histories are built around ordered conflict pairs: same mapping with '
        'other na_values / UDF file / file_path / file contents, same frame in-process and in workers, exact repeats); '
        'distinct = (call id, ids of the preceding calls). Every call is compared with the same '
        'call in a fresh interpreter, with the model\'s mechanism state, and its inputs are compared before/after.')
TRUSTED_BASE = [
    'CPython module/import semantics: sys.modules is a plain dict, exec() into a new ModuleType shares nothing with earlier modules',
    'logging.basicConfig without force=True is first-call-wins (does nothing when the root logger has handlers)',
    'pandas copy semantics: DataFrame.copy() is deep, frame[list] and pd.DataFrame(list, columns=...) build new frames, '
    'multiprocessing workers receive pickled copies of python_source',
    'the abstract materialization logic F of Model/Proc.lean is a parameter: that the code between the modelled mechanisms '
    'reads no other process state is checked by the AST scan of tools/gen/C16.py (module-level containers mutated by '
    'functions, global statements, process-global API calls, mutable defaults, class-level containers) and by the history oracle',
]
ASSUMPTIONS = [
    'no uuid() execution and no blank-node constant minted while parsing (nondeterministic by construction): hypothesis `nondet = false`',
    'configured outputs (logging_file, write_parsed_mappings_path) are not input files of any call of the history',
    'global state the model does not list (pandas options, rdflib namespace/plugin caches, jsonpath/duckdb/sqlalchemy module '
    'state, user code executed by a UDF file) is covered only by the history oracle',
]

F1 = 'C16_F1'


# ----------------------------------------------------------------------------------------------------
# the pool (built inside every working directory: paths are absolute)
# ----------------------------------------------------------------------------------------------------

PREFIXES = '''@prefix rml: <http://w3id.org/rml/> .
@prefix ex: <http://ex/> .
@prefix xsd: <http://www.w3.org/2001/XMLSchema#> .
@prefix grel: <http://users.ugent.be/~bjdmeest/function/grel.ttl#> .
'''

UDF_A = '''TAG = 'A'
@udf(fun_id='http://ex/f', text='http://users.ugent.be/~bjdmeest/function/grel.ttl#valueParam')
def f(text):
    return text.upper()
'''
UDF_B = '''TAG = 'B'
@udf(fun_id='http://ex/f', text='http://users.ugent.be/~bjdmeest/function/grel.ttl#valueParam')
def f(text):
    return text[::-1]
'''


def _src(kind, value, iterator=None):
    it = f' ; rml:iterator "{iterator}"' if iterator else ''
    return f'[ rml:source "{value}" ; rml:referenceFormulation rml:{kind}{it} ]'


def heap_spec():
    """descriptions of the caller's in-memory objects (shared by all calls of a history)"""
    return {
        'df1': {'kind': 'frame', 'columns': [['id', 'int', [1, 2, 3]], ['name', 'object', ['ann', 'bob', '']],
                                            ['score', 'float', [1.5, 2.0, 3.25]]]},
        'dfq': {'kind': 'frame', 'columns': [['id', 'object', ['1', '2']], ['name', 'object', ['x"y', 'plain']],
                                            ['mixed', 'object', ['"', 7]]]},
        'd1': {'kind': 'dict', 'value': {'people': [{'id': 1, 'name': 'dora'}, {'id': 2, 'name': 'e"d'}], ' note ': 'n'}},
        'rows1': {'kind': 'rows', 'value': [{'id': 'r1', 'name': 'rita'}, {'id': 'r2', 'name': 'q"uo'}]},
        'tup1': {'kind': 'tuple', 'value': [{'id': 't1', 'name': 'tom'}]},
        'js1': {'kind': 'json', 'value': '{"people": [{"id": 7, "name": "jay"}, {"id": 8, "name": "kim"}]}'},
    }


def make_heap():
    import pandas as pd
    heap = {}
    for name, d in heap_spec().items():
        if d['kind'] == 'frame':
            df = pd.DataFrame({c: pd.Series(vals, dtype=('object' if dt == 'object' else None)) for c, dt, vals in d['columns']})
            heap[name] = df
        elif d['kind'] == 'tuple':
            heap[name] = tuple(dict(r) for r in d['value'])
        elif d['kind'] == 'rows':
            heap[name] = [dict(r) for r in d['value']]
        elif d['kind'] == 'dict':
            heap[name] = json.loads(json.dumps(d['value']))
        else:
            heap[name] = d['value']
    return heap


def build_pool(d):
    """writes the static files of the pool into directory `d`; returns {call id: description}"""
    os.makedirs(d, exist_ok=True)
    P = lambda n: os.path.join(d, n)

    def w(name, text):
        with open(P(name), 'w', encoding='utf-8') as f:
            f.write(text)
        return P(name)

    w('people.csv', 'id,name,planet\n1,Ann,Venus\n2,Bob,Mars\n3,Cy,\n')
    w('people2.csv', 'id,name,planet\n7,Zed,Pluto\n')
    w('sports.csv', 'pid,sport\n1,tennis\n2,chess\n9,golf\n')
    w('items.json', json.dumps({'items': [{'k': 'a', 'v': {'n': 1}}, {'k': 'b', 'v': {'n': 2}}, {'k': 'c', 'v': {'n': None}}]}))
    w('dyn.csv', 'id,name\n1,one\n')
    w('udf_a.py', UDF_A)
    w('udf_b.py', UDF_B)

    m_csv = w('m_csv.ttl', PREFIXES + f'''<http://ex/TM> a rml:TriplesMap; rml:logicalSource {_src('CSV', P('people.csv'))};
  rml:subjectMap [ rml:template "http://ex/p/{{id}}" ; rml:graphMap [ rml:constant ex:G ] ];
  rml:predicateObjectMap [ rml:predicate ex:name ; rml:objectMap [ rml:reference "name" ] ];
  rml:predicateObjectMap [ rml:predicate ex:planet ; rml:objectMap [ rml:template "http://ex/planet/{{planet}}" ] ] .
''')
    m_json = w('m_json.ttl', PREFIXES + f'''<http://ex/TJ> a rml:TriplesMap; rml:logicalSource {_src('JSONPath', P('items.json'), '$.items[*]')};
  rml:subjectMap [ rml:template "http://ex/i/{{k}}" ];
  rml:predicateObjectMap [ rml:predicate ex:n ; rml:objectMap [ rml:reference "v.n" ; rml:datatype xsd:integer ] ] .
''')
    m_join = w('m_join.ttl', PREFIXES + f'''<http://ex/TP> a rml:TriplesMap; rml:logicalSource {_src('CSV', P('people.csv'))};
  rml:subjectMap [ rml:template "http://ex/p/{{id}}" ];
  rml:predicateObjectMap [ rml:predicate ex:name ; rml:objectMap [ rml:reference "name" ; rml:language "en" ] ] .
<http://ex/TS> a rml:TriplesMap; rml:logicalSource {_src('CSV', P('sports.csv'))};
  rml:subjectMap [ rml:template "http://ex/s/{{sport}}" ];
  rml:predicateObjectMap [ rml:predicate ex:playedBy ; rml:objectMap [ rml:parentTriplesMap <http://ex/TP> ;
      rml:joinCondition [ rml:child "pid" ; rml:parent "id" ] ] ] .
''')
    m_df1 = w('m_df1.ttl', PREFIXES + f'''<http://ex/TD> a rml:TriplesMap; rml:logicalSource {_src('CSV', '{df1}')};
  rml:subjectMap [ rml:template "http://ex/d/{{id}}" ];
  rml:predicateObjectMap [ rml:predicate ex:name ; rml:objectMap [ rml:reference "name" ] ];
  rml:predicateObjectMap [ rml:predicate ex:score ; rml:objectMap [ rml:reference "score" ] ] .
''')
    m_dfq = w('m_dfq.ttl', PREFIXES + f'''<http://ex/TQ> a rml:TriplesMap; rml:logicalSource {_src('CSV', '{dfq}')};
  rml:subjectMap [ rml:template "http://ex/q/{{id}}" ];
  rml:predicateObjectMap [ rml:predicate ex:name ; rml:objectMap [ rml:reference "name" ] ];
  rml:predicateObjectMap [ rml:predicate ex:mixed ; rml:objectMap [ rml:reference "mixed" ] ] .
''')
    m_dict = w('m_dict.ttl', PREFIXES + f'''<http://ex/TDi> a rml:TriplesMap; rml:logicalSource {_src('JSONPath', '{d1}', '$.people[*]')};
  rml:subjectMap [ rml:template "http://ex/di/{{id}}" ];
  rml:predicateObjectMap [ rml:predicate ex:name ; rml:objectMap [ rml:reference "name" ] ] .
''')
    m_rows = w('m_rows.ttl', PREFIXES + f'''<http://ex/TR> a rml:TriplesMap; rml:logicalSource {_src('CSV', '{rows1}')};
  rml:subjectMap [ rml:template "http://ex/r/{{id}}" ];
  rml:predicateObjectMap [ rml:predicate ex:name ; rml:objectMap [ rml:reference "name" ] ] .
<http://ex/TT> a rml:TriplesMap; rml:logicalSource {_src('CSV', '{tup1}')};
  rml:subjectMap [ rml:template "http://ex/t/{{id}}" ];
  rml:predicateObjectMap [ rml:predicate ex:name ; rml:objectMap [ rml:reference "name" ] ] .
<http://ex/TJs> a rml:TriplesMap; rml:logicalSource {_src('JSONPath', '{js1}', '$.people[*]')};
  rml:subjectMap [ rml:template "http://ex/js/{{id}}" ];
  rml:predicateObjectMap [ rml:predicate ex:name ; rml:objectMap [ rml:reference "name" ] ] .
''')
    m_fn = w('m_fn.ttl', PREFIXES + f'''<http://ex/TF> a rml:TriplesMap; rml:logicalSource {_src('CSV', P('people.csv'))};
  rml:subjectMap [ rml:template "http://ex/f/{{id}}" ];
  rml:predicateObjectMap [ rml:predicate ex:udf ; rml:objectMap [ rml:functionExecution <http://ex/E1> ] ];
  rml:predicateObjectMap [ rml:predicate ex:bif ; rml:objectMap [ rml:functionExecution <http://ex/E2> ] ] .
<http://ex/E1> rml:function ex:f ; rml:input [ rml:parameter grel:valueParam ; rml:inputValueMap [ rml:reference "name" ] ] .
<http://ex/E2> rml:function grel:toUpperCase ; rml:input [ rml:parameter grel:valueParam ; rml:inputValueMap [ rml:reference "planet" ] ] .
''')
    m_bif = w('m_bif.ttl', PREFIXES + f'''<http://ex/TB> a rml:TriplesMap; rml:logicalSource {_src('CSV', P('people.csv'))};
  rml:subjectMap [ rml:template "http://ex/b/{{id}}" ];
  rml:predicateObjectMap [ rml:predicate ex:bif ; rml:objectMap [ rml:functionExecution <http://ex/E3> ] ] .
<http://ex/E3> rml:function grel:toUpperCase ; rml:input [ rml:parameter grel:valueParam ; rml:inputValueMap [ rml:reference "name" ] ] .
''')
    m_dyn = P('m_dyn.ttl')          # written by the caller before the call (pre_write)
    m_dynsrc = w('m_dynsrc.ttl', PREFIXES + f'''<http://ex/TY> a rml:TriplesMap; rml:logicalSource {_src('CSV', P('dyn.csv'))};
  rml:subjectMap [ rml:template "http://ex/y/{{id}}" ];
  rml:predicateObjectMap [ rml:predicate ex:name ; rml:objectMap [ rml:reference "name" ] ] .
''')
    m_missing = w('m_missing.ttl', PREFIXES + f'''<http://ex/TX> a rml:TriplesMap; rml:logicalSource {_src('CSV', P('no_such_file.csv'))};
  rml:subjectMap [ rml:template "http://ex/x/{{id}}" ];
  rml:predicateObjectMap [ rml:predicate ex:name ; rml:objectMap [ rml:reference "name" ] ] .
''')

    def dyn_mapping(pred):
        return PREFIXES + f'''<http://ex/TZ> a rml:TriplesMap; rml:logicalSource {_src('CSV', P('people.csv'))};
  rml:subjectMap [ rml:template "http://ex/z/{{id}}" ];
  rml:predicateObjectMap [ rml:predicate ex:{pred} ; rml:objectMap [ rml:reference "name" ] ] .
'''

    def call(cid, mapping, conf=None, section=None, sources=(), as_file=False, pre_write=None, udf=None, uses_udf=False, named=None):
        conf = dict(conf or {})
        conf.setdefault('logging_level', 'CRITICAL')
        conf.setdefault('number_of_processes', '1')
        if udf:
            conf['udfs'] = P(udf)
        return {'id': cid, 'mapping': mapping, 'conf': conf, 'section': dict(section or {}), 'sources': list(sources),
                'as_file': as_file, 'pre_write': pre_write, 'udf': udf, 'uses_udf': uses_udf,
                # `sources`: keys of the python_source dict handed to the call; `named`: those the mapping rules name
                'named': list(sources if named is None else named)}

    pool = [
        call('csv', m_csv),
        call('csv_na', m_csv, {'na_values': 'Venus,,nan'}, as_file=True),
        call('csv_nq2', m_csv, {'output_format': 'N-QUADS', 'mapping_partitioning': 'MAXIMAL', 'number_of_processes': '2',
                                'logging_level': 'ERROR', 'logging_file': P('log_nq.txt')}),
        call('csv_over', m_csv, section={'file_path': P('people2.csv')}),
        call('json', m_json, {'mapping_partitioning': 'PARTIAL-AGGREGATIONS', 'na_values': 'None,nan,'}),
        call('join', m_join, {'mapping_partitioning': 'NO', 'logging_level': 'DEBUG', 'logging_file': P('log_join.txt')}),
        call('join2', m_join, {'number_of_processes': '2', 'output_format': 'N-QUADS'}),
        call('df1', m_df1, sources=['df1', 'dfq'], named=['df1']),
        call('dfq', m_dfq, sources=['dfq']),
        call('dfq2', m_dfq, {'number_of_processes': '2'}, sources=['dfq', 'df1'], named=['dfq']),
        call('dict', m_dict, sources=['d1']),
        call('rows', m_rows, {'mapping_partitioning': 'MAXIMAL'}, sources=['rows1', 'tup1', 'js1', 'd1'], named=['rows1', 'tup1', 'js1']),
        call('udfA', m_fn, {'logging_level': 'WARNING', 'logging_file': P('log_a.txt')}, udf='udf_a.py', uses_udf=True, as_file=True),
        call('udfB', m_fn, {'logging_level': 'INFO'}, udf='udf_b.py', uses_udf=True),
        call('udfB2', m_fn, {'number_of_processes': '2'}, udf='udf_b.py', uses_udf=True),
        call('bif', m_bif, udf='udf_a.py', uses_udf=False),
        call('dynm1', m_dyn, pre_write=[m_dyn, dyn_mapping('first')]),
        call('dynm2', m_dyn, {'na_values': 'Ann'}, pre_write=[m_dyn, dyn_mapping('second')]),
        call('dynd1', m_dynsrc, pre_write=[P('dyn.csv'), 'id,name\n1,one\n']),
        call('dynd2', m_dynsrc, pre_write=[P('dyn.csv'), 'id,name\n2,two\n3,three\n']),
        call('missing', m_missing),
    ]
    return {c['id']: c for c in pool}


# ordered pairs (first, second) where state leaked by `first` could change `second`
CONFLICTS = [('csv', 'csv_na'), ('csv_na', 'csv'), ('udfA', 'udfB'), ('udfB', 'udfA'), ('udfA', 'udfB2'), ('udfB2', 'udfA'),
             ('dynm1', 'dynm2'), ('dynm2', 'dynm1'), ('dynd1', 'dynd2'), ('dynd2', 'dynd1'), ('csv', 'csv_over'), ('csv_over', 'csv'),
             ('csv_nq2', 'csv'), ('csv', 'csv_nq2'), ('dfq', 'dfq2'), ('dfq2', 'dfq'), ('dfq', 'df1'), ('df1', 'dfq'),
             ('join', 'join2'), ('join2', 'join'), ('udfA', 'bif'), ('bif', 'udfB'), ('dict', 'rows'), ('rows', 'dict'),
             ('missing', 'csv'), ('json', 'csv_na'), ('csv_na', 'json'), ('dfq', 'dfq'), ('join', 'join'), ('udfB', 'udfB'),
             ('dict', 'dict'), ('csv_na', 'dynm2'), ('dynm2', 'csv')]


def config_text(c):
    lines = ['[CONFIGURATION]'] + [f'{k}={v}' for k, v in c['conf'].items()]
    lines += ['[DS]', f'mappings={c["mapping"]}'] + [f'{k}={v}' for k, v in c['section'].items()]
    return '\n'.join(lines) + '\n'


# ----------------------------------------------------------------------------------------------------
# subprocess side: run a history in this interpreter
# ----------------------------------------------------------------------------------------------------

def canon_obj(o):
    """JSON-able canonical form of an in-memory source (also the form sent to the Lean model)"""
    import pandas as pd
    if isinstance(o, pd.DataFrame):
        cols = []
        for c in o.columns:
            s = o[c]
            cols.append({'name': str(c), 'object': str(s.dtype) == 'object', 'dtype': str(s.dtype),
                         'cells': [['s', x] if isinstance(x, str) else ['o', repr(x)] for x in s.tolist()]})
        return {'kind': 'frame', 'cols': cols, 'index': [repr(i) for i in o.index.tolist()]}
    if isinstance(o, tuple):
        return {'kind': 'tuple', 'json': json.dumps(list(o), sort_keys=False)}
    if isinstance(o, list):
        return {'kind': 'rows', 'json': json.dumps(o, sort_keys=False)}
    if isinstance(o, dict):
        return {'kind': 'dict', 'json': json.dumps(o, sort_keys=False)}
    return {'kind': 'json', 'json': str(o)}


def same_obj(a, b):
    import pandas as pd
    if type(a) is not type(b):
        return False
    if isinstance(a, pd.DataFrame):
        return (list(a.columns) == list(b.columns) and list(a.dtypes.astype(str)) == list(b.dtypes.astype(str))
                and a.index.equals(b.index) and a.equals(b)
                and all(type(x) is type(y) for c in a.columns for x, y in zip(a[c].tolist(), b[c].tolist())))
    return a == b


def hash_files(d, skip):
    out = {}
    for fn in sorted(os.listdir(d)):
        p = os.path.join(d, fn)
        if os.path.isfile(p) and fn not in skip:
            with open(p, 'rb') as f:
                out[fn] = hashlib.sha256(f.read()).hexdigest()
    return out


def logger_state():
    import logging
    root = logging.getLogger()
    hs = root.handlers
    if not hs:
        return None
    h = hs[0]
    return {'level': logging.getLevelName(root.level), 'file': os.path.basename(getattr(h, 'baseFilename', '') or '') or None,
            'handlers': len(hs)}


def ambient_state():
    """process-global state outside the model, recorded so that a change is at least visible in the evidence"""
    import pandas as pd
    st = {'cwd': os.getcwd(), 'environ': hashlib.sha256(repr(sorted(os.environ.items())).encode()).hexdigest()[:12],
          'sys_path': hashlib.sha256(repr(sys.path).encode()).hexdigest()[:12]}
    opts = []
    for k in ('mode.copy_on_write', 'mode.chained_assignment', 'future.infer_string', 'future.no_silent_downcasting',
              'display.max_rows', 'compute.use_numexpr', 'mode.string_storage', 'display.precision'):
        try:
            opts.append((k, repr(pd.get_option(k))))
        except Exception:
            pass
    st['pd_options'] = hashlib.sha256(repr(opts).encode()).hexdigest()[:12]
    return st


def run_history(job):
    d = job['dir']
    pool = build_pool(d)
    heap = make_heap()
    import morph_kgc
    src = os.path.abspath(os.path.join(job['repo'], 'src'))
    assert os.path.abspath(morph_kgc.__file__).startswith(src), (morph_kgc.__file__, src)
    from morph_kgc.fnml.built_in_functions import bif_dict
    bif0 = sorted(bif_dict)
    skip = {fn for fn in os.listdir(d) if fn.startswith('log_')} | {'log_nq.txt', 'log_join.txt', 'log_a.txt'}
    steps = []
    amb0 = ambient_state()
    for n, cid in enumerate(job['calls']):
        c = pool[cid]
        if c['pre_write']:
            with open(c['pre_write'][0], 'w', encoding='utf-8') as f:
                f.write(c['pre_write'][1])
        cfg = config_text(c)
        if c['as_file']:
            cp = os.path.join(d, f'cfg_{n}.ini')
            with open(cp, 'w') as f:
                f.write(cfg)
            cfg = cp
        before_files = hash_files(d, skip)
        before_heap = pickle.loads(pickle.dumps(heap))
        py_src = {k: heap[k] for k in c['sources']} if c['sources'] else None
        try:
            res = sorted(morph_kgc.materialize_set(cfg, py_src)) if py_src is not None else sorted(morph_kgc.materialize_set(cfg))
            out = {'ok': res}
        except BaseException as e:  # noqa: a failing call is a legitimate member of a history
            if isinstance(e, (KeyboardInterrupt,)):
                raise
            out = {'error': type(e).__name__}
        after_files = hash_files(d, skip)
        changed_files = sorted(k for k in set(before_files) | set(after_files) if before_files.get(k) != after_files.get(k))
        changed_objs = {}
        for k in heap:
            if not same_obj(before_heap[k], heap[k]):
                changed_objs[k] = {'before': canon_obj(before_heap[k]), 'after': canon_obj(heap[k])}
        # the dictionary handed in as python_source is an input too: its keys and the objects they are bound to must be the caller's
        if py_src is not None:
            for k in c['sources']:
                if k not in py_src:
                    changed_objs[k] = {'before': canon_obj(before_heap[k]), 'after': {'kind': 'removed from python_source', 'json': ''}}
                elif py_src[k] is not heap[k] and k not in changed_objs:
                    changed_objs[k] = {'before': canon_obj(before_heap[k]), 'after': dict(canon_obj(py_src[k]), rebound=True)}
            for k in py_src:
                if k not in c['sources']:
                    changed_objs[k] = {'before': {'kind': 'absent', 'json': ''}, 'after': canon_obj(py_src[k])}
        um = sys.modules.get('udfs')
        steps.append({'id': cid, 'result': out, 'changed_files': changed_files, 'changed_objs': changed_objs,
                      'udf_tag': getattr(um, 'TAG', None) if um is not None else None, 'logger': logger_state(),
                      'heap': {k: canon_obj(v) for k, v in heap.items()},
                      'bif_changed': sorted(bif_dict) != bif0})
    amb1 = ambient_state()
    return {'steps': steps, 'ambient_changed': sorted(k for k in amb0 if amb0[k] != amb1[k])}


def runner_main(path):
    with open(path) as f:
        job = json.load(f)
    try:
        out = run_history(job)
    except BaseException as e:
        import traceback
        out = {'crash': repr(e), 'trace': traceback.format_exc()[-1500:]}
    with open(job['out'], 'w') as f:
        json.dump(out, f)



# ----------------------------------------------------------------------------------------------------
# parent side
# ----------------------------------------------------------------------------------------------------

def gen_histories(rng, n, pool_ids):
    pairs = CONFLICTS[:]
    rng.shuffle(pairs)
    hs, pi = [], 0
    for _ in range(n):
        L = rng.randint(2, 8)
        chosen = [pairs[pi % len(pairs)]]
        pi += 1
        if L >= 4 and rng.random() < 0.6:
            chosen.append(pairs[pi % len(pairs)])
            pi += 1
        seq = list(chosen[0])
        for pr in chosen[1:]:
            p1 = rng.randint(0, len(seq))
            seq.insert(p1, pr[0])
            seq.insert(rng.randint(p1 + 1, len(seq)), pr[1])
        while len(seq) < L:
            x = rng.choice(pool_ids) if rng.random() < 0.75 else rng.choice(seq)
            seq.insert(rng.randint(0, len(seq)), x)
        hs.append(seq[:8])
    return hs


def spawn(repo, tmp, name, calls):
    d = os.path.join(tmp, name)
    os.makedirs(d, exist_ok=True)
    job = {'dir': os.path.join(d, 'w'), 'repo': repo, 'calls': calls, 'out': os.path.join(d, 'out.json')}
    jp = os.path.join(d, 'job.json')
    with open(jp, 'w') as f:
        json.dump(job, f)
    env = dict(os.environ, PYTHONPATH=os.path.join(repo, 'src'), PYTHONDONTWRITEBYTECODE='1')
    try:
        p = subprocess.run([sys.executable, '-B', os.path.abspath(__file__), jp], env=env, stdout=subprocess.DEVNULL,
                           stderr=subprocess.PIPE, text=True, timeout=600, cwd=d)
    except subprocess.TimeoutExpired:
        return {'crash': 'timeout'}
    if not os.path.exists(job['out']):
        return {'crash': f'no output (rc={p.returncode}): {p.stderr[-800:]}'}
    with open(job['out']) as f:
        return json.load(f)


def run_many(repo, tmp, jobs, workers=8):
    """jobs: {name: [call ids]} -> {name: output}"""
    from concurrent.futures import ThreadPoolExecutor
    with ThreadPoolExecutor(max_workers=workers) as ex:
        futs = {n: ex.submit(spawn, repo, tmp, n, c) for n, c in jobs.items()}
        return {n: f.result() for n, f in futs.items()}


def f1_scope(call, name, before, after):
    """finding C16_F1, mechanism-narrow: an in-process call that names DataFrame source `name`; the only changes are `"`
    characters removed from str cells of object columns"""
    if int(call['conf'].get('number_of_processes', '1')) > 1 or name not in call['named']:
        return False
    if before['kind'] != 'frame' or after['kind'] != 'frame' or before['index'] != after['index']:
        return False
    if [(c['name'], c['dtype']) for c in before['cols']] != [(c['name'], c['dtype']) for c in after['cols']]:
        return False
    diff = 0
    for cb, ca in zip(before['cols'], after['cols']):
        if len(cb['cells']) != len(ca['cells']):
            return False
        for x, y in zip(cb['cells'], ca['cells']):
            if x != y:
                if not (cb['object'] and x[0] == 's' and y[0] == 's' and '"' in x[1] and y[1] == x[1].replace('"', '')):
                    return False
                diff += 1
    return diff > 0


def model_obj(o):
    if o['kind'] == 'frame':
        return {'kind': 'frame', 'cols': [{'name': c['name'], 'object': c['object'], 'cells': c['cells']} for c in o['cols']]}
    return {'kind': o['kind'], 'json': o['json']}


def model_history(drv, pool, heap0, calls):
    req_calls = []
    for cid in calls:
        c = pool[cid]
        req_calls.append({'config': cid, 'sources': c['named'], 'inputs': [], 'udf': c['udf'], 'uses_udf': c['uses_udf'],
                          'multiproc': int(c['conf'].get('number_of_processes', '1')) > 1,
                          'log_level': c['conf']['logging_level'].upper(),
                          'log_file': os.path.basename(c['conf']['logging_file']) if c['conf'].get('logging_file') else None})
    return drv.call('proc_history', heap=[[k, model_obj(v)] for k, v in heap0.items()],
                    files=[['udf_a.py', 'A'], ['udf_b.py', 'B']], calls=req_calls)


def check_history(ctx, pool, name, calls, out, fresh, drv, heap0, is_fresh=False):
    """evaluates the property on one recorded history; returns the number of violations found"""
    nv = 0
    if 'crash' in out:
        raise RuntimeError(f'history {name} {calls}: {out["crash"]} {out.get("trace", "")}')
    model = None
    if drv is not None and not is_fresh:
        model = model_history(drv, pool, heap0, calls)
        ctx.traces_validated += 1
    for k, st in enumerate(out['steps']):
        cid = st['id']
        c = pool[cid]
        inp = {'calls': calls, 'step': k, 'call': cid}
        prev = calls[:k]
        if not is_fresh:
            ctx.case([cid, prev], nontrivial=k > 0, kind=f'len{len(calls)}',
                     sample={'history': calls, 'step': k, 'result_size': len(st['result'].get('ok', [])), 'error': st['result'].get('error')})
            ctx.bump('call:' + cid)
            if k > 0 and cid in prev:
                ctx.bump('repeat-of-earlier-call')
        # (1) same result as in a fresh interpreter
        if not is_fresh and cid in fresh and st['result'] != fresh[cid]:
            nv += 1
            a, b = st['result'], fresh[cid]
            only_h = sorted(set(a.get('ok', [])) - set(b.get('ok', [])))[:4]
            only_f = sorted(set(b.get('ok', [])) - set(a.get('ok', [])))[:4]
            ctx.violation(f'call {cid!r} after {prev} returns a result different from the same call in a fresh interpreter '
                          f'(only in history: {only_h or a.get("error")}, only fresh: {only_f or b.get("error")})',
                          {**inp, 'kind': 'result-differs', 'in_history': a, 'fresh': b})
        # (2) repeated identical calls
        if not is_fresh:
            for j in range(k):
                if calls[j] == cid and out['steps'][j]['result'] != st['result'] and not c['pre_write']:
                    nv += 1
                    ctx.violation(f'repeated call {cid!r} (steps {j} and {k} of {calls}) returns different results',
                                  {**inp, 'kind': 'repeat-differs'})
        # (3) inputs unmodified
        if st['changed_files']:
            nv += 1
            ctx.violation(f'call {cid!r} modified file(s) {st["changed_files"]}', {**inp, 'kind': 'files-modified', 'files': st['changed_files']})
        for nm, ch in st['changed_objs'].items():
            nv += 1
            in_scope = f1_scope(c, nm, ch['before'], ch['after'])
            ctx.violation(f'call {cid!r} modified the caller\'s in-memory source {nm!r} ({ch["before"]["kind"]})',
                          {**inp, 'kind': 'object-modified', 'object': nm, 'before': ch['before'], 'after': ch['after']},
                          finding=F1 if in_scope else None)
        if st.get('bif_changed'):
            ctx.disagree('process state outside the model: bif_dict changed by a call', inp, 'unchanged after import', 'changed')
        # (4) the mechanisms of the model
        if model is not None:
            m = model[k]
            impl_log = None if st['logger'] is None else {'level': st['logger']['level'], 'file': st['logger']['file']}
            impl = {'udf': st['udf_tag'], 'logger': impl_log, 'heap': {n: model_obj(o) for n, o in st['heap'].items()}}
            mod = {'udf': m['udf'], 'logger': m['logger'], 'heap': {n: o for n, o in m['heap']}}
            if impl != mod:
                diff = [f for f in ('udf', 'logger') if impl[f] != mod[f]] + [n for n in impl['heap'] if impl['heap'][n] != mod['heap'].get(n)]
                ctx.disagree('I-proc process state after call (' + ','.join(diff) + ')', inp,
                             {f: mod[f] for f in ('udf', 'logger')} | {n: mod['heap'].get(n) for n in diff if n in mod['heap']},
                             {f: impl[f] for f in ('udf', 'logger')} | {n: impl['heap'].get(n) for n in diff if n in impl['heap']})
    if out.get('ambient_changed'):
        ctx.disagree('process state outside the model changed: ' + ','.join(out['ambient_changed']), {'calls': calls}, 'unchanged', 'changed')
    return nv


def static_scan(ctx, lean):
    """the translator's list of process-global state vs the committed allow-list (tools/gen/C16.py: ALLOW_STATE)"""
    from gen.C16 import ALLOW_STATE
    g = lean['gen'].get('proc', {})
    found = g.get('state', []) + g.get('defaults', []) + g.get('writes', [])
    for e in found:
        ctx.case(['static', e], nontrivial=False, kind='static-state-entry')
        if e not in ALLOW_STATE:
            ctx.disagree('static-state-scan', {'entry': e}, 'on the allow-list of tools/gen/C16.py', 'new process-global state / file effect')
    for e in g.get('mutated_defaults', []):
        ctx.disagree('static-state-scan', {'entry': e}, 'default argument never mutated', 'mutable default argument is mutated')
    ctx.notes.append(f'static scan: {len(found)} entries, {len([e for e in found if e not in ALLOW_STATE])} not allow-listed; '
                     f'shape={ {k: g.get(k) for k in ("udf_load", "udf_only_if_not_builtin", "config_rebuilt", "logger_first_call_wins", "logging_write_only")} } '
                     f'frameMutates={g.get("ram", {}).get("frameMutates")}')


def run(ctx, lean, findings):
    import vlib
    repo = vlib.REPO
    static_scan(ctx, lean)
    drv = ctx.get_driver() if ctx.model_available else None
    if drv is None:
        ctx.notes.append('driver unavailable: mechanism correspondence skipped, history oracle only')
    pool = build_pool(os.path.join(ctx.tmp, 'pool_parent'))
    heap0 = {k: canon_obj(v) for k, v in make_heap().items()}
    ids = list(pool)
    n = ctx.budget(72, 900)
    if ctx.escalate:
        n *= 2
    hists = gen_histories(ctx.rng, n, ids)
    if ctx.escalate:      # every conflict pair alone, both as a pair and embedded after an unrelated call
        hists += [list(p) for p in CONFLICTS] + [['json'] + list(p) for p in CONFLICTS]
    jobs = {f'fresh_{cid}': [cid] for cid in ids}
    jobs.update({f'h{i}': h for i, h in enumerate(hists)})
    outs = run_many(repo, ctx.tmp, jobs, workers=8)
    fresh = {}
    for cid in ids:
        o = outs[f'fresh_{cid}']
        if 'crash' in o:
            raise RuntimeError(f'fresh run of {cid}: {o["crash"]} {o.get("trace", "")}')
        fresh[cid] = o['steps'][0]['result']
        check_history(ctx, pool, f'fresh_{cid}', [cid], o, fresh, None, heap0, is_fresh=True)
    # sanity of the pool itself (otherwise the oracle compares errors with errors)
    bad = [cid for cid in ids if ('error' in fresh[cid]) != (cid == 'missing') or (cid != 'missing' and not fresh[cid]['ok'])]
    if bad:
        ctx.notes.append(f'pool calls with unexpected fresh outcome: { {c: fresh[c] for c in bad} }')
        for cid in bad:
            ctx.violation(f'call {cid!r} alone in a fresh interpreter fails or returns nothing: {str(fresh[cid])[:200]}',
                          {'calls': [cid], 'step': 0, 'call': cid, 'kind': 'fresh-fails'})
    if fresh['udfA'] == fresh['udfB'] or fresh['csv'] == fresh['csv_na'] or fresh['dynm1'] == fresh['dynm2']:
        ctx.notes.append('pool degenerate: conflicting calls return equal results')
    for i, h in enumerate(hists):
        check_history(ctx, pool, f'h{i}', h, outs[f'h{i}'], fresh, drv, heap0)
    ctx.bump('histories', len(hists))
    ctx.bump('fresh-interpreter runs', len(ids))


def replay(ctx, data):
    import vlib
    inp = data.get('input')
    if not inp or 'calls' not in inp:
        # a replay of "no failing input found": the obligation that broke is static; re-run the scan
        rc, out = vlib.run([sys.executable, os.path.join(vlib.HERE, 'extract.py'), '--repo', vlib.REPO, '--json', os.path.join(ctx.tmp, 'g.json')])
        with open(os.path.join(ctx.tmp, 'g.json')) as f:
            g = json.load(f).get('proc', {})
        return bool(g.get('failures') or g.get('unlisted') or g.get('ram', {}).get('frameMutates'))
    pool = build_pool(os.path.join(ctx.tmp, 'pool_parent'))
    calls = inp['calls']
    jobs = {'h': calls}
    jobs.update({f'fresh_{c}': [c] for c in set(calls)})
    outs = run_many(vlib.REPO, ctx.tmp, jobs)
    fresh = {c: outs[f'fresh_{c}']['steps'][0]['result'] for c in set(calls)}
    heap0 = {k: canon_obj(v) for k, v in make_heap().items()}
    nv = check_history(ctx, pool, 'h', calls, outs['h'], fresh, None, heap0)
    for c in set(calls):
        nv += check_history(ctx, pool, 'f', [c], outs[f'fresh_{c}'], fresh, None, heap0, is_fresh=True)
    return nv > 0


if __name__ == '__main__':
    runner_main(sys.argv[1])
    sys.exit(0)
