"""C12 — a mapping document means the union of its triples maps (files, sections, unrelated additions, duplicate identifiers)."""
import copy
import json
import os

import coregen as cg
import corecases as cc
import secgen as sg

PROP = 'C12'
LEAN_TARGETS = ['MorphKgc.Props.C12']
GEN_KEYS = ['parse_order']
M = 'MorphKgc.Props.C12'
THEOREMS = [{'name': f'Props.C12.{n}', 'module': M} for n in [
    'C12_normalize_append', 'C12_union', 'C12_union_parts', 'C12_unrelated', 'C12_unrelated_statements', 'C12_perm', 'C12_pom_perm', 'C12_same_rules',
    'C12_files', 'C12_renumbering', 'C12_pipeline_partial', 'C12_sections_partial',
    'C12_validate_never_fires_after_renumbering', 'C12_dup_rejected_when_validated_first', 'C12_no_false_rejection',
    'C12_F1_or_fixed', 'C12_F1_witness_silently_merged', 'C12_F1_witness_statement_lost', 'C12_F2_or_fixed',
    'C12_F2_witness', 'C12_current_order', 'C12_dup_rejected_current', 'C12_current_guard', 'C12_stable_current']]
LINKS = [{'target': 'MorphKgc.Props.PipelineLib', 'needs': ['MorphKgc.Props.' + c for c in ('C01', 'C02', 'C05', 'C06', 'C08', 'C15', 'C18')], 'theorems': [{'name': f'Props.PipelineLib.{n}', 'module': 'MorphKgc.Props.PipelineLib'} for n in ['pipeline_current', 'sections_current', 'lib_set', 'lib_set_canon', 'lib_files', 'lib_graphs_of_statement', 'nulls_rule', 'loaders_of_bodies', 'evalRule_canonNow', 'evalRuleG_of_noRawNulls', 'canonFixed_of_typedOutside', 'lib_graph', 'dup_raises', 'typed_hypothesis_needed']]}]
RULE = ('pools of 1-5 triples maps of the core fragment (classes, subject/POM graph maps, language tags, datatypes) with referencing object '
        'maps (condition-free, same-column and cross-column joins, parents inside / outside the logical source), identifiers sharing '
        'prefixes, over 1-3 CSV sources; the pool is cut into its closed components, the components are dealt to 1-3 data-source sections '
        'and the triples maps of a section to 1-3 mapping files (optionally with shared blank-node labels); each case is evaluated on the '
        'real engine as (a) the split configuration, (b) one file in one section, (c) every closed component alone, (d) with an '
        'unrelated triples map added at a random position, (e) with triples maps and predicate-object maps reordered; the oracle '
        'requires (a) = (b) = union of (c), (d) = (a) + the addition alone, (e) = (a). Correspondence: Model.Sections.parseMappings '
        '(driven by the generated call order) vs the real rule table (I6) and its evaluation vs materialize_set (I7). '
        'Duplicate-identifier configurations: one file in two sections, same identifier with different content, with and without joins. '
        'non-trivial = at least two triples maps, a split over >= 2 files or sections and a non-empty result; distinct = hash of (sections, tables).')
TRUSTED_BASE = [
    'modelled, not verified: rdflib Turtle parser (blank-node labels are scoped per parse call), graph merge of the files of a section and '
    'the SPARQL engine behind the normalisation queries; pandas concat / drop_duplicates / map / fillna; configparser section discovery',
    'Model/Sections.lean: two files of one section declaring the SAME triples-map IRI (RDF merge = cartesian product of their parts), '
    'RDF-star expansion, file_path overriding and delimited identifiers are outside the model',
]
ASSUMPTIONS = ['section names are distinct (configparser raises DuplicateSectionError otherwise)',
               'every part handed to the engine is closed: a referencing object map whose parent is in no file of the same section is outside the property']


# ----------------------------------------------------------------------------------------------------------------------
# running: the engine runs of a case happen in a worker process (fork), which records what it saw; the parent process
# replays the record into `ctx` and asks the Lean driver for the model side
# ----------------------------------------------------------------------------------------------------------------------

class Rec:
    """the part of the Ctx interface the case functions use, as a list of events"""

    def __init__(self):
        self.events = []
        self.traces_validated = 0

    def case(self, key, **kw):
        self.events.append(['case', key, kw])

    def bump(self, kind, n=1):
        self.events.append(['bump', kind, n])

    def violation(self, what, inp, finding=None):
        self.events.append(['violation', what, inp, finding])

    def model(self, **kw):
        self.events.append(['model', kw])


def work(kind, seed, d):
    import random
    rng = random.Random(seed)
    rec = Rec()
    try:
        {'union': union_case, 'dup': dup_case, 'nodup': nodup_rejection_guard}[kind](rec, rng, d)
    except Exception as e:  # noqa
        import traceback
        rec.events.append(['crash', f'{kind} seed {seed}: {e!r} {traceback.format_exc()[-800:]}'])
    rec.events.append(['traces', rec.traces_validated])
    import shutil
    shutil.rmtree(d, ignore_errors=True)
    return rec.events


def absorb(ctx, drv, events):
    for ev in events:
        if ev[0] == 'case':
            ctx.case(ev[1], **ev[2])
        elif ev[0] == 'bump':
            ctx.bump(ev[1], ev[2])
        elif ev[0] == 'violation':
            ctx.violation(ev[1], ev[2], finding=ev[3])
        elif ev[0] == 'traces':
            ctx.traces_validated += ev[1]
        elif ev[0] == 'model' and drv:
            model_side(ctx, drv, **ev[1])
        elif ev[0] == 'crash':
            raise RuntimeError(ev[1])


TMNUM = __import__('re').compile(r'#TM\d+')
KEEP_NONASSERTED = ('source_name', 'triples_map_id', 'asserted', 'logical_source_value', 'subject_map_type', 'subject_map_value', 'subject_termtype')


def canon(rules):
    """corecases.canon_rules, with the rules of triples maps that have no predicate-object map (non-asserted: only their subject map
    and logical source matter; the DataFrame has NaN in the other columns) reduced to those fields"""
    return cc.canon_rules([r if r.get('asserted', True) else {k: v for k, v in r.items() if k in KEEP_NONASSERTED} for r in rules])


def run_cfg(cfg_text):
    return cg.run_engine(cfg_text)


def one_section(tms, name='DS'):
    return [{'name': name, 'files': [list(tms)]}]


def inp_of(secs, tables, columns, fmt, extra=None):
    d = {'sections': [{'name': s['name'], 'files': s['files']} for s in secs],
         'tables': {os.path.basename(p): r for p, r in tables.items()},
         'columns': {os.path.basename(p): c for p, c in columns.items()}, 'fmt': fmt}
    if extra:
        d.update(extra)
    return json.loads(json.dumps(d))


def triage(secs):
    if sg.scope_dup_id(secs):
        return 'C12_F1'
    if sg.scope_value_clash(secs):
        return 'C12_F2'
    return None


def c01_scope(secs, tables):
    doc = {'tms': sg.all_tms(secs)}
    if cc.scope_template_clash(doc) or cc.scope_constant_braces(doc):
        return True
    return False


def record_model(rec, secs, tables, fmt, cfg_text, res, inp, expect_dup=False, merged_dup=False):
    """(worker side) what the parent needs for I6/I7: the rule table the engine has just computed, the section order it used"""
    if expect_dup:
        rec.model(secs=secs, tables=tables, fmt=fmt, order=sg.section_order(cfg_text), real=None, res=res, inp=inp)
    elif 'rml_df' in cg.LAST_RULES:
        rec.model(secs=secs, tables=tables, fmt=fmt, order=sg.section_order(cfg_text), real=cg.rules_to_json(cg.LAST_RULES['rml_df']),
                  res=res, inp=inp, merged_dup=merged_dup)


def model_side(ctx, drv, secs, tables, fmt, order, real, res, inp, merged_dup=False):
    """I6/I7 for the sections model (driven by the generated call order) against the engine's rule table and result"""
    dcfg = sg.driver_config(secs, order)
    if real is None:       # the engine raised on a duplicate identifier
        m = drv.call('c12_parse', sections=dcfg)
        if 'dup' not in m:
            ctx.disagree('I6 parse_mappings raises vs Model.Sections.parseMappings', inp, 'ok', res)
        return
    m = drv.call('c12_parse', sections=dcfg)
    if 'ok' not in m:
        ctx.disagree('I6 parse_mappings vs Model.Sections.parseMappings', inp, m, 'rule table of %d rows' % len(real))
        return
    nm, rr = canon(m['ok']), canon(real)
    clash = sg.scope_value_clash(secs)
    if clash:
        # inside the scope of C12_F2 a rule number leaks into values and statements; WHICH number depends on the row order of
        # rdflib's SPARQL result, which is not modelled: compare up to the number
        nm, rr = sorted({TMNUM.sub('#TM*', x) for x in nm}), sorted({TMNUM.sub('#TM*', x) for x in rr})
    if nm != rr:
        ctx.disagree('I6 parse_mappings vs Model.Sections.parseMappings', inp, [x for x in nm if x not in rr][:3], [x for x in rr if x not in nm][:3])
    e = drv.call('c12_eval', sections=dcfg, tables=sg.driver_tables(secs, tables), fmt=fmt, safe='')
    got = sorted(e['ok']) if 'ok' in e else e
    if clash and isinstance(got, list):
        got, res = sorted({TMNUM.sub('#TM*', x) for x in got}), sorted({TMNUM.sub('#TM*', x) for x in res})
    if got != res:
        ctx.disagree('I7 materialize_set vs Model.evalAll(Model.Sections.parseMappings)', inp,
                     got if not isinstance(got, list) else [x for x in got if x not in res][:3], [x for x in res if x not in got][:3] if isinstance(got, list) else res[:3])
    if merged_dup and (nm != rr or got != res):
        # inside the scope of C12_F1 the finding explains ONE outcome: the tables of the sections concatenated, de-duplicated over all
        # columns, parents resolved to the first rule carrying the identifier (the model of the code as it is). Anything else is new.
        ctx.violation('a configuration with a duplicate identifier is merged, but not in the way C12_F1 describes (rule table / result differ '
                      'from the model of the code as it is): ' + (diff_text(got, res) if isinstance(got, list) else str(got)[:200]),
                      dict(inp, check='merged-as-model'), finding=None)


def union_case(ctx, rng, d):
    """one generated pool, split and recombined"""
    doc, tables, columns = sg.gen_pool(rng, d, clash_rate=0.04)
    tms = doc['tms']
    fmt = rng.choice(['N-QUADS', 'N-QUADS', 'N-TRIPLES'])
    secs = sg.assign(rng, tms)
    share = rng.random() < 0.3
    cfg = sg.write_config(d, secs, fmt=fmt, share_bnodes=share, tag='s')
    kind, res = run_cfg(cfg)
    nfiles = sum(len(s['files']) for s in secs)
    inp = inp_of(secs, tables, columns, fmt, {'share_bnodes': share})
    ctx.case(sg.key_of(secs, tables) + [fmt, share], nontrivial=(kind == 'ok' and len(tms) >= 2 and nfiles >= 2 and bool(res)),
             kind=f'split {len(secs)} sections / {nfiles} files', sample={'sections': [[s['name'], [len(f) for f in s['files']]] for s in secs],
                                                                         'fmt': fmt, 'lines': res[:2] if kind == 'ok' else res})
    ctx.traces_validated += 1
    fid = triage(secs)
    if kind != 'ok':
        ctx.violation(f'materialization of a legal split configuration failed: {res}', inp,
                      finding=fid or ('C01_F1' if c01_scope(secs, tables) else None))
        return
    record_model(ctx, secs, tables, fmt, cfg, res, inp)

    # (b) the whole document as one file of one section
    k1, one = run_cfg(sg.write_config(d, one_section(tms), fmt=fmt, tag='one'))
    ctx.bump('engine runs', 2)
    if k1 != 'ok' or one != res:
        ctx.violation('splitting the document over mapping files / sections changes the result: '
                      + diff_text(one if k1 == 'ok' else [], res) + ('' if k1 == 'ok' else f' (single file failed: {one})'), inp, finding=fid)
        return
    # (c) the union of the closed components, each alone
    comps = sg.components(tms)
    if len(comps) > 1:
        union = set()
        for ci, comp in enumerate(comps):
            kc, rc = run_cfg(sg.write_config(d, one_section([tms[i] for i in comp], name=rng.choice(sg.SECTION_NAMES)), fmt=fmt, tag=f'c{ci}'))
            ctx.bump('engine runs')
            if kc != 'ok':
                ctx.violation(f'a closed part of a working document fails alone: {rc}', inp_of(one_section([tms[i] for i in comp]), tables, columns, fmt),
                              finding=fid)
                return
            union |= set(rc)
        if sorted(union) != res:
            ctx.violation('the result of the document is not the union of the results of its closed parts: ' + diff_text(sorted(union), res),
                          inp, finding=fid)
            return
    # (d) an unrelated triples map added at a random position (it may reference the others; nobody references it)
    r = rng.random()
    if r < 0.6:
        doc2, t2, c2 = sg.gen_pool(rng, os.path.join(d, 'x'), max_tms=1, join_rate=0.0)
        extra = doc2['tms'][0]
        extra['id'] = 'http://ex.org/tm/' + rng.choice(['Extra', 'TM1', 'TM', 'TM100', 'T'])
        if extra['id'] not in {t['id'] for t in tms}:
            tables2, columns2 = dict(tables, **t2), dict(columns, **c2)
            if tms and rng.random() < 0.4:
                parent = rng.choice(tms)
                cj, pj = rng.choice(c2[extra['source']]), rng.choice(columns[parent['source']])
                extra['poms'].append({'predicates': [{'kind': 'constant', 'value': 'http://ex.org/p/ref', 'termtype': 'iri'}],
                                      'objects': [{'parent': parent['id'], 'join': [[cj, pj]]}], 'graphs': []})
            pos = rng.randrange(len(tms) + 1)
            tms2 = tms[:pos] + [extra] + tms[pos:]
            kx, rx = run_cfg(sg.write_config(d, one_section(tms2), fmt=fmt, tag='add'))
            ka, ra = run_cfg(sg.write_config(d, one_section([extra] + [t for t in tms if t['id'] in sg.parents_of(extra)]), fmt=fmt, tag='addalone'))
            ctx.bump('engine runs', 2)
            ctx.case(sg.key_of(one_section(tms2), tables2) + [fmt, 'add'], nontrivial=(kx == 'ok' and bool(res)), kind='unrelated triples map added')
            inp2 = inp_of(one_section(tms2), tables2, columns2, fmt, {'added': extra['id']})
            f2 = triage(one_section(tms2))
            if kx != 'ok':
                ctx.violation(f'adding an unrelated triples map makes the document fail: {rx}', inp2, finding=f2)
            elif not set(res) <= set(rx):
                ctx.violation('adding an unrelated triples map removes statements contributed by the others: ' + diff_text(res, rx), inp2, finding=f2)
            elif ka == 'ok' and not (set(rx) - set(res)) <= set(ra):
                ctx.violation('adding an unrelated triples map adds statements it does not generate alone: '
                              + repr(sorted(set(rx) - set(res) - set(ra))[:3]), inp2, finding=f2)
    # (e) reordering triples maps and predicate-object maps
    if len(tms) > 1 or any(len(t['poms']) > 1 for t in tms):
        tms3 = copy.deepcopy(tms)
        rng.shuffle(tms3)
        for t in tms3:
            rng.shuffle(t['poms'])
        kp, rp = run_cfg(sg.write_config(d, one_section(tms3), fmt=fmt, tag='perm'))
        ctx.bump('engine runs')
        if kp != 'ok' or rp != res:
            ctx.violation('reordering triples maps / predicate-object maps changes the result: ' + diff_text(res, rp if kp == 'ok' else []),
                          inp_of(one_section(tms3), tables, columns, fmt, {'original_order': [t['id'] for t in tms]}), finding=fid)


def diff_text(a, b):
    a, b = list(a), list(b)
    return f'only in the first {[x for x in a if x not in b][:2]!r}, only in the second {[x for x in b if x not in a][:2]!r}'


# ----------------------------------------------------------------------------------------------------------------------
# duplicate identifiers across sections (C12_F1)
# ----------------------------------------------------------------------------------------------------------------------

def dup_case(ctx, rng, d):
    """A triples-map identifier in two sections. The property demands an exception; while C12_F1 is open the engine merges silently."""
    doc, tables, columns = sg.gen_pool(rng, d, max_tms=3, join_rate=0.5)
    tms = doc['tms']
    fmt = rng.choice(['N-QUADS', 'N-TRIPLES'])
    names = rng.sample(sg.SECTION_NAMES, 2)
    variant = rng.choice(['same file twice', 'same id other content', 'same id other data'])
    comps = sg.components(tms)
    comp = [tms[i] for i in rng.choice(comps)]
    if variant == 'same file twice':
        secs = [{'name': names[0], 'files': [tms]}, {'name': names[1], 'files': [copy.deepcopy(comp)]}]
    elif variant == 'same id other content':
        other = copy.deepcopy(comp)
        for t in other:
            t['subject'] = {'kind': 'template', 'tpl': {'pre': 'http://ex.org/other/', 'parts': [[columns[t['source']][0], '']]},
                            'value': 'http://ex.org/other/{' + columns[t['source']][0] + '}', 'termtype': 'iri', 'classes': [], 'graphs': []}
        secs = [{'name': names[0], 'files': [tms]}, {'name': names[1], 'files': [other]}]
    else:
        # the same mapping shape over another copy of the data (what one would write for two shards of a source)
        other = copy.deepcopy(comp)
        tables, columns = dict(tables), dict(columns)
        for t in other:
            p2 = t['source'][:-4] + '_b.csv'
            if p2 not in tables:
                rows = cg.gen_table(rng, columns[t['source']], rng.randrange(1, 4), value_kind='plain', null_rate=0.0)
                assert cg.write_csv(p2, columns[t['source']], rows)
                tables[p2], columns[p2] = rows, columns[t['source']]
            t['source'] = p2
        secs = [{'name': names[0], 'files': [tms]}, {'name': names[1], 'files': [other]}]
    cfg = sg.write_config(d, secs, fmt=fmt, tag='dup')
    kind, res = run_cfg(cfg)
    inp = inp_of(secs, tables, columns, fmt, {'variant': variant})
    ctx.case(sg.key_of(secs, tables) + [fmt, variant], nontrivial=True, kind='duplicate identifier: ' + variant,
             sample={'variant': variant, 'outcome': kind, 'detail': res[:1] if kind == 'ok' else res})
    ctx.traces_validated += 1
    if kind == 'ok':
        record_model(ctx, secs, tables, fmt, cfg, res, inp, merged_dup=True)
        # silently merged. Say what the merge did: compare with the union of the two sections evaluated alone
        ku, ru = set(), True
        for s in secs:
            k1, r1 = run_cfg(sg.write_config(d, [s], fmt=fmt, tag='dupalone'))
            ru = ru and k1 == 'ok'
            ku |= set(r1) if k1 == 'ok' else set()
        lost = sorted(ku - set(res))[:2]
        ctx.bump('duplicate identifier silently merged')
        if lost:
            ctx.bump('... and statements of one section lost')
        ctx.violation('a triples-map identifier declared in two data-source sections is not rejected'
                      + (f'; statements lost w.r.t. the sections alone: {lost!r}' if lost else ''), inp, finding='C12_F1')
    elif 'more than one data source' in str(res):
        ctx.bump('duplicate identifier rejected')
        record_model(ctx, secs, tables, fmt, cfg, res, inp, expect_dup=True)
    else:
        ctx.bump('duplicate identifier: run aborted for another reason (' + str(res).split(':')[0] + ')')


def nodup_rejection_guard(ctx, rng, d):
    """the converse: distinct identifiers (even with common prefixes, even the same blank-node labels) are never rejected"""
    doc, tables, columns = sg.gen_pool(rng, d, max_tms=4, join_rate=0.3)
    secs = sg.assign(rng, doc['tms'], max_sections=3, max_files=1)
    cfg = sg.write_config(d, secs, share_bnodes=True, tag='nd')
    kind, res = run_cfg(cfg)
    ctx.case(sg.key_of(secs, tables) + ['nodup'], nontrivial=len(secs) > 1, kind='distinct identifiers, shared blank-node labels')
    if kind != 'ok' and 'more than one data source' in str(res):
        ctx.violation(f'distinct identifiers are rejected as duplicates: {res}', inp_of(secs, tables, columns, 'N-QUADS', {'share_bnodes': True}),
                      finding=None)


# ----------------------------------------------------------------------------------------------------------------------
# fixed witnesses (the replay inputs of the findings; also the first inputs of the failing-input search)
# ----------------------------------------------------------------------------------------------------------------------

def tpl(pre, col, tt='iri'):
    return {'kind': 'template', 'tpl': {'pre': pre, 'parts': [[col, '']]}, 'value': pre + '{' + col + '}', 'termtype': tt}


def witness_join():
    """two sections with the same two triples maps (employee -> department join) over their own data"""
    def part(e, dpt):
        return [{'id': 'http://ex.org/tm/Emp', 'source': e, 'subject': dict(tpl('http://ex.org/emp/', 'id'), classes=[], graphs=[]),
                 'poms': [{'predicates': [{'kind': 'constant', 'value': 'http://ex.org/dept', 'termtype': 'iri'}],
                           'objects': [{'parent': 'http://ex.org/tm/Dept', 'join': [['dept', 'dept']]}], 'graphs': []}]},
                {'id': 'http://ex.org/tm/Dept', 'source': dpt, 'subject': dict(tpl('http://ex.org/dept/', 'dname'), classes=[], graphs=[]),
                 'poms': [{'predicates': [{'kind': 'constant', 'value': 'http://ex.org/name', 'termtype': 'iri'}],
                           'objects': [{'kind': 'reference', 'value': 'dname', 'termtype': 'literal'}], 'graphs': []}]}]
    return {'sections': [{'name': 'A', 'files': [part('ea.csv', 'da.csv')]}, {'name': 'B', 'files': [part('eb.csv', 'db.csv')]}],
            'tables': {'ea.csv': [{'id': '1', 'dept': 'd1'}], 'da.csv': [{'dept': 'd1', 'dname': 'Sales'}],
                       'eb.csv': [{'id': '7', 'dept': 'd9'}], 'db.csv': [{'dept': 'd9', 'dname': 'Ops'}]},
            'columns': {'ea.csv': ['id', 'dept'], 'da.csv': ['dept', 'dname'], 'eb.csv': ['id', 'dept'], 'db.csv': ['dept', 'dname']},
            'fmt': 'N-TRIPLES', 'variant': 'same id other data'}


def witness_clash():
    """a constant object that is the IRI of another triples map of the document"""
    return {'sections': [{'name': 'DS', 'files': [[
        {'id': 'http://ex.org/tm/TM0', 'source': 't.csv', 'subject': dict(tpl('http://ex.org/', 'id'), classes=[], graphs=[]),
         'poms': [{'predicates': [{'kind': 'constant', 'value': 'http://ex.org/from', 'termtype': 'iri'}],
                   'objects': [{'kind': 'constant', 'value': 'http://ex.org/tm/TM1', 'termtype': 'iri'}], 'graphs': []}]},
        {'id': 'http://ex.org/tm/TM1', 'source': 't.csv', 'subject': dict(tpl('http://ex.org/x/', 'id'), classes=[], graphs=[]),
         'poms': [{'predicates': [{'kind': 'constant', 'value': 'http://ex.org/n', 'termtype': 'iri'}],
                   'objects': [{'kind': 'reference', 'value': 'name', 'termtype': 'literal'}], 'graphs': []}]}]]}],
        'tables': {'t.csv': [{'id': '1', 'name': 'a'}]}, 'columns': {'t.csv': ['id', 'name']}, 'fmt': 'N-TRIPLES'}


def materialise_input(d, inp):
    """write the tables of a replay input, point the triples maps at them -> (secs, tables, columns)"""
    os.makedirs(d, exist_ok=True)
    inp = json.loads(json.dumps(inp))
    tables, columns, ren = {}, {}, {}
    for name, rows in inp['tables'].items():
        p = os.path.join(d, name)
        cols = inp.get('columns', {}).get(name) or sorted({c for r in rows for c in r})
        cg.write_csv(p, cols, rows)
        tables[p], columns[p], ren[name] = rows, cols, p
    secs = inp['sections']
    for tm in sg.all_tms(secs):
        tm['source'] = ren.get(os.path.basename(tm['source']), tm['source'])
    return secs, tables, columns


def replay_input(ctx, inp, d):
    """True iff the property still fails on this input"""
    secs, tables, columns = materialise_input(d, inp)
    fmt = inp.get('fmt', 'N-QUADS')
    kind, res = run_cfg(sg.write_config(d, secs, fmt=fmt, share_bnodes=bool(inp.get('share_bnodes')), tag='rp'))
    if sg.scope_dup_id(secs) and inp.get('check') == 'merged-as-model':
        # still failing = merged silently AND not in the way the model of the code as it is (C12_F1) predicts
        if kind != 'ok':
            return False
        drv = ctx.get_driver()
        cfg = sg.write_config(d, secs, fmt=fmt, share_bnodes=bool(inp.get('share_bnodes')), tag='rp')
        dcfg = sg.driver_config(secs, sg.section_order(cfg))
        e = drv.call('c12_eval', sections=dcfg, tables=sg.driver_tables(secs, tables), fmt=fmt, safe='')
        m = drv.call('c12_parse', sections=dcfg)
        same_rules = 'ok' in m and 'rml_df' in cg.LAST_RULES and \
            canon(m['ok']) == canon(cg.rules_to_json(cg.LAST_RULES['rml_df']))
        return not ('ok' in e and sorted(e['ok']) == res and same_rules)
    if sg.scope_dup_id(secs):
        return kind == 'ok'            # must be rejected
    if kind != 'ok':
        return True
    tms = sg.all_tms(secs)
    union = set()
    for ci, comp in enumerate(sg.components(tms)):
        kc, rc = run_cfg(sg.write_config(d, one_section([tms[i] for i in comp]), fmt=fmt, tag=f'rc{ci}'))
        if kc != 'ok':
            return True
        union |= set(rc)
    if inp.get('added'):
        rest = [t for t in tms if t['id'] != inp['added']]
        kr, rr = run_cfg(sg.write_config(d, one_section(rest), fmt=fmt, tag='rr'))
        if kr != 'ok' or not set(rr) <= set(res):
            return True
    if inp.get('original_order'):
        by = {t['id']: t for t in tms}
        ko, ro = run_cfg(sg.write_config(d, one_section([by[i] for i in inp['original_order']]), fmt=fmt, tag='ro'))
        return ko != 'ok' or ro != res
    return sorted(union) != res


def relative_ids_case(ctx):
    """Mapping files that name their triples maps with RELATIVE IRIs (`<#PersonMap>`): a relative IRI is resolved against the file it
    stands in, so the same fragment in two files names two different triples maps.  Two files of one section, and the same two files
    in two sections: the result must be the union of the files taken alone (and nothing may be rejected as a repeated triples map)."""
    d = os.path.join(ctx.tmp, 'relids')
    os.makedirs(d, exist_ok=True)
    files, alone = [], []
    for k, (pred, col) in enumerate((('name', 'n'), ('city', 'c'))):
        csvp = os.path.join(d, f'd{k}.csv')
        with open(csvp, 'w') as f:
            f.write(f'id,{col}\n' + ''.join(f'{k}{i},v{k}{i}\n' for i in range(3)))
        mp = os.path.join(d, f'rel{k}.ttl')
        with open(mp, 'w') as f:
            f.write(f'''@prefix rr: <http://www.w3.org/ns/r2rml#> . @prefix rml: <http://semweb.mmlab.be/ns/rml#> . @prefix ql: <http://semweb.mmlab.be/ns/ql#> .
<#TheMap> rml:logicalSource [ rml:source "{csvp}"; rml:referenceFormulation ql:CSV ];
  rr:subjectMap [ rr:template "http://ex.org/r/{{id}}" ];
  rr:predicateObjectMap [ rr:predicate <http://ex.org/{pred}>; rr:objectMap [ rml:reference "{col}" ] ] .
''')
        files.append(mp)
        alone.append({f'<http://ex.org/r/{k}{i}> <http://ex.org/{pred}> "v{k}{i}"' for i in range(3)})
    want = sorted(alone[0] | alone[1])
    head = '[CONFIGURATION]\noutput_format=N-TRIPLES\nnumber_of_processes=1\nlogging_level=CRITICAL\n'
    for label, cfg in (('two files of one section', head + f'[DS]\nmappings={files[0]},{files[1]}\n'),
                       ('two sections', head + f'[DS1]\nmappings={files[0]}\n[DS2]\nmappings={files[1]}\n')):
        kind, res = run_cfg(cfg)
        inp = {'kind': 'relative-ids', 'layout': label}
        ctx.case(['relative-ids', label], nontrivial=True, kind='relative triples-map IRIs: ' + label)
        ctx.traces_validated += 1
        got = sorted(x.strip() for x in res) if kind == 'ok' else res
        if kind != 'ok' or got != want:
            ctx.violation(f'two mapping files using the same relative triples-map IRI ({label}): expected the union of the files taken alone '
                          f'({len(want)} statements), got ' + (diff_text(want, got) if kind == 'ok' else f'an exception: {res}'), inp)


def shared_parent_case(ctx):
    """A triples map WITHOUT predicate-object maps (it only serves as the parent of referencing object maps) declared with the same
    IRI in two data source sections: like any other repeated identifier it must be rejected, not resolved to whichever section
    comes first."""
    d = os.path.join(ctx.tmp, 'sharedparent')
    os.makedirs(d, exist_ok=True)
    secs = []
    for k in (0, 1):
        for name, text in ((f'p{k}.csv', 'code,label\n' + ''.join(f'c{i},L{k}{i}\n' for i in range(2))),
                           (f'ch{k}.csv', 'id,code\n' + ''.join(f'{k}{i},c{i}\n' for i in range(2)))):
            with open(os.path.join(d, name), 'w') as f:
                f.write(text)
        mp = os.path.join(d, f'sp{k}.ttl')
        with open(mp, 'w') as f:
            f.write(f'''@prefix rr: <http://www.w3.org/ns/r2rml#> . @prefix rml: <http://semweb.mmlab.be/ns/rml#> . @prefix ql: <http://semweb.mmlab.be/ns/ql#> .
<http://ex.org/tm/Lookup> rml:logicalSource [ rml:source "{os.path.join(d, f'p{k}.csv')}"; rml:referenceFormulation ql:CSV ];
  rr:subjectMap [ rr:template "http://ex.org/code{k}/{{label}}" ] .
<http://ex.org/tm/Child{k}> rml:logicalSource [ rml:source "{os.path.join(d, f'ch{k}.csv')}"; rml:referenceFormulation ql:CSV ];
  rr:subjectMap [ rr:template "http://ex.org/item/{{id}}" ];
  rr:predicateObjectMap [ rr:predicate <http://ex.org/hasCode>;
    rr:objectMap [ rr:parentTriplesMap <http://ex.org/tm/Lookup>; rr:joinCondition [ rr:child "code"; rr:parent "code" ] ] ] .
''')
        secs.append(f'[DS{k}]\nmappings={mp}\n')
    cfg = '[CONFIGURATION]\noutput_format=N-TRIPLES\nnumber_of_processes=1\nlogging_level=CRITICAL\n' + ''.join(secs)
    kind, res = run_cfg(cfg)
    inp = {'kind': 'shared-parent'}
    ctx.case(['shared-parent'], nontrivial=True, kind='parent-only triples map repeated in two sections')
    ctx.traces_validated += 1
    if kind == 'ok':
        ctx.violation('a triples map without predicate-object maps declared in two data-source sections is not rejected: '
                      f'{len(res)} statements, e.g. {sorted(res)[:2]}', inp)


def pomless_section_case(ctx):
    """C12_F3 (repaired): a data-source section whose mapping files declare only triples maps WITHOUT predicate-object maps (legal:
    zero or more; they generate nothing) must leave the statements of the other sections as they are — and a configuration that
    consists of such a section only yields the empty set, not an exception."""
    d = os.path.join(ctx.tmp, 'pomless')
    os.makedirs(d, exist_ok=True)
    with open(os.path.join(d, 't.csv'), 'w') as f:
        f.write('k\nx\ny\n')
    head = ('@prefix rr: <http://www.w3.org/ns/r2rml#> . @prefix rml: <http://semweb.mmlab.be/ns/rml#> . '
            '@prefix ql: <http://semweb.mmlab.be/ns/ql#> .\n')
    src = f'rml:logicalSource [ rml:source "{os.path.join(d, "t.csv")}"; rml:referenceFormulation ql:CSV ]'
    with open(os.path.join(d, 'full.ttl'), 'w') as f:
        f.write(head + f'<http://ex.org/tm/Full> {src}; rr:subjectMap [ rr:template "http://ex.org/C/{{k}}"; rr:class <http://ex.org/K> ] .\n')
    with open(os.path.join(d, 'bare.ttl'), 'w') as f:
        f.write(head + f'<http://ex.org/tm/Bare> {src}; rr:subjectMap [ rr:template "http://ex.org/P/{{k}}" ] .\n')
    conf = '[CONFIGURATION]\noutput_format=N-TRIPLES\nnumber_of_processes=1\nlogging_level=CRITICAL\n'
    full = f'[DS0]\nmappings={os.path.join(d, "full.ttl")}\n'
    bare = f'[DS1]\nmappings={os.path.join(d, "bare.ttl")}\n'
    base = run_cfg(conf + full)
    both = run_cfg(conf + full + bare)
    only = run_cfg(conf + bare)
    ctx.case(['pomless-section'], nontrivial=True, kind='section with triples maps without predicate-object maps')
    ctx.traces_validated += 1
    inp = {'kind': 'pomless-section'}
    if base[0] != 'ok' or len(base[1]) != 2:
        ctx.violation(f'the reference configuration does not give its two statements: {str(base)[:200]}', inp)
    elif both != base:
        ctx.violation('adding a data-source section whose triples maps have no predicate-object map changes the result of the rest: '
                      f'{str(both)[:200]} instead of {str(base)[:120]}', inp)
    elif only != ('ok', []):
        ctx.violation(f'a configuration whose triples maps have no predicate-object map does not give the empty result: {str(only)[:200]}', inp)


R2 = ('@prefix rr: <http://www.w3.org/ns/r2rml#> . @prefix rml: <http://semweb.mmlab.be/ns/rml#> . '
      '@prefix ql: <http://semweb.mmlab.be/ns/ql#> . @prefix ex: <http://ex.org/> .\n')
CONF1 = '[CONFIGURATION]\noutput_format=N-QUADS\nnumber_of_processes=1\nlogging_level=CRITICAL\n'


def shared_subject_map_case(ctx):
    """Two triples maps of one document that use ONE (named) subject-map resource carrying rr:class, rr:graphMap and a template:
    the document means the union of the two triples maps, each with that subject map — exactly what the spelling with two inline
    copies of the subject map gives.  (Shared nodes are where "one row per triples map" shortcuts of the parser go wrong.)"""
    d = os.path.join(ctx.tmp, 'sharedsm')
    os.makedirs(d, exist_ok=True)
    for name, text in (('a.csv', 'k,v\nx,1\ny,2\n'), ('b.csv', 'k,w\nx,7\nz,8\n')):
        with open(os.path.join(d, name), 'w') as f:
            f.write(text)
    sm = ('rr:template "http://ex.org/s/{k}"; rr:class ex:K, ex:L; rr:graphMap [ rr:constant ex:g ]')
    def doc(shared):
        head = R2 + (f'ex:SM {sm} .\n' if shared else '')
        sub = 'rr:subjectMap ex:SM' if shared else f'rr:subjectMap [ {sm} ]'
        return head + ''.join(
            f'ex:TM{i} rml:logicalSource [ rml:source "{os.path.join(d, fn)}"; rml:referenceFormulation ql:CSV ]; {sub};\n'
            f'  rr:predicateObjectMap [ rr:predicate ex:p{i}; rr:objectMap [ rml:reference "{col}" ] ] .\n'
            for i, (fn, col) in enumerate((('a.csv', 'v'), ('b.csv', 'w'))))
    res = {}
    for shared in (False, True):
        mp = os.path.join(d, f'm{int(shared)}.ttl')
        with open(mp, 'w') as f:
            f.write(doc(shared))
        res[shared] = run_cfg(CONF1 + f'[DS]\nmappings={mp}\n')
    ctx.case(['shared-subject-map'], nontrivial=True, kind='one subject-map resource shared by two triples maps')
    ctx.traces_validated += 1
    inp = {'kind': 'shared-subject-map'}
    if res[False][0] != 'ok' or len(res[False][1]) != 10:
        ctx.violation(f'the reference spelling (inline subject maps) does not give its 10 statements: {str(res[False])[:300]}', inp)
    elif res[True] != res[False]:
        miss = [x for x in res[False][1] if res[True][0] != 'ok' or x not in res[True][1]]
        ctx.violation('two triples maps sharing one subject-map resource do not mean the union of the two triples maps: '
                      f'missing {miss[:3]} ({str(res[True])[:120]})', inp)


def same_table_two_databases_case(ctx):
    """Two data-source sections, each with its own SQLite database; both databases have a table `person` with the same columns and
    different rows, both mapping files (own triples-map identifiers) map it the same way: the configuration with both sections means
    the union of the sections alone (rules of the two sections land in one mapping group: same templates and predicates)."""
    import sqlite3
    d = os.path.join(ctx.tmp, 'twodb')
    os.makedirs(d, exist_ok=True)
    secs = {}
    for br, rows in (('north', [('1', 'ann'), ('2', 'bob')]), ('south', [('3', 'cy'), ('2', 'dee')])):
        dbp = os.path.join(d, br + '.db')
        if os.path.exists(dbp):
            os.remove(dbp)
        con = sqlite3.connect(dbp)
        con.execute('create table person (id text, name text)')
        con.executemany('insert into person values (?, ?)', rows)
        con.commit()
        con.close()
        mp = os.path.join(d, br + '.ttl')
        with open(mp, 'w') as f:
            f.write(R2 + f'<http://ex.org/m/{br}#P> rr:logicalTable [ rr:tableName "person" ]; '
                    'rr:subjectMap [ rr:template "http://ex.org/person/{id}" ]; '
                    'rr:predicateObjectMap [ rr:predicate ex:name; rr:objectMap [ rr:column "name" ] ] .\n')
        secs[br] = f'[{br}]\nmappings={mp}\ndb_url=sqlite:///{dbp}\n'
    alone = {br: run_cfg(CONF1 + secs[br]) for br in secs}
    ctx.case(['two-databases'], nontrivial=True, kind='two sections over two databases with the same table')
    ctx.traces_validated += 1
    inp = {'kind': 'two-databases'}
    if any(r[0] != 'ok' or len(r[1]) != 2 for r in alone.values()):
        ctx.violation(f'a section alone does not give its two statements: {str(alone)[:300]}', inp)
        return
    union = sorted(set(alone['north'][1]) | set(alone['south'][1]))
    for order in (('north', 'south'), ('south', 'north')):
        for mode in ('PARTIAL-AGGREGATIONS', 'NO'):
            both = run_cfg(CONF1.replace('number_of_processes=1', f'number_of_processes=1\nmapping_partitioning={mode}')
                           + ''.join(secs[b] for b in order))
            if both != ('ok', union):
                ctx.violation(f'two sections over two databases with the same table ({order}, {mode}) do not give the union of the '
                              f'sections alone: {str(both)[:240]} instead of {union}', inp)
                return


def run(ctx, lean, findings):
    rng = ctx.rng
    drv = ctx.get_driver() if ctx.model_available else None
    status = drv.call('c12_status') if drv else {}
    if not drv:
        ctx.notes.append('driver unavailable: only the direct oracle is exercised')
    open_ids = {f['id'] for f in findings if f.get('status') == 'open'}

    # recorded findings first (their replay inputs are also the first candidates of the failing-input search)
    for f in findings:
        if f.get('property') == PROP and f.get('status') == 'open' and f.get('replay'):
            if replay_input(ctx, f['replay'], os.path.join(ctx.tmp, 'kf_' + f['id'])):
                ctx.known(f['id'], f['what'])
            else:
                ctx.notes.append(f'finding {f["id"]} no longer reproduces')
    # the engine and the generated call order must tell the same story about C12_F1 / C12_F2
    if drv:
        secs, tables, columns = materialise_input(os.path.join(ctx.tmp, 'w1'), witness_join())
        kind, res = run_cfg(sg.write_config(os.path.join(ctx.tmp, 'w1'), secs, fmt='N-TRIPLES', tag='w'))
        rejected = kind != 'ok'
        ctx.case(['witness_join'], nontrivial=True, kind='witness: same identifiers in two sections')
        if rejected != bool(status.get('validates_before_renumbering')):
            ctx.disagree('call order: validate_mappings before/after the renumbering', witness_join(),
                         'rejects' if status.get('validates_before_renumbering') else 'merges silently', 'rejects' if rejected else 'merges silently')
        if not rejected and 'C12_F1' not in open_ids:
            ctx.violation('a triples-map identifier declared in two data-source sections is not rejected', witness_join(), finding=None)
        secs, tables, columns = materialise_input(os.path.join(ctx.tmp, 'w2'), witness_clash())
        kind, res = run_cfg(sg.write_config(os.path.join(ctx.tmp, 'w2'), secs, fmt='N-TRIPLES', tag='w'))
        clash = kind == 'ok' and any('<#TM' in x for x in res)
        ctx.case(['witness_clash'], nontrivial=True, kind='witness: constant equal to a triples-map IRI')
        if clash == bool(status.get('guarded')):
            ctx.disagree('_expand_rml_star: values rewritten unconditionally / only for referencing maps', witness_clash(),
                         'guarded' if status.get('guarded') else 'unconditional', res)
        if clash and 'C12_F2' not in open_ids:
            ctx.violation('a constant that equals a triples-map IRI is rewritten to an internal rule id', witness_clash(), finding=None)

    relative_ids_case(ctx)
    shared_parent_case(ctx)
    pomless_section_case(ctx)
    shared_subject_map_case(ctx)
    same_table_two_databases_case(ctx)

    n = ctx.budget(72, 2400) * (3 if ctx.escalate else 1)
    cap = 70 if ctx.tier == 'quick' else 690
    import concurrent.futures as cf
    import multiprocessing as mp
    tasks = [({3: 'dup', 6: 'nodup'}.get(it % 8, 'union'), rng.randrange(1 << 60), os.path.join(ctx.tmp, f'c{it}')) for it in range(n)]
    workers = max(2, min(8, (os.cpu_count() or 4) // 2))
    with cf.ProcessPoolExecutor(max_workers=workers, mp_context=mp.get_context('fork')) as ex:
        futs = [ex.submit(work, *t) for t in tasks]
        try:
            for it, f in enumerate(futs):
                absorb(ctx, drv, f.result())
                if not ctx.escalate and ctx.elapsed() > cap:
                    ctx.notes.append(f'time cap reached after {it + 1} cases')
                    break
        finally:
            for f in futs:
                f.cancel()


def replay(ctx, data):
    if data['input'].get('kind') == 'shared-parent':
        before = len(ctx.violations)
        shared_parent_case(ctx)
        return len(ctx.violations) > before
    if data['input'].get('kind') in ('shared-subject-map', 'two-databases'):
        before = len(ctx.violations)
        (shared_subject_map_case if data['input']['kind'] == 'shared-subject-map' else same_table_two_databases_case)(ctx)
        return len(ctx.violations) > before
    if data['input'].get('kind') == 'pomless-section':
        before = len(ctx.violations)
        pomless_section_case(ctx)
        return len(ctx.violations) > before
    if data['input'].get('kind') == 'relative-ids':
        before = len(ctx.violations)
        relative_ids_case(ctx)
        return len(ctx.violations) > before
    return replay_input(ctx, data['input'], os.path.join(ctx.tmp, 'rp'))
