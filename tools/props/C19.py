"""C19 — every configuration is honoured or rejected, never silently misread."""
import logging
import os
import re
import subprocess
import sys

PROP = 'C19'
LEAN_TARGETS = ['MorphKgc.Props.C19']
GEN_KEYS = ['config']
M = 'MorphKgc.Props.C19'
THEOREMS = [{'name': f'Props.C19.{n}', 'module': M} for n in [
    'sc_entries_nodup', 'sc_checks_strict', 'sc_checks_nodup', 'sc_enum_options', 'sc_validValues', 'sc_enum_defaulted',
    'sc_loader_steps', 'sc_bool_nodup', 'sc_bool_table', 'sc_getter_kinds', 'sc_na_sep',
    'C19_enum_all', 'C19_enum_stored', 'C19_enum', 'C19_enum_case', 'C19_enum_documented', 'C19_enum_doc',
    'C19_completed_value', 'C19_defaults_absent', 'C19_defaults_empty_nonvalid', 'C19_defaults_empty_valid',
    'C19_defaults_provided', 'C19_parse_value', 'C19_parse_error',
    'C19_F2_witness', 'C19_defaults_documented_partial', 'emptyTakesDefault_sound', 'C19_empty_partial', 'C19_empty_value_kept',
    'C19_empty_full_fails', 'C19_F1_fixed', 'C19_F3_witness',
    'C19_bool', 'C19_bool_reject', 'C19_int_reject',
    'C19_idempotent_defaults', 'C19_idempotent_validate', 'C19_idempotent_parse', 'C19_file_vs_string',
    'C19_na', 'C19_format', 'C19_verbatim', 'C19_safe_verbatim', 'C19_missing_mapping']]
RULE = ('correspondence (I8): a case is one assignment of the CONFIGURATION options (each absent / empty / valid in random letter case / '
        'invalid, random case of the option name, white space around the value), loaded by the real load_config_from_argument '
        'both from a file and from a string and by the Lean model; compared: acceptance, the option named by the ValueError, the '
        'ordered items of the section, every getter (value or exception kind) and get_output_file_path. '
        'non-trivial = at least one option is present; distinct = the rendered INI text. '
        'Direct oracle (real engine only): every documented value of every enumerated option in generated letter cases, generated '
        'near-misses, absent/empty for every documented option against Spec/ConfigDoc, boolean/int tokens, mapping path lists on a '
        'real directory tree, and materialize_set on a nine-row CSV for na_values / safe_percent_encoding / only_printable_chars / '
        'output_format / file_path with expectations computed independently in Python.')
TRUSTED_BASE = [
    'modelled, not verified: configparser (INI syntax, ExtendedInterpolation, DEFAULT section, duplicate detection, option-name '
    'lower-casing, value stripping, BOOLEAN_STATES read from the running interpreter), int(), pathlib.Path.with_suffix, '
    'os.path.isfile/isdir/listdir; create_dirs_in_path and configure_logger are side effects outside the model',
    'case mapping and strip in the model are ASCII-only; Python str.upper() folds a few non-ASCII characters into ASCII letters '
    '(U+0131, U+017F, U+FB00..FB06): such spellings are accepted by the engine as letter-case variants (noted, not claimed)',
    'Spec/ConfigDoc.lean: my reading of the documentation shipped in /repo (examples/configuration-file/default_config.ini, README) '
    'and, for the lists of valid values, of the on-line manual that is not available in the sandbox',
    'tools/gen/C19.py recognises the shapes of validate_configuration_section, complete_configuration_with_defaults, '
    '_is_option_provided, the getters, get_output_file_path, get_mappings_files and the loaders syntactically',
]
ASSUMPTIONS = [
    'option values contain no "$" (ExtendedInterpolation syntax) and no line breaks; no DEFAULT section; option names unique',
    'reading: for the list-valued option na_values an explicitly empty value is a value (the one-token list [""]) and is honoured, '
    'not defaulted (Spec.ConfigDoc.emptyTakesDefault); every other documented option must behave as absent when left empty',
    'unknown option NAMES (only_printable_characters, logs_file of default_config.ini, typos) are ignored by configparser; the '
    'property speaks of the values of documented options, so this is noted, not claimed',
    'getboolean/getint reject at first use of the getter, not at load time: counted as "rejected"',
]

SPEC_FALLBACK = {
    'options': [
        {'name': 'na_values', 'default': {'value': ',#N/A,N/A,#N/A N/A,n/a,NA,<NA>,#NA,NULL,null,NaN,nan,None'}, 'empty_takes_default': False},
        {'name': 'output_file', 'default': {'value': 'knowledge-graph.nt'}, 'empty_takes_default': True},
        {'name': 'output_dir', 'default': {'value': ''}, 'empty_takes_default': True},
        {'name': 'output_format', 'default': {'value': 'N-TRIPLES'}, 'empty_takes_default': True},
        {'name': 'only_printable_chars', 'default': {'value': 'no'}, 'empty_takes_default': True},
        {'name': 'safe_percent_encoding', 'default': {'value': ''}, 'empty_takes_default': True},
        {'name': 'mapping_partitioning', 'default': {'value': 'PARTIAL-AGGREGATIONS'}, 'empty_takes_default': True},
        {'name': 'infer_sql_datatypes', 'default': {'value': 'no'}, 'empty_takes_default': True},
        {'name': 'number_of_processes', 'default': {'twice_cpu_count': True}, 'empty_takes_default': True},
        {'name': 'logging_level', 'default': {'value': 'INFO'}, 'empty_takes_default': True},
        {'name': 'logging_file', 'default': {'value': ''}, 'empty_takes_default': True},
    ],
    'enum': [{'option': 'output_format', 'values': ['N-TRIPLES', 'N-QUADS']},
             {'option': 'logging_level', 'values': ['DEBUG', 'INFO', 'WARNING', 'ERROR', 'CRITICAL', 'NOTSET']},
             {'option': 'mapping_partitioning', 'values': ['PARTIAL-AGGREGATIONS', 'MAXIMAL', 'NO', 'FALSE', 'OFF', '0']}],
    'boolean_options': ['only_printable_chars', 'infer_sql_datatypes'],
    'true': ['1', 'yes', 'true', 'on'], 'false': ['0', 'no', 'false', 'off'],
    'na_separator': ',', 'extensions': [['N-TRIPLES', '.nt'], ['N-QUADS', '.nq']],
}

GETTER_OF = {  # documented option -> the getter through which the engine consumes it
    'na_values': 'get_na_values', 'output_file': 'get_output_file', 'output_dir': 'get_output_dir',
    'output_format': 'get_output_format', 'only_printable_chars': 'only_write_printable_characters',
    'safe_percent_encoding': 'get_safe_percent_encoding', 'mapping_partitioning': 'get_mapping_partitioning',
    'infer_sql_datatypes': 'infer_sql_datatypes', 'number_of_processes': 'get_number_of_processes',
    'logging_level': 'get_logging_level', 'logging_file': 'get_logging_file',
}
# characters whose str.upper() is ASCII although they are not ASCII (accepted by the engine as case variants)
FOLDING = {'i': 'ı', 's': 'ſ', 'ff': 'ﬀ', 'fi': 'ﬁ', 'st': 'ﬆ'}
LOOKALIKE = {'A': 'А', 'E': 'Е', 'O': 'О', 'I': 'І', 'N': 'Ｎ', 'T': 'Τ', 'S': 'Ѕ',
             'a': 'а', 'e': 'е', 'o': 'о', 'i': 'і', 'n': 'ｎ', '-': '‐', '0': '０'}


# ----------------------------------------------------------------------------------------------------------------
# the real engine
# ----------------------------------------------------------------------------------------------------------------

def quiet_logging():
    """`configure_logger` calls logging.basicConfig, which is a no-op once the root logger has a handler"""
    root = logging.getLogger()
    if not any(isinstance(h, logging.NullHandler) for h in root.handlers):
        root.addHandler(logging.NullHandler())
    root.setLevel(logging.CRITICAL)


def load_real(entry):
    from morph_kgc.args_parser import load_config_from_argument
    quiet_logging()
    try:
        return load_config_from_argument(entry), None
    except ValueError as e:
        m = re.match(r'(\w+) value `', str(e))
        return None, {'kind': 'ValueError', 'option': m.group(1) if m else None}
    except Exception as e:
        err = {'kind': type(e).__name__}
        if type(e).__name__ == 'NoOptionError':
            err['option'] = getattr(e, 'option', None)
        return None, err


def call(cfg, method, *a):
    try:
        r = getattr(cfg, method)(*a)
        if isinstance(r, list):
            r = sorted(r)
        return {'ok': r}
    except Exception as e:
        return {'err': type(e).__name__}


def canon_real(entry, methods):
    cfg, err = load_real(entry)
    if cfg is None:
        return {'accepted': False, 'error': err}
    out = {'accepted': True, 'items': [[k, v] for k, v in cfg.items('CONFIGURATION')],
           'getters': {m: call(cfg, m) for m in methods}}
    if cfg.get_output_dir() == '':
        out['output_file_path'] = call(cfg, 'get_output_file_path').get('ok')
    return out


def canon_model(drv, options, loader, cpu, methods):
    r = drv.call('config_eval', options=options, loader=loader, cpu=cpu)
    if not r['accepted']:
        return {'accepted': False, 'error': {k: v for k, v in r['error'].items() if k in ('kind', 'option')}}
    g = {}
    for e in r['getters']:
        res = dict(e['result'])
        if isinstance(res.get('ok'), list):
            res['ok'] = sorted(res['ok'])
        g[e['method']] = res
    out = {'accepted': True, 'items': r['items'], 'getters': {m: g.get(m) for m in methods}}
    if dict(map(tuple, r['items'])).get('output_dir') == '':
        out['output_file_path'] = r['output_file_path']
    return out


def render(options, rng=None, ds=''):
    lines = ['[CONFIGURATION]']
    for k, v in options:
        d = rng.choice(['=', ' = ', ':', ' : ', '=']) if rng else '='
        lines.append(f'{k}{d}{v}')
    return '\n'.join(lines) + '\n' + ds


def rand_case(rng, s):
    return ''.join(c.upper() if rng.random() < 0.5 else c.lower() for c in s)


def pad(rng, s):
    ws = ['', ' ', '  ', '\t', ' \t']
    return rng.choice(ws) + s + rng.choice(ws)


def near_misses(rng, d):
    """strings close to the documented value `d` that are NOT letter-case variants of it"""
    out = set()
    for a, b in (('-', '_'), ('-', ''), ('-', ' '), ('-', '--')):
        if a in d:
            out.add(d.replace(a, b))
    i = rng.randrange(len(d))
    out.update({d + d[-1], d[:i] + d[i + 1:], d + 'S', 'X' + d, d[:i] + ' ' + d[i:], d + '.', d + ',', d[::-1], d + ' ' + d,
                d.lower() + 'o', d[0], d[:-1]})
    for k, v in LOOKALIKE.items():
        if k in d:
            out.add(d.replace(k, v, 1))
    out.discard(d)
    return sorted(x for x in out if x.strip() and x.strip().upper() != d)


# ----------------------------------------------------------------------------------------------------------------
# direct oracles: each takes an input dict and returns None (property holds) or (what, finding-id-or-None)
# ----------------------------------------------------------------------------------------------------------------

def cfg_text(opts, ds=''):
    """exactly the options given: logging is neutralised by `quiet_logging`, so no logging_level needs to be injected"""
    return render([tuple(x) for x in opts], ds=ds)


def o_enum(ctx, inp):
    """{option, value, expect: documented spelling or None}"""
    cfg, err = load_real(cfg_text([(inp['option'], inp['value'])]))
    if inp['expect'] is not None:
        if cfg is None:
            return f'{inp["option"]}={inp["value"]!r} is a letter-case variant of the documented {inp["expect"]!r} but is rejected ({err})', None
        got = call(cfg, GETTER_OF[inp['option']]).get('ok')
        if got != inp['expect']:
            return f'{inp["option"]}={inp["value"]!r} accepted but stored as {got!r}, not as {inp["expect"]!r}', None
        return None
    if cfg is not None:
        return (f'{inp["option"]}={inp["value"]!r} is not a documented value but is accepted '
                f'(stored {call(cfg, GETTER_OF[inp["option"]]).get("ok")!r})'), None
    return None


def effective(cfg, option, cpu):
    """what the engine will do for `option`, in the terms in which the default is documented"""
    if option == 'output_file':
        return call(cfg, 'get_output_file_path')
    if option == 'na_values':
        return call(cfg, 'get_na_values')
    return call(cfg, GETTER_OF[option])


def documented_effective(spec_opt, spec, cpu):
    d = spec_opt['default']
    name = spec_opt['name']
    if 'twice_cpu_count' in d:
        return {'ok': 2 * cpu}
    v = d['value']
    if name == 'na_values':
        return {'ok': sorted(set(v.split(spec['na_separator'])))}
    if name in spec['boolean_options']:
        return {'ok': v.lower() in spec['true']}
    return {'ok': v}


def o_default(ctx, inp):
    """{option, state: absent|empty, others: [[k,v],...]}; the documented default must be in force"""
    spec, cpu = inp['spec'], inp['cpu']
    so = next(o for o in spec['options'] if o['name'] == inp['option'])
    opts = [tuple(x) for x in inp.get('others', [])]
    if inp['state'] == 'empty':
        opts.append((inp['option'], inp.get('blank', '')))
    cfg, err = load_real(cfg_text(opts))
    want = documented_effective(so, spec, cpu)
    if inp['option'] == 'output_file':
        # the documented default names the file written under the default format; another format changes the extension only
        fmt = next((v.strip().upper() for k, v in opts if k.lower() == 'output_format' and v.strip()), None)
        ext = dict(map(tuple, spec['extensions']))
        if fmt in ext and want['ok'].endswith(ext['N-TRIPLES']):
            want = {'ok': want['ok'][:-len(ext['N-TRIPLES'])] + ext[fmt]}
    if inp['state'] == 'empty' and not so['empty_takes_default']:
        want = {'ok': ['']}          # na_values= : honoured literally, the one-token list
    fid = None
    if cfg is None:
        if inp['option'] == 'mapping_partitioning' and inp['state'] == 'empty' and err == {'kind': 'ValueError', 'option': 'mapping_partitioning'}:
            fid = 'C19_F3'
        return f'{inp["option"]} {inp["state"]}: the configuration is rejected ({err}) instead of taking the documented default', fid
    got = effective(cfg, inp['option'], cpu)
    if got != want:
        if inp['option'] == 'output_file' and inp['state'] == 'empty' and got.get('ok') in ('output_file.nt', 'output_file.nq'):
            fid = 'C19_F1'
        if inp['option'] == 'na_values' and inp['state'] == 'absent' and got == {'ok': ['', 'nan']}:
            fid = 'C19_F2'
        return f'{inp["option"]} {inp["state"]}: effective value {got}, documented: {want}', fid
    return None


def o_bool(ctx, inp):
    """{option, value, expect: True|False|None}"""
    cfg, err = load_real(cfg_text([(inp['option'], inp['value'])]))
    if cfg is None:
        return f'{inp["option"]}={inp["value"]!r}: load fails with {err}', None
    got = call(cfg, GETTER_OF[inp['option']])
    if inp['expect'] is None:
        if 'ok' in got:
            return f'{inp["option"]}={inp["value"]!r} is not a boolean spelling but is read as {got["ok"]!r}', None
        return None if got == {'err': 'ValueError'} else (f'{inp["option"]}={inp["value"]!r}: {got}', None)
    if got != {'ok': inp['expect']}:
        return f'{inp["option"]}={inp["value"]!r} must be read as {inp["expect"]}, got {got}', None
    return None


def o_int(ctx, inp):
    """{value, expect: int|None}"""
    cfg, err = load_real(cfg_text([('number_of_processes', inp['value'])]))
    if cfg is None:
        return f'number_of_processes={inp["value"]!r}: load fails with {err}', None
    got = call(cfg, 'get_number_of_processes')
    if inp['expect'] is None:
        return (f'number_of_processes={inp["value"]!r} is not an integer but is read as {got}', None) if 'ok' in got else None
    return None if got == {'ok': inp['expect']} else (f'number_of_processes={inp["value"]!r}: expected {inp["expect"]}, got {got}', None)


def o_file_vs_string(ctx, inp):
    """{text}: the same text as a file and as a string"""
    methods = inp['methods']
    p = os.path.join(ctx.tmp, 'fvs.ini')
    with open(p, 'w', encoding='utf-8') as f:
        f.write(inp['text'])
    a = canon_real(p, methods)
    b = canon_real(inp['text'], methods)
    if a != b:
        diff = {k: (a.get(k), b.get(k)) for k in set(a) | set(b) if a.get(k) != b.get(k)}
        return f'the same configuration behaves differently as a file and as a string: {str(diff)[:400]}', None
    return None


# --- end to end -------------------------------------------------------------------------------------------------

ROWS = [('1', 'Alice', 'a/b:c d'), ('2', 'NULL', 'x&y'), ('3', 'NULLABLE', 'p#q?r'), ('4', '', 'z'), ('5', 'nan', 'w~_.-'),
        ('6', 'Bo\x07b\u200b', '\u00e9=1'), ('7', 'N/A', 'k;l'), ('8', 'n/a ', '@!'),
        # non-printable characters that the literal escape chain / the percent-encoding turn into printable text: the filter of
        # only_printable_chars has to see the VALUE, not the assembled term
        ('9', 'ta\tb\x1bc', 'c\x01d\u200be')]
MAPPING = '''@prefix rr: <http://www.w3.org/ns/r2rml#> .
@prefix rml: <http://semweb.mmlab.be/ns/rml#> .
@prefix ql: <http://semweb.mmlab.be/ns/ql#> .
@prefix ex: <http://ex/> .
<http://ex/TM%(n)s> rml:logicalSource [ rml:source "%(src)s" ; rml:referenceFormulation ql:CSV ] ;
  rr:subjectMap [ rr:template "http://ex/s/{id}" ; rr:graph ex:g ] ;
  rr:predicateObjectMap [ rr:predicate ex:%(pred)s ; rr:objectMap [ %(om)s ] ] .
'''


def e2e_files(ctx):
    d = os.path.join(ctx.tmp, 'e2e')
    if not os.path.isdir(d):
        os.makedirs(os.path.join(d, 'mdir', 'sub'))
        import csv
        for name, rows in (('data.csv', ROWS), ('other.csv', [('91', 'Zed', 'zz')])):
            with open(os.path.join(d, name), 'w', encoding='utf-8', newline='') as f:
                w = csv.writer(f)
                w.writerow(['id', 'name', 'code'])
                w.writerows(rows)
        src = os.path.join(d, 'data.csv')
        for fn, pred, om, s in (('name.ttl', 'name', 'rml:reference "name"', src), ('link.ttl', 'link', 'rr:template "http://ex/o/{code}"', src),
                                ('mdir/a.ttl', 'name', 'rml:reference "name"', src), ('mdir/b.ttl', 'link', 'rr:template "http://ex/o/{code}"', src),
                                ('mdir/sub/c.ttl', 'deep', 'rml:reference "id"', src),
                                ('nosrc.ttl', 'name', 'rml:reference "name"', os.path.join(d, 'does-not-exist.csv'))):
            with open(os.path.join(d, fn), 'w', encoding='utf-8') as f:
                f.write(MAPPING % {'n': re.sub(r'\W', '', fn), 'src': s, 'pred': pred, 'om': om})
    return d


def pct(s, safe):
    out = []
    for ch in s:
        if (ch.isascii() and (ch.isalnum() or ch in '-._~')) or ch in safe:
            out.append(ch)
        else:
            out.append(''.join('%%%02X' % b for b in ch.encode('utf-8')))
    return ''.join(out)


def lit_escape(s):
    for a, b in (('\\', '\\\\'), ('\n', '\\n'), ('\t', '\\t'), ('\b', '\\b'), ('\f', '\\f'), ('\r', '\\r'), ('"', '\\"'), ("'", "\\'")):
        s = s.replace(a, b)
    return s


NONPRINTABLE = set('\x01\x07\x7f\u200b\x1b\t')


def expected_triples(rows, preds, na, safe, printable_only, quads):
    """the documented effect of the options on the nine-row source, computed without the engine"""
    g = ' <http://ex/g>' if quads else ''
    out = set()
    for rid, name, code in rows:
        if rid in na:
            continue
        if 'name' in preds and name not in na:
            v = ''.join(c for c in name if c not in NONPRINTABLE) if printable_only else name
            out.add(f'<http://ex/s/{pct(rid, safe)}> <http://ex/name> "{lit_escape(v)}"{g}')
        if 'link' in preds and code not in na:
            v = ''.join(c for c in code if c not in NONPRINTABLE) if printable_only else code
            out.add(f'<http://ex/s/{pct(rid, safe)}> <http://ex/link> <http://ex/o/{pct(v, safe)}>{g}')
    return out


def materialize(text):
    import morph_kgc
    quiet_logging()
    try:
        return {t.strip() for t in morph_kgc.materialize_set(text)}, None
    except Exception as e:
        return None, type(e).__name__


def o_behaviour(ctx, inp):
    """{options: [[k,v]], na: [...]|None, safe, printable, quads, file_path: None|'data'|'other', mapping}"""
    d = e2e_files(ctx)
    ds = f'[DS]\nmappings={os.path.join(d, inp["mapping"])}\n'
    rows = ROWS
    if inp.get('file_path') == 'other':
        ds += f'file_path={os.path.join(d, "other.csv")}\n'
        rows = [('91', 'Zed', 'zz')]
    elif inp.get('file_path') == 'data':
        ds += f'file_path={os.path.join(d, "data.csv")}\n'
    text = render([('number_of_processes', '1'), ('logging_level', 'CRITICAL')] + [tuple(x) for x in inp['options']], ds=ds)
    got, err = materialize(text)
    if err:
        return f'materialize_set raises {err} for a valid configuration {inp["options"]}', None
    na = inp['na'] if inp['na'] is not None else sorted(set(inp['spec_na'].split(',')))
    want = expected_triples(rows, ['name'] if inp['mapping'] in ('name.ttl', 'nosrc.ttl') else ['link'], na, inp['safe'],
                            inp['printable'], inp['quads'])
    if got != want:
        fid = None
        if inp['na'] is None:
            # na_values absent: is the difference exactly the recorded default `,nan`?
            alt = expected_triples(rows, ['name'] if inp['mapping'] in ('name.ttl', 'nosrc.ttl') else ['link'], ['', 'nan'],
                                   inp['safe'], inp['printable'], inp['quads'])
            if got == alt:
                fid = 'C19_F2'
        return (f'options {inp["options"]} file_path={inp.get("file_path")}: result differs from the documented behaviour; '
                f'unexpected {sorted(got - want)[:4]} missing {sorted(want - got)[:4]}'), fid
    return None


def o_mappings(ctx, inp):
    """{elements: [path strings relative to the e2e dir, written verbatim], sep}"""
    d = e2e_files(ctx)
    elems = [e.replace('@', d + '/') for e in inp['elements']]
    value = ','.join(elems)
    text = render([('number_of_processes', '1'), ('logging_level', 'CRITICAL')], ds=f'[DS]\nmappings={value}\n')
    got, err = materialize(text)
    # configparser strips the whole value, so the first element loses leading and the last trailing white space
    elems = value.strip().split(',')

    def preds_of(p):
        if os.path.isfile(p):
            return {'name'} if os.path.basename(p) in ('name.ttl', 'a.ttl') else {'link'} if os.path.basename(p) in ('link.ttl', 'b.ttl') else {'deep'}
        if os.path.isdir(p):
            s = set()
            for fn in os.listdir(p):
                if os.path.isfile(os.path.join(p, fn)):
                    s |= preds_of(os.path.join(p, fn))
            return s
        return None
    hard_missing = [e for e in elems if preds_of(e) is None and preds_of(e.strip()) is None and e.strip() != '']
    soft = [e for e in elems if preds_of(e) is None and (e.strip() == '' or preds_of(e.strip()) is not None)]
    if hard_missing:
        if err is None:
            return f'mappings={inp["elements"]}: {hard_missing} do not exist but no exception is raised', None
        ctx.bump('missing mapping path raises ' + err)      # the property demands an exception, not a particular class
        return None
    if err is not None:
        if soft and err == 'FileNotFoundError':
            return None          # rejected loudly: fine
        return f'mappings={inp["elements"]}: every path exists but {err} is raised', None
    must = set()
    for e in elems:
        must |= preds_of(e) or preds_of(e.strip()) or set()
    have = {m.group(1) for t in got for m in [re.search(r'<http://ex/(name|link|deep)>', t)] if m}
    if have != must:
        return f'mappings={inp["elements"]}: predicates generated {sorted(have)}, the listed mapping files define {sorted(must)}', None
    return None


ORACLES = {'enum': o_enum, 'default': o_default, 'bool': o_bool, 'int': o_int, 'file_vs_string': o_file_vs_string,
           'behaviour': o_behaviour, 'mappings': o_mappings}


def judge(ctx, inp, nontrivial=True):
    res = ORACLES[inp['kind']](ctx, inp)
    small = {k: v for k, v in inp.items() if k not in ('spec', 'methods')}
    ctx.case(small, nontrivial=nontrivial, kind='oracle:' + inp['kind'], sample={'input': small, 'verdict': res[0] if res else 'holds'})
    if res:
        ctx.violation(res[0], inp, finding=res[1])
    return res


# ----------------------------------------------------------------------------------------------------------------
# generators
# ----------------------------------------------------------------------------------------------------------------

def gen_value(rng, option, spec, tmp):
    """(state, raw value) for one option; state in valid/invalid/empty"""
    enum = {e['option']: e['values'] for e in spec['enum']}
    r = rng.random()
    if r < 0.15:
        return 'empty', rng.choice(['', ' ', '\t'])
    valid = r < 0.7
    if option in enum:
        d = rng.choice(enum[option])
        return ('valid', pad(rng, rand_case(rng, d))) if valid else ('invalid', pad(rng, rand_case(rng, rng.choice(
            [x for x in near_misses(rng, d) if x.isascii()] + ['maybe', 'TRUE', 'n-triples,n-quads', 'INFOO', 'partial_aggregations']))))
    if option in spec['boolean_options']:
        return ('valid', pad(rng, rand_case(rng, rng.choice(spec['true'] + spec['false'])))) if valid else \
            ('invalid', pad(rng, rng.choice(['maybe', '2', 'yess', 'y', 'n', 'tru e', 'ja', '-1', 'on off', 'True.', '00'])))
    if option == 'number_of_processes':
        return ('valid', pad(rng, rng.choice(['1', '2', '007', '+3', '1_0', '-2', '16', '0']))) if valid else \
            ('invalid', pad(rng, rng.choice(['abc', '1.5', '1__0', '_1', '1_', '0x10', '2 3', '--1', '+', '1e3', 'four'])))
    if option == 'na_values':
        toks = [rng.choice(['NULL', 'N/A', 'nan', '', ' ', 'n/a', '#N/A', 'None', '-', 'a b', 'NULL']) for _ in range(rng.randrange(1, 6))]
        return 'valid', pad(rng, ','.join(toks))
    if option == 'safe_percent_encoding':
        return 'valid', pad(rng, ''.join(rng.choice(':/#?&=@!;~+,') for _ in range(rng.randrange(1, 5))))
    if option == 'output_file':
        return 'valid', pad(rng, rng.choice(['kg', 'out.nt', 'a.b.c', 'my-graph.ttl', '.hidden', 'res/x.nq', 'x.', 'UPPER.NT', 'a b.txt', 'kg.nq']))
    if option == 'output_dir':
        return 'valid', rng.choice(['', 'outdir', os.path.join(tmp, 'o')])
    if option == 'logging_file':
        return 'valid', rng.choice([os.path.join(tmp, 'logs', 'l.log'), 'c19.log' if False else os.path.join(tmp, 'x.log')])
    return 'valid', 'x'


def gen_assignment(rng, spec, tmp, focus=None):
    names = [o['name'] for o in spec['options']]
    opts, states = [], {}
    for n in names:
        p_present = 0.85 if n == focus else (0.0 if focus and rng.random() < 0.6 else 0.45)
        if rng.random() >= p_present:
            states[n] = 'absent'
            continue
        st, v = gen_value(rng, n, spec, tmp)
        states[n] = st
        opts.append([rand_case(rng, n) if rng.random() < 0.3 else n, v])
    rng.shuffle(opts)
    return opts, states


# ----------------------------------------------------------------------------------------------------------------

def run(ctx, lean, findings):
    rng = ctx.rng
    drv = ctx.get_driver() if ctx.model_available else None
    import multiprocessing as mp
    cpu = mp.cpu_count()
    k = 4 if ctx.escalate else 1
    gen = lean['gen'].get('config', {})
    methods = [g[0] for g in gen.get('getters', [])] or sorted(set(GETTER_OF.values()))
    spec = SPEC_FALLBACK
    if drv:
        try:
            spec = drv.call('config_spec')
        except Exception as e:  # the specification does not depend on /repo: only an old driver lacks the op
            ctx.notes.append(f'config_spec unavailable ({e!r}): built-in copy of Spec/ConfigDoc used')
    else:
        ctx.notes.append('driver unavailable: built-in copy of Spec/ConfigDoc used, no correspondence')
    enum = {e['option']: e['values'] for e in spec['enum']}

    # ---- (1) correspondence I8 + file-vs-string on generated assignments ------------------------------------------
    names = [o['name'] for o in spec['options']]
    for i in range(ctx.budget(350, 6000) * k):
        focus = names[i % len(names)] if i % 3 else None
        opts, states = gen_assignment(rng, spec, ctx.tmp, focus)
        text = render(opts, rng)
        p = os.path.join(ctx.tmp, 'case.ini')
        with open(p, 'w', encoding='utf-8') as f:
            f.write(text)
        rf = canon_real(p, methods)
        rs = canon_real(text, methods)
        ctx.case(text, nontrivial=bool(opts), kind='I8:' + ('accepted' if rf['accepted'] else 'rejected:' + str(rf['error'].get('option'))),
                 sample={'options': opts, 'impl': {'accepted': rf['accepted'], 'error': rf.get('error')}})
        for st in states.values():
            ctx.bump('state:' + st)
        if rf != rs:
            diff = {kk: (rf.get(kk), rs.get(kk)) for kk in set(rf) | set(rs) if rf.get(kk) != rs.get(kk)}
            ctx.violation(f'the same configuration behaves differently as a file and as a string: {str(diff)[:400]}',
                          {'kind': 'file_vs_string', 'text': text, 'methods': methods})
        if drv:
            for loader, real in (('file', rf), ('string', rs)):
                m = canon_model(drv, opts, loader, cpu, methods)
                if m != real:
                    ctx.disagree('I8 Config (' + loader + ')', {'options': opts}, m, real)
            ctx.traces_validated += 1

    # ---- (2) enumerated options on the real engine ------------------------------------------------------------------------
    folded = 0
    for o, vals in enum.items():
        for d in vals:
            variants = {d, d.lower(), d.upper(), d.capitalize(), d.swapcase()} | {rand_case(rng, d) for _ in range(ctx.budget(4, 40) * k)}
            for v in sorted(variants):
                judge(ctx, {'kind': 'enum', 'option': o, 'value': v, 'expect': d})
                judge(ctx, {'kind': 'enum', 'option': o, 'value': pad(rng, v), 'expect': d})
            for v in near_misses(rng, d)[:ctx.budget(12, 40) * k]:
                judge(ctx, {'kind': 'enum', 'option': o, 'value': rand_case(rng, v) if v.isascii() else v, 'expect': None})
            # spellings that Python's str.upper() folds into the documented value (noted, see TRUSTED_BASE)
            for a, b in FOLDING.items():
                if a.upper() in d:
                    v = d.lower().replace(a, b, 1)
                    cfg, err = load_real(cfg_text([(o, v)]))
                    folded += cfg is not None
                    ctx.bump('note: non-ASCII spelling folded by str.upper(): ' + ('accepted' if cfg is not None else 'rejected'))
        for v in ['N-TRIPLE', 'ntriples', 'n_quads', 'MAXIMAL,', 'partial_aggregations', 'infoo', 'yes', 'none', 'TURTLE', 'WARN', 'FATAL',
                  'TRUE', '1', 'PARTIAL', 'on', 'no partitioning', 'N-TRIPLES N-QUADS', '"INFO"', "'MAXIMAL'", 'N‑QUADS']:
            if v.upper() not in vals:
                judge(ctx, {'kind': 'enum', 'option': o, 'value': v, 'expect': None})
    if folded:
        ctx.notes.append(f'{folded} spellings with U+0131/U+017F/ligatures are accepted as letter-case variants (str.upper folding)')

    # ---- (3) defaults: absent / empty, alone and in combinations ----------------------------------------------------------------
    for so in spec['options']:
        for state in ('absent', 'empty'):
            judge(ctx, {'kind': 'default', 'option': so['name'], 'state': state, 'others': [], 'spec': spec, 'cpu': cpu})
        judge(ctx, {'kind': 'default', 'option': so['name'], 'state': 'empty', 'blank': '  \t', 'others': [], 'spec': spec, 'cpu': cpu})
    for _ in range(ctx.budget(40, 600) * k):
        so = rng.choice(spec['options'])
        others = []
        for n in names:
            if n != so['name'] and n not in ('logging_file', 'output_dir') and rng.random() < 0.35:
                st, v = gen_value(rng, n, spec, ctx.tmp)
                if st == 'valid':
                    others.append([n, v])
                elif st == 'empty' and n not in ('mapping_partitioning',):
                    others.append([n, ''])
        judge(ctx, {'kind': 'default', 'option': so['name'], 'state': rng.choice(['absent', 'empty']), 'others': others, 'spec': spec, 'cpu': cpu})

    # ---- (4) booleans and integers ---------------------------------------------------------------------------------------------------
    for o in spec['boolean_options']:
        for b, toks in ((True, spec['true']), (False, spec['false'])):
            for t in toks:
                for v in {t, t.upper(), rand_case(rng, t), pad(rng, rand_case(rng, t))}:
                    judge(ctx, {'kind': 'bool', 'option': o, 'value': v, 'expect': b})
        for v in ['maybe', '2', 'y', 'n', 'yess', 'tru', 'of', 'o n', 'ja', '-1', 'True!', 'none', 'null', '１', 'уes']:
            judge(ctx, {'kind': 'bool', 'option': o, 'value': v, 'expect': None})
    for v, e in [('1', 1), ('2', 2), ('007', 7), ('+3', 3), (' 12 ', 12), ('1_0', 10), ('-4', -4), ('abc', None), ('1.0', None), ('1,5', None),
                 ('0x2', None), ('2 cores', None), ('1__0', None), ('_1', None), ('two', None), ('1e2', None), ('++1', None)]:
        judge(ctx, {'kind': 'int', 'value': v, 'expect': e})
    for _ in range(ctx.budget(20, 300) * k):
        n = rng.randrange(0, 10 ** rng.randrange(1, 6))
        judge(ctx, {'kind': 'int', 'value': pad(rng, rng.choice(['', '+', '00']) + str(n)), 'expect': n})
        s = str(n)
        j = rng.randrange(len(s) + 1)
        judge(ctx, {'kind': 'int', 'value': s[:j] + rng.choice('abcxyz.,/ e') + s[j:] if j not in (0, len(s)) else s + rng.choice('abcxyz.,/e'),
                    'expect': None})

    # ---- (5) mapping paths ---------------------------------------------------------------------------------------------------------------
    path_cases = [['@missing.ttl'], ['@name.ttl', '@missing.ttl'], ['@missing.ttl', '@name.ttl'], ['@mdir'], ['@mdir', '@missing-dir'],
                  ['@name.ttl', '@link.ttl'], ['@name.ttl', ''], ['@name.ttl', ' @link.ttl'], ['@name.ttl ', '@link.ttl'],
                  ['@name.ttl', '@mdir/missing/'], ['@mdir/sub'], ['@name.tt'], ['@name.ttl.bak', '@link.ttl']]
    rng.shuffle(path_cases)
    for elems in path_cases[:ctx.budget(7, 13) if not ctx.escalate else 13]:
        judge(ctx, {'kind': 'mappings', 'elements': elems})
    # get_mappings_files against the model on the same directory tree
    if drv:
        from morph_kgc.config import Config
        from configparser import ExtendedInterpolation
        d = e2e_files(ctx)
        files = [os.path.join(d, x) for x in ('name.ttl', 'link.ttl', 'data.csv')]
        dirs = [{'path': os.path.join(d, 'mdir'), 'entries': [[n, os.path.isfile(os.path.join(d, 'mdir', n))] for n in os.listdir(os.path.join(d, 'mdir'))]},
                {'path': d, 'entries': [[n, os.path.isfile(os.path.join(d, n))] for n in os.listdir(d)]}]
        pool = files + [os.path.join(d, 'mdir'), d, os.path.join(d, 'nope.ttl'), 'http_nope', 'https://example.org/m.ttl', '', ' ' + files[0], files[1] + ' ']
        for _ in range(ctx.budget(40, 400) * k):
            value = ','.join(rng.choice(pool) for _ in range(rng.randrange(1, 4)))
            c = Config(interpolation=ExtendedInterpolation())
            c.read_string(f'[DS]\nmappings={value}\n')
            try:
                impl = {'ok': sorted(c.get_mappings_files('DS'))}
            except FileNotFoundError as e:
                impl = {'error': {'kind': 'FileNotFoundError', 'path': e.filename}}
            mod = drv.call('config_mappings', value=value.strip(), files=files, dirs=dirs)
            if 'ok' in mod:
                mod = {'ok': sorted(mod['ok'])}
            ctx.case({'mappings': value}, nontrivial=True, kind='I8:get_mappings_files')
            if mod != impl:
                ctx.disagree('I8 get_mappings_files', {'value': value}, mod, impl)

    # ---- (6) behavioural options end to end -----------------------------------------------------------------------------------------------------
    spec_na = next(o for o in spec['options'] if o['name'] == 'na_values')['default']['value']
    beh = []
    for na in (None, ['NULL', 'N/A'], ['NULL', 'N/A', ''], ['nan', 'NULLABLE', 'Alice'], ['NUL', 'ULL', 'N'], [''], ['n/a'], ['1', 'x&y']):
        o = [] if na is None else [['na_values', ','.join(na)]]
        for mp_ in ('name.ttl', 'link.ttl'):
            beh.append({'options': o, 'na': na, 'safe': '', 'printable': False, 'quads': False, 'mapping': mp_})
    for safe in (':/', '/', '#?&=', ';@!', '~', ':/#?&=;@!'):
        beh.append({'options': [['safe_percent_encoding', safe], ['na_values', 'NULL']], 'na': ['NULL'], 'safe': safe, 'printable': False,
                    'quads': False, 'mapping': 'link.ttl'})
    for v, b in (('yes', True), ('no', False), ('TRUE', True), ('Off', False), ('1', True)):
        beh.append({'options': [['only_printable_chars', v], ['na_values', 'NULL']], 'na': ['NULL'], 'safe': '', 'printable': b,
                    'quads': False, 'mapping': 'name.ttl'})
    for v, q in (('N-QUADS', True), ('n-quads', True), ('N-TRIPLES', False), ('n-TrIpLeS', False), (' N-Quads ', True)):
        beh.append({'options': [['output_format', v], ['na_values', 'NULL']], 'na': ['NULL'], 'safe': '', 'printable': False, 'quads': q,
                    'mapping': rng.choice(['name.ttl', 'link.ttl'])})
    for fp, mp_ in (('other', 'name.ttl'), ('data', 'nosrc.ttl'), ('other', 'nosrc.ttl'), ('other', 'link.ttl')):
        beh.append({'options': [['na_values', 'NULL']], 'na': ['NULL'], 'safe': '', 'printable': False, 'quads': False, 'mapping': mp_, 'file_path': fp})
    # combinations
    for _ in range(ctx.budget(6, 120) * k):
        na = rng.sample(['NULL', 'N/A', 'nan', '', 'Alice', 'z', 'NULLABLE', 'n/a', 'x&y'], rng.randrange(1, 4))
        safe = ''.join(rng.sample(':/#?&=;@!~', rng.randrange(0, 4)))
        pr, q = rng.random() < 0.5, rng.random() < 0.5
        o = [['na_values', ','.join(na)], ['only_printable_chars', rand_case(rng, 'yes' if pr else 'no')],
             ['output_format', rand_case(rng, 'N-QUADS' if q else 'N-TRIPLES')]]
        if safe or rng.random() < 0.5:
            o.append(['safe_percent_encoding', safe])
        rng.shuffle(o)
        beh.append({'options': o, 'na': na, 'safe': safe, 'printable': pr, 'quads': q, 'mapping': rng.choice(['name.ttl', 'link.ttl']),
                    'file_path': rng.choice([None, None, 'data'])})
    if ctx.tier == 'quick' and not ctx.escalate:
        fixed = [b for b in beh if b['na'] is None][:2]
        rest = [b for b in beh if b not in fixed]
        rng.shuffle(rest)
        beh = fixed + rest[:34]
    for b in beh:
        b.update(kind='behaviour', spec_na=spec_na)
        judge(ctx, b)
        ctx.traces_validated += 1

    # ---- (7) C19_F1 through the command line ---------------------------------------------------------------------------------------------------------
    d = e2e_files(ctx)
    wd = os.path.join(ctx.tmp, 'cli')
    os.makedirs(wd, exist_ok=True)
    cfgp = os.path.join(wd, 'c.ini')
    with open(cfgp, 'w') as f:
        f.write(f'[CONFIGURATION]\noutput_file=\nnumber_of_processes=1\nlogging_level=CRITICAL\nna_values=NULL\n[DS]\nmappings={os.path.join(d, "name.ttl")}\n')
    from vlib import REPO
    env = dict(os.environ, PYTHONPATH=os.path.join(REPO, 'src'))
    p = subprocess.run([sys.executable, '-m', 'morph_kgc', cfgp], cwd=wd, env=env, stdout=subprocess.PIPE, stderr=subprocess.STDOUT, text=True, timeout=300)
    written = sorted(x for x in os.listdir(wd) if x != 'c.ini')
    inp = {'kind': 'default', 'option': 'output_file', 'state': 'empty', 'others': [], 'spec': spec, 'cpu': cpu, 'via': 'cli', 'written': written}
    ctx.case({'cli': 'output_file='}, nontrivial=True, kind='oracle:cli', sample={'cli': 'output_file=', 'files_written': written, 'rc': p.returncode})
    if written != ['knowledge-graph.nt']:
        ctx.violation(f'CLI with `output_file=` writes {written} (rc={p.returncode}), the documented default is knowledge-graph.nt', inp,
                      finding='C19_F1' if written == ['output_file.nt'] else None)

    # unknown option names: noted, not claimed
    cfg, err = load_real(render([('logging_level', 'CRITICAL'), ('only_printable_characters', 'maybe'), ('logs_file', 'x'), ('mapping_partition', 'zzz')]))
    ctx.notes.append('unknown option names (only_printable_characters, logs_file, mapping_partition) are ' +
                     ('ignored without a message' if cfg is not None else f'rejected: {err}') + ' — outside the property (not claimed)')


def replay(ctx, data):
    inp = data['input']
    if inp.get('via') == 'cli':
        inp = {k: v for k, v in inp.items() if k not in ('via', 'written')}
    if inp.get('kind') == 'file_vs_string' and 'methods' not in inp:
        inp['methods'] = sorted(set(GETTER_OF.values()))
    if inp.get('kind') == 'default' and 'spec' not in inp:
        inp['spec'] = SPEC_FALLBACK
    if 'kind' not in inp or inp['kind'] not in ORACLES:
        return False
    return ORACLES[inp['kind']](ctx, inp) is not None
