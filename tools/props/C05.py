"""C05 — every emitted line is valid N-Triples/N-Quads(-star) and round-trips the data."""
import io
import os
import re
from urllib.parse import quote, unquote

import coregen as cg

PROP = 'C05'
LEAN_TARGETS = ['MorphKgc.Props.C05', 'MorphKgc.Props.CoreFuncs']
GEN_KEYS = ['escape', 'core']
M = 'MorphKgc.Props.C05'
THEOREMS = [{'name': f'Props.C05.{n}', 'module': M} for n in [
    'chainOK_template', 'chainOK_fnml', 'C05_escape_roundtrip', 'C05_escape_roundtrip_fnml', 'C05_sites_agree',
    'C05_literal_term', 'C05_delims', 'C05_pct_roundtrip', 'C05_pct_alphabet', 'C05_pct_valid_iri',
    'C05_F1_reference_iri_not_encoded', 'C05_template_iri_encoded', 'C05_F2_bnode_label_raw',
    'C05_rules_lines_valid', 'C05_engine_lines_valid_partial', 'C05_lines_injective', 'C05_literal_is_cell',
    'C05_template_iri_decodes', 'C05_F1_line_not_parsed']]
# the model functions these theorems are about are EQUAL to the functions translated from /repo's source (Gen/CoreFuncs.lean)
THEOREMS += [{'name': f'Props.CoreFuncs.{n}', 'module': 'MorphKgc.Props.CoreFuncs'} for n in ['materialize_template_eq', 'refs_eq']]
RULE = ('(I2) _materialize_template on one-row frames over term kind x term type x datatype x safe_percent_encoding x '
        'only_printable_chars with values drawn from every code-point class (controls, quotes, backslashes, line breaks, '
        'IRI-reserved, non-BMP); (pct) falcon encode_value / urllib quote vs Model.pctEncode (thorough: all 1,112,064 scalar '
        'values); (oracle) single-rule mappings run through materialize_set, every line parsed strictly with pyoxigraph and '
        'decoded back, and also lexed by the verified Lean lexer Spec.NQ.parseLine (driver op parse_line): both parsers must return the '
        'same statement. non-trivial = the value contains a character the site must transform or reject; distinct = (rule shape, value).')
TRUSTED_BASE = [
    'modelled, not verified: falcon.uri.encode_value and urllib.parse.quote (compared on every scalar value in the thorough tier), '
    'pandas .str.replace(regex=False), str.isprintable (a parameter of the model)',
    'Spec/NTerm.lean: reading of the N-Triples grammar (STRING_LITERAL_QUOTE, ECHAR, IRIREF); UCHAR is rejected by the validators',
    'core Lean theorem List.utf8Decode?_utf8Encode (UTF-8 round trip)',
    'pyoxigraph 0.3.22 as the strict reference parser of the direct oracle',
]
ASSUMPTIONS = ['cell values contain no lone surrogates (not representable as Unicode scalar values)',
               '`%` is not configured in safe_percent_encoding (otherwise decoding is ambiguous by construction)']

RML = cg.RML
UNRESERVED = 'ABCDEFGHIJKLMNOPQRSTUVWXYZabcdefghijklmnopqrstuvwxyz0123456789-._~'


def mk_config(safe='', only_printable='no'):
    from morph_kgc.args_parser import load_config_from_argument
    return load_config_from_argument(
        f'[CONFIGURATION]\nlogging_level=CRITICAL\nsafe_percent_encoding={safe}\nonly_printable_chars={only_printable}\n')


def real_template(config, kind, value, termtype, datatype, row):
    import pandas as pd
    from morph_kgc.materializer import _materialize_template
    df = pd.DataFrame({k: [v] for k, v in row.items()} or {'placeholder': ['x']})
    tt = {'iri': RML + 'IRI', 'bnode': RML + 'BlankNode', 'literal': RML + 'Literal', '': ''}[termtype]
    try:
        out = _materialize_template(df, value, RML + kind, config, 'object', termtype=tt, datatype=datatype)
        return {'ok': out['object'][0]}
    except KeyError as e:
        return {'keyerror': e.args[0] if e.args else ''}
    except Exception as e:
        return {'exc': type(e).__name__}


def parses(line, nquads):
    """strict parse of one statement with pyoxigraph; returns the list of parsed statements or None"""
    import pyoxigraph
    try:
        return list(pyoxigraph.parse(io.BytesIO((line + ' .\n').encode('utf-8')), 'application/n-quads' if nquads else 'application/n-triples'))
    except Exception:
        return None


def ox_term(t):
    """pyoxigraph term -> the JSON shape of the Lean driver's stmtToJson"""
    import pyoxigraph as ox
    if isinstance(t, ox.NamedNode):
        return {'k': 'iri', 'v': t.value}
    if isinstance(t, ox.BlankNode):
        return {'k': 'bnode', 'v': t.value}
    if isinstance(t, ox.Literal):
        lang = t.language
        dt = t.datatype.value
        if lang is not None:
            return {'k': 'lit', 'v': t.value, 'lang': lang, 'dt': None}
        return {'k': 'lit', 'v': t.value, 'lang': None, 'dt': None if dt == cg.XSD + 'string' else dt}
    if isinstance(t, ox.DefaultGraph):
        return None
    if isinstance(t, ox.Triple):
        return {'k': 'quoted', 's': ox_term(t.subject), 'p': ox_term(t.predicate), 'o': ox_term(t.object)}
    return {'k': '?', 'v': str(t)}


def no_labels(j):
    if isinstance(j, dict):
        return {k: (None if (j.get('k') == 'bnode' and k == 'v') else no_labels(v)) for k, v in j.items()}
    return j


def ox_stmt(q):
    g = getattr(q, 'graph_name', None)
    return {'s': ox_term(q.subject), 'p': ox_term(q.predicate), 'o': ox_term(q.object), 'g': ox_term(g) if g is not None else None}


def term_ok(term):
    return parses(f'{term} <http://p> <http://o>', False) is not None


def segments(template):
    """independent reading of R2RML 7.3 templates: [('lit', text) | ('ref', name)]"""
    out, i, cur = [], 0, ''
    while i < len(template):
        if template.startswith('\\{', i) or template.startswith('\\}', i):
            cur += template[i + 1]
            i += 2
        elif template[i] == '{':
            j = template.index('}', i)
            if cur:
                out.append(('lit', cur))
                cur = ''
            out.append(('ref', template[i + 1:j]))
            i = j + 1
        else:
            cur += template[i]
            i += 1
    if cur:
        out.append(('lit', cur))
    return out


def run(ctx, lean, findings):
    rng = ctx.rng
    drv = ctx.get_driver() if ctx.model_available else None

    # ---- (pct) percent-encoders vs the model ----------------------------------------------------------
    from falcon.uri import encode_value
    if drv:
        def cmp_pct(s, safe):
            impl = quote(s, safe=safe) if safe else encode_value(s)
            mod = drv.call('pct', value=s, safe=safe)
            ctx.case(['pct', s, safe], nontrivial=any(c not in UNRESERVED for c in s), kind='pct')
            if impl != mod:
                ctx.disagree('pct encode', {'value': s, 'safe': safe}, mod, impl)
            if unquote(impl, errors='strict') != s and '%' not in safe:
                ctx.violation('percent-decoding the encoded value does not give the value back', {'value': s, 'safe': safe, 'encoded': impl})
        if ctx.tier == 'thorough':
            cps = [cp for cp in range(0x110000) if not 0xD800 <= cp <= 0xDFFF]
            for i in range(0, len(cps), 512):
                cmp_pct(''.join(map(chr, cps[i:i + 512])), '')
            ctx.notes.append('percent-encoding compared on all 1,112,064 Unicode scalar values')
        else:
            cmp_pct(''.join(map(chr, range(0, 0x250))), '')
            for _ in range(40):
                cmp_pct(cg.rand_value(rng, 'any', 12), rng.choice(['', '', '/', ':/?#', "!$&'()*+,;=", 'é/']))
        for safe in ['/', ':/', "/:@!$&'()*+,;=", '~', 'a']:
            cmp_pct(''.join(map(chr, range(0, 0x100))) + 'é中\U0001F600', safe)

    # ---- (I2) _materialize_template vs Model.materializeTemplate -----------------------------------------
    configs = {}
    n_i2 = ctx.budget(250, 6000) * (3 if ctx.escalate else 1)
    dts = ['', cg.XSD + 'string', cg.XSD + 'decimal', cg.XSD + 'boolean', cg.XSD + 'dateTime', cg.XSD + 'date']
    for _ in range(n_i2):
        safe = rng.choice(['', '', '', '/', ':/#'])
        onlyp = rng.choice(['no', 'no', 'yes'])
        key = (safe, onlyp)
        if key not in configs:
            configs[key] = mk_config(safe, onlyp)
        kind = rng.choice(['reference', 'template', 'template', 'constant'])
        termtype = rng.choice(['iri', 'literal', 'literal', 'bnode', ''])
        cols = ['c1', 'c 2', 'Ü']
        row = {c: cg.rand_value(rng, 'any', 10) for c in cols}
        if kind == 'reference':
            value = rng.choice(cols)
        elif kind == 'template':
            value = cg.gen_template(rng, cols, termtype == 'iri')
        else:
            value = 'http://ex.org/c' if termtype != 'literal' else rng.choice(['lit', 'a b'])
        dt = rng.choice(dts) if termtype == 'literal' else ''
        vals = list(row.values())
        if any(vlibs(v) for v in vals):
            continue
        if dt.endswith('boolean') and any(v.lower() != ''.join(c.lower() if ord(c) < 128 else c for c in v) for v in vals):
            ctx.bump('skipped: non-ASCII case mapping under xsd:boolean (C15 domain)')
            continue
        impl = real_template(configs[key], kind, value, termtype, dt, row)
        nontriv = any(any(c not in UNRESERVED for c in v) for v in vals) and kind != 'constant'
        ctx.case(['I2', kind, value, termtype, dt, safe, onlyp, row], nontrivial=nontriv, kind=f'I2 {kind}/{termtype or "none"}',
                 sample={'kind': kind, 'value': value, 'termtype': termtype, 'row': row, 'impl': impl})
        if drv:
            mod = drv.call('template', kind=kind, value=value, termtype=termtype, datatype=dt, alias='', row=row, safe=safe,
                           only_printable=(onlyp == 'yes'), nonprintable=cg.nonprintable_of(vals))
            if mod != impl:
                ctx.disagree('I2 _materialize_template', {'kind': kind, 'value': value, 'termtype': termtype, 'datatype': dt,
                                                           'safe': safe, 'only_printable': onlyp, 'row': row}, mod, impl)
        # the property itself at cell level, independent of the model: a template-valued IRI percent-decodes to the template with the
        # cells substituted (no cell may be taken for already-encoded text), whatever the model says
        if kind == 'template' and termtype == 'iri' and 'ok' in impl and onlyp == 'no' and '%' not in safe:
            plain = ''.join(t if k == 'lit' else row[t] for k, t in segments(value))
            body = impl['ok'][1:-1] if impl['ok'].startswith('<') and impl['ok'].endswith('>') else None
            try:
                dec = unquote(body, errors='strict') if body is not None else None
            except UnicodeDecodeError:
                dec = None
            if dec != plain:
                ctx.violation(f'template IRI does not percent-decode to the template with the cells substituted: {impl["ok"]!r} decodes to '
                              f'{dec!r}, expected {plain!r}',
                              {'object': {'kind': 'template', 'value': value, 'termtype': 'iri'}, 'rows': [dict(row)], 'fmt': 'N-TRIPLES',
                               'cell_level': True, 'safe': safe})

    # ---- (I2, exhaustive part) every special character ALONE in an otherwise plain value, every data-dependent shape ----
    # (a change that skips a transformation unless some other special character occurs in the column only shows here)
    cfg0 = configs.setdefault(('', 'no'), mk_config('', 'no'))
    for ch in cg.LONE + ['\x00', '\x7f', '\x85', 'é', '\u2028', '\U0001F600']:
        for kind, value in (('reference', 'c1'), ('template', 'x{c1}y'), ('template', 'http://ex.org/{c1}/z')):
            for termtype in ('literal', 'iri', 'bnode'):
                if termtype == 'iri' and value == 'x{c1}y':
                    continue
                row = {'c1': 'ab' + ch + 'c'}
                impl = real_template(cfg0, kind, value, termtype, '', row)
                ctx.case(['I2-lone', kind, value, termtype, ch], nontrivial=True, kind=f'I2 lone {kind}/{termtype}')
                if drv:
                    mod = drv.call('template', kind=kind, value=value, termtype=termtype, datatype='', alias='', row=row, safe='',
                                   only_printable=False, nonprintable=cg.nonprintable_of([row['c1']]))
                    if mod != impl:
                        ctx.disagree('I2 _materialize_template (lone special character)',
                                     {'kind': kind, 'value': value, 'termtype': termtype, 'datatype': '', 'safe': '', 'only_printable': 'no', 'row': row}, mod, impl)
                if termtype == 'literal' and 'ok' in impl:
                    body = impl['ok'][1:-1] if impl['ok'].startswith('"') and impl['ok'].endswith('"') else None
                    want = row['c1'] if kind == 'reference' else 'x' + row['c1'] + 'y' if value == 'x{c1}y' else 'http://ex.org/' + row['c1'] + '/z'
                    st = parses(f'<http://s> <http://p> {impl["ok"]}', False)
                    if body is None or st is None or len(st) != 1 or st[0].object.value != want:
                        ctx.violation(f'literal with a lone {ch!r} is not valid N-Triples or does not decode to the value: {impl["ok"]!r}',
                                      {'object': {'kind': kind, 'value': value if kind == 'template' else 'c1', 'termtype': 'literal'},
                                       'rows': [{'c1': row['c1']}], 'fmt': 'N-TRIPLES'})

    # ---- (oracle) single-rule mappings through materialize_set, strict parse + decode ---------------------------
    n_or = ctx.budget(60, 1500) * (3 if ctx.escalate else 1)
    d = os.path.join(ctx.tmp, 'or')
    os.makedirs(d, exist_ok=True)
    for it in range(n_or):
        oracle_case(ctx, rng, d, it)

    # ---- the recorded findings, replayed in their minimal form ------------------------------------------------
    for f in findings:
        if f.get('property') == PROP and f.get('status') == 'open' and f.get('replay'):
            r = f['replay']
            res = oracle_fixed(ctx, d, r['object'], r['rows'], r.get('fmt', 'N-TRIPLES'))
            if res:
                ctx.known(f['id'], f['what'])
            else:
                ctx.notes.append(f'finding {f["id"]} no longer reproduces')


def vlibs(s):
    return any(0xD800 <= ord(c) <= 0xDFFF for c in s)


def oracle_fixed(ctx, d, obj, rows, fmt):
    """returns True iff some emitted line does not parse / does not round-trip"""
    path = os.path.join(d, 'fx.csv')
    cols = sorted({c for r in rows for c in r})
    if not cg.write_csv(path, cols, rows):
        return False
    doc = {'tms': [{'id': 'http://ex.org/tm/T', 'source': path,
                    'subject': {'kind': 'template', 'value': 'http://ex.org/s/{' + cols[0] + '}', 'termtype': 'iri', 'classes': [], 'graphs': []},
                    'poms': [{'predicates': [{'kind': 'constant', 'value': 'http://ex.org/p', 'termtype': 'iri'}], 'objects': [obj], 'graphs': []}]}]}
    mp = os.path.join(d, 'fx.ttl')
    with open(mp, 'w') as f:
        f.write(cg.render_doc(doc))
    kind, res = cg.run_engine(cg.config_text(mp, fmt=fmt))
    if kind != 'ok':
        return True
    return any(parses(line, fmt == 'N-QUADS') is None or len(parses(line, fmt == 'N-QUADS')) != 1 for line in res)


def oracle_case(ctx, rng, d, it):
    cols = ['id', 'v', 'w']
    vk = rng.choice(['any', 'any', 'plain'])
    rows = [{'id': cg.rand_value(rng, 'plain'), 'v': cg.rand_value(rng, vk, 8), 'w': cg.rand_value(rng, vk, 5)} for _ in range(rng.randrange(1, 4))]
    rows = [r for r in rows if r['v'] not in ('', 'nan') and r['w'] not in ('', 'nan') and not vlibs(r['v'] + r['w'])]
    if not rows:
        return
    path = os.path.join(d, f't{it}.csv')
    if not cg.write_csv(path, cols, rows):
        ctx.bump('skipped: CSV artefact (C10 domain)')
        return
    shape = rng.choice(['ref-lit', 'ref-lit', 'tpl-lit', 'tpl-iri', 'tpl-iri', 'ref-iri', 'tpl-bnode', 'const-lit', 'ref-lit-lang', 'ref-lit-dt'])
    safe = rng.choice(['', '', '/', ':/'])
    onlyp = 'no'
    if shape == 'ref-lit':
        obj = {'kind': 'reference', 'value': 'v', 'termtype': 'literal'}
    elif shape == 'ref-lit-lang':
        obj = {'kind': 'reference', 'value': 'v', 'termtype': 'literal', 'lang': 'en'}
    elif shape == 'ref-lit-dt':
        obj = {'kind': 'reference', 'value': 'v', 'termtype': 'literal', 'datatype': cg.XSD + 'token'}
    elif shape == 'tpl-lit':
        obj = {'kind': 'template', 'value': rng.choice(['{v}', 'a {v} b{w}', 'x\\{{v}\\}']), 'termtype': 'literal'}
    elif shape == 'tpl-iri':
        obj = {'kind': 'template', 'value': rng.choice(['http://ex.org/o/{v}', 'http://ex.org/{v}/{w}#z', 'urn:x:{v}']), 'termtype': 'iri'}
    elif shape == 'ref-iri':
        obj = {'kind': 'reference', 'value': 'v', 'termtype': 'iri'}
    elif shape == 'tpl-bnode':
        obj = {'kind': 'template', 'value': 'b{v}', 'termtype': 'bnode'}
    else:
        obj = {'kind': 'constant', 'value': rng.choice(['plain', 'say "hi"', 'back\\slash', 'two\nlines', "it's"]), 'termtype': 'literal'}
    fmt = rng.choice(['N-TRIPLES', 'N-QUADS'])
    doc = {'tms': [{'id': 'http://ex.org/tm/T', 'source': path,
                    'subject': {'kind': 'template', 'value': 'http://ex.org/s/{id}', 'termtype': 'iri', 'classes': [], 'graphs': []},
                    'poms': [{'predicates': [{'kind': 'constant', 'value': 'http://ex.org/p', 'termtype': 'iri'}], 'objects': [obj], 'graphs': []}]}]}
    mp = os.path.join(d, f'm{it}.ttl')
    with open(mp, 'w') as f:
        f.write(cg.render_doc(doc))
    kind, res = cg.run_engine(cg.config_text(mp, fmt=fmt, safe=safe or None))
    inp = {'object': obj, 'rows': rows, 'fmt': fmt, 'safe': safe}
    nontriv = any(any(c not in UNRESERVED for c in r['v'] + r['w']) for r in rows)
    ctx.case(['oracle', obj, rows, fmt, safe], nontrivial=nontriv, kind=f'oracle {shape}',
             sample={'object': obj, 'rows': rows[:2], 'fmt': fmt, 'lines': res[:2] if kind == 'ok' else res})
    ctx.traces_validated += 1

    # scope predicates of the recorded findings (mechanism-narrow)
    def scope():
        if shape == 'ref-iri' and any(not term_ok(f'<{r["v"]}>') for r in rows):
            return 'C05_F1'
        if shape == 'tpl-bnode' and any(not term_ok('_:b' + r['v']) for r in rows):
            return 'C05_F2'
        if shape in ('const-lit', 'tpl-lit') and any(ch in ''.join(t for k, t in segments(obj['value']) if k == 'lit') for ch in '"\\\n\r'):
            return 'C05_F5'
        return None

    if kind != 'ok':
        ctx.violation(f'materialization failed on a legal mapping: {res}', inp, finding=None)
        return
    nq = fmt == 'N-QUADS'
    by_subject = {}
    drv = ctx.get_driver() if ctx.model_available else None
    for line in res:
        st = parses(line, nq)
        if drv and not vlibs(line):
            # the verified lexer of Spec/NQuads.lean against the reference parser, on what the engine really printed
            lst = drv.call('parse_line', text=line + ' .')
            if st is not None and len(st) == 1:
                if lst is None:
                    if scope() is None:
                        ctx.disagree('Spec.NQ.parseLine rejects a line pyoxigraph accepts', {'line': line}, lst, ox_stmt(st[0]))
                    else:
                        ctx.bump('lexer stricter than pyoxigraph inside a finding scope')
                elif no_labels(lst) != no_labels(ox_stmt(st[0])):   # pyoxigraph.parse renames blank nodes
                    ctx.disagree('Spec.NQ.parseLine and pyoxigraph read different statements', {'line': line}, lst, ox_stmt(st[0]))
                else:
                    ctx.bump('lines read identically by Spec.NQ.parseLine and pyoxigraph')
            elif lst is not None:
                ctx.bump('line accepted by Spec.NQ.parseLine only (pyoxigraph validates IRIs/labels more strictly)')
        if st is None or len(st) != 1:
            ctx.violation(f'emitted line is not a valid {"N-Quads" if nq else "N-Triples"} statement: {line!r}', inp, finding=scope())
            return
        by_subject.setdefault(st[0].subject.value, []).append(st[0].object)
    # decode-and-compare
    exp_rows = {}
    for r in rows:
        exp_rows.setdefault('http://ex.org/s/' + quote(r['id'], safe=UNRESERVED), []).append(r)
    for subj, rs in exp_rows.items():
        objs = by_subject.get(subj, [])
        for r in rs:
            if shape in ('ref-lit', 'ref-lit-lang', 'ref-lit-dt'):
                want = r['v']
                if not any(getattr(o, 'value', None) == want for o in objs):
                    ctx.violation(f'literal does not round-trip: source {want!r}, parsed {[getattr(o, "value", None) for o in objs]!r}', inp, finding=scope())
                    return
            elif shape == 'tpl-lit':
                want = ''.join(t if k == 'lit' else r[t] for k, t in segments(obj['value']))
                if not any(getattr(o, 'value', None) == want for o in objs):
                    ctx.violation(f'template literal does not round-trip: expected {want!r}', inp, finding=scope())
                    return
            elif shape == 'tpl-iri':
                want = ''.join(t if k == 'lit' else quote(r[t], safe=UNRESERVED + ''.join(c for c in safe if ord(c) < 128)) for k, t in segments(obj['value']))
                plain = ''.join(t if k == 'lit' else r[t] for k, t in segments(obj['value']))
                got = [getattr(o, 'value', None) for o in objs]
                if want not in got:
                    ctx.violation(f'template IRI is not the RFC 3986 encoding of the values: expected {want!r}, got {got!r}', inp, finding=scope())
                    return
                if '%' not in safe and unquote(want, errors='strict') != plain:
                    ctx.violation('percent-decoding does not give the substituted template back', inp, finding=scope())
                    return
    if shape == 'tpl-bnode':
        labels = {}
        for r in rows:
            s_iri = 'http://ex.org/s/' + quote(r['id'], safe=UNRESERVED)
            for o in by_subject.get(s_iri, []):
                labels.setdefault(getattr(o, 'value', None), set())
        if len(labels) < len({r['v'] for r in rows}):
            ctx.violation('blank-node labels collide for different values', inp, finding=scope())


def replay(ctx, data):
    inp = data['input']
    d = os.path.join(ctx.tmp, 'rp')
    os.makedirs(d, exist_ok=True)
    if 'object' in inp:
        return oracle_fixed(ctx, d, inp['object'], inp['rows'], inp.get('fmt', 'N-TRIPLES'))
    return True
