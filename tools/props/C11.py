"""C11 — each statement depends only on the row that produced it."""
import csv
import json
import math
import os
import re
import sqlite3

import coregen as cg

PROP = 'C11'
LEAN_TARGETS = ['MorphKgc.Props.C11', 'MorphKgc.Props.C11Now']
GEN_KEYS = ['rowindep', 'null', 'group_set', 'canon']
M = 'MorphKgc.Props.C11'
THEOREMS = [{'name': f'Props.C11.{n}', 'module': M} for n in [
    'C11_gen_dedup', 'C11_dedup_subset_is_order_dependent', 'C11_gen_preprocess_order', 'C11_gen_sinks_are_sets', 'C11_gen_readers', 'C11_gen_elementwise',
    'C11_evalRuleG_strThenNa', 'C11_evalAllG_strThenNa',
    'C11_rule_rowwise', 'C11_union', 'C11_perm', 'C11_dup', 'C11_set_ext', 'C11_row_alone',
    'C11_join_child_union', 'C11_join_parent_union',
    'C11_doc_rowwise', 'C11_doc_union', 'C11_doc_set_ext', 'C11_doc_grouped_union',
    'C11_typed_set_ext', 'C11_typed_perm', 'C11_typed_dup', 'C11_typed_eq_alone', 'C11_alone_rowwise',
    'C11_typed_partial', 'C11_typed_row_alone_partial', 'C11_text_union', 'C11_csv_union', 'C11_sql_table_partial',
    'C11_gen_frame_strip', 'C11_frame_alone_rowwise', 'C11_frame_eq_alone', 'C11_frame_partial', 'C11_frame_union', 'C11_frame_typed_union',
    'C11_F2_frame_object_column', 'C11_F2_fixed_behaviour', 'C11_F2_in_scope',
    'C11_F1_null_sibling', 'C11_F1_fractional_sibling', 'C11_F1_union_fails', 'C11_F1_in_scope', 'C11_F1_scope_not_hereditary',
    'C11_F1_json_absent_key',
]]
# hypothesis-free theorems of the repaired shapes the translator reads from /repo now (Props/C11Now.lean)
THEOREMS += [{'name': f'Props.C11.{n}', 'module': 'MorphKgc.Props.C11Now'} for n in ['C11_current_frame_strip', 'C11_frame_union_current']]
RULE = ('a mapping (1-2 triples maps, subject template over 1-2 columns, 1-3 predicate-object maps: reference / literal template / IRI template / constant, '
        'optionally rr:datatype xsd:integer|boolean|dateTime|double|string or a language; for `csvjoin` a referencing object map with a join condition over a '
        'second file) over a table of 0-6 rows from small value pools (so that rows share subjects, agree on some columns only, differ by case only, end in .0) '
        'with NULLs (rate 0.2) and, for record sources, absent keys; source kinds: CSV (strings), SQLite rr:tableName and rr:sqlQuery over columns declared '
        'INTEGER/REAL/NUMERIC/BOOLEAN/TIMESTAMP/DATE/TEXT, JSON file and in-memory dict with numbers/booleans, list of dicts, typed DataFrame (sliced by rows), '
        'Parquet and Feather with int64/double/bool/string columns. Per table: a random split D1/D2 (f(D1 u D2) vs f(D1) u f(D2)), a permutation, a duplication, '
        'each row alone (union of the single-row results vs the table), and an independent per-row specification; all on the real engine. Correspondences: every '
        'reader against Model deliver (I12), _preprocess_data on typed frames (I3), materialize_set against the typed Lean model per rule of the REAL rule table '
        '(I7), column coercion of pandas through four construction paths against Model.coerceColumn and the Python mirror. non-trivial = at least two rows and a '
        'non-empty result; distinct = hash of (kind, mapping, table, operation).')
TRUSTED_BASE = [
    'modelled, not verified: pandas lib.maybe_convert_objects as reached from read_sql_query(coerce_float=False) / DataFrame(list of dicts, columns=) / json_normalize, '
    'pyarrow to_pandas for int64/double/bool/string columns, str() of int / float / bool / numpy scalars (float reprs are passed in, not computed), '
    'SQLite type affinity (the stored values are read back and are the model input) — each compared with Model.coerceColumn / deliver on every run',
    'the shared engine model Model.evalRuleG / preprocessG / rowTriple (tied to the code by I3/I7 here and by C01/C06)',
    'the element-wise audit of tools/gen/C11.py is syntactic: it recognises the pandas forms used today and fails on anything else',
]
ASSUMPTIONS = [
    'a logical source is split at the level of its rows: file rows, table rows, JSON objects selected by the iterator, list elements, DataFrame rows (dtypes kept)',
    'for referencing object maps the split is over the child source with the parent source fixed (or the converse); rules joining a source with itself are excluded',
    'typed model bounds: |int| <= 2^53, no Decimal/bytes/datetime objects, flat JSON records; the direct oracle also runs integers beyond 2^53',
    'cell values are IRI- and literal-safe apart from space, colon and non-ASCII letters (escaping belongs to C01/C05)',
    'Excel/ODS/ORC/Stata/SAS/SPSS files, tabular views (duckdb) and non-SQLite DBMS are not driven (Excel/ODS/ORC reader arguments are read by the translator)',
]

XSD = 'http://www.w3.org/2001/XMLSchema#'
KINDS = ['csv', 'sqltable', 'sqlquery', 'jsonfile', 'pydict', 'pylist', 'frame', 'parquet', 'feather', 'csvjoin']
INTS = [0, 1, 2, 3, 10, -4, 7, 100]
FLOATS = [1.5, 2.5, 10.0, 2.0, -0.5, 0.25, 1e-05]
STRS = ['a', 'A', 'ab', 'Ab', 'aB', 'x', 'X', '10', '10.0', '2.0', '2.5', '7', 'True', 'true', 'TRUE', '2020-01-02 03:04:05', 'b c', 'é', '1', '2']
TIMES = ['2020-01-02 03:04:05', '2021-12-31 23:59:59', '2020-01-02']
BIG = [2 ** 53 + 1, -(2 ** 53) - 1, 2 ** 62 + 1]
DECLS = ['INTEGER', 'REAL', 'NUMERIC', 'BOOLEAN', 'TIMESTAMP', 'DATE', 'TEXT']
DATATYPES = [None, None, None, XSD + 'integer', XSD + 'boolean', XSD + 'dateTime', XSD + 'double', XSD + 'string']


FRAME_STRIP = {'shape': 'applyInfers'}      # how get_ram_data strips quotes from object columns (detected on the running package in run / replay)


class Absent:
    def __repr__(self):
        return 'ABSENT'


ABSENT = Absent()


# ----------------------------------------------------------------------------------------------------
# generation
# ----------------------------------------------------------------------------------------------------

def gen_value(rng, ck, big=False):
    if ck == 'int':
        return rng.choice(BIG) if big and rng.random() < 0.3 else rng.choice(INTS)
    if ck == 'float':
        return rng.choice(FLOATS)
    if ck == 'bool':
        return rng.random() < 0.5
    if ck == 'str':
        return rng.choice(STRS)
    if ck == 'time':
        return rng.choice(TIMES)
    if ck == 'intfloat':
        return rng.choice(INTS) if rng.random() < 0.6 else rng.choice(FLOATS)
    if ck == 'intstr':
        return rng.choice(INTS) if rng.random() < 0.6 else rng.choice(STRS)
    if ck == 'bit':
        return rng.choice([0, 1])
    # mixed
    return gen_value(rng, rng.choice(['int', 'float', 'bool', 'str']))


def column_kinds(rng, kind, cols):
    """per column: the kind of values generated (and the SQL declaration)"""
    out = {}
    for c in cols:
        if kind in ('csv', 'csvjoin'):
            out[c] = {'ck': 'str'}
        elif kind in ('sqltable', 'sqlquery'):
            decl = 'TEXT' if (c == 'id' and rng.random() < 0.7) else rng.choice(DECLS)
            ck = {'INTEGER': rng.choice(['int', 'int', 'intfloat', 'intstr']), 'REAL': rng.choice(['float', 'intfloat']),
                  'NUMERIC': rng.choice(['int', 'intfloat', 'float']), 'BOOLEAN': 'bit', 'TIMESTAMP': rng.choice(['time', 'int']),
                  'DATE': rng.choice(['time', 'int']), 'TEXT': 'str'}[decl]
            out[c] = {'ck': ck, 'decl': decl}
        elif kind in ('parquet', 'feather'):
            out[c] = {'ck': 'str' if (c == 'id' and rng.random() < 0.7) else rng.choice(['int', 'float', 'bool', 'str'])}
        else:
            out[c] = {'ck': 'str' if (c == 'id' and rng.random() < 0.6) else rng.choice(['int', 'int', 'float', 'bool', 'str', 'mixed', 'intfloat', 'intstr'])}
    return out


def gen_rows(rng, kind, cols, ckinds, null_rate=0.2, big=False, nmax=6):
    rows = []
    for _ in range(rng.randrange(0, nmax + 1)):
        r = {}
        for c in cols:
            q = rng.random()
            if kind in ('csv', 'csvjoin'):
                r[c] = rng.choice(['', 'nan']) if q < null_rate * 0.5 else gen_value(rng, 'str')
            elif q < null_rate:
                if kind in ('pylist', 'jsonfile', 'pydict') and rng.random() < 0.5:
                    continue          # absent key
                r[c] = None
            else:
                r[c] = gen_value(rng, ckinds[c]['ck'], big)
        rows.append(r)
    if kind in ('parquet', 'feather') and rows:
        # an all-null arrow column keeps its arrow type (an int64 column of nulls arrives as float64 NaN): outside the cell-level model
        for c in cols:
            if all(r[c] is None for r in rows):
                rows[rng.randrange(len(rows))][c] = gen_value(rng, ckinds[c]['ck'])
    return rows


def gen_mapping(rng, cols, join=False):
    tms = []
    for t in range(rng.randrange(1, 3)):
        scols = rng.sample(cols, 1 if rng.random() < 0.7 else min(2, len(cols)))
        poms = []
        for p in range(rng.randrange(1, 4)):
            q = rng.random()
            if q < 0.55:
                obj = {'kind': 'reference', 'cols': [rng.choice(cols)], 'datatype': rng.choice(DATATYPES), 'lang': None}
                if obj['datatype'] is None and rng.random() < 0.15:
                    obj['lang'] = 'en'
            elif q < 0.75:
                obj = {'kind': 'template', 'iri': False, 'cols': rng.sample(cols, min(len(cols), rng.randrange(1, 3))), 'datatype': rng.choice(DATATYPES[:5]), 'lang': None}
            elif q < 0.9:
                obj = {'kind': 'template', 'iri': True, 'cols': rng.sample(cols, min(len(cols), rng.randrange(1, 3)))}
            else:
                obj = {'kind': 'constant', 'cols': []}
            poms.append({'pred': f'http://ex.org/p/{t}{p}', 'obj': obj})
        tms.append({'scols': scols, 'poms': poms})
    if join:
        tms[0]['poms'].append({'pred': 'http://ex.org/p/join', 'obj': {'kind': 'join', 'cols': ['id'], 'pcols': ['k'], 'child': 'id', 'parent': 'k'}})
    return tms


def gen_case(rng, kind=None, big=False):
    kind = kind or rng.choice(KINDS)
    cols = ['id'] + rng.sample(['a', 'b', 'c'], rng.randrange(1, 4))
    ck = column_kinds(rng, kind, cols)
    case = {'kind': kind, 'columns': cols, 'ckinds': ck, 'rows': gen_rows(rng, kind, cols, ck, big=big), 'tms': gen_mapping(rng, cols, join=(kind == 'csvjoin')),
            'na': rng.choice([None, None, None, 'x', 'NULL,-']), 'query_star': rng.random() < 0.5}
    if kind == 'csvjoin':
        case['parent_rows'] = [{'k': rng.choice(STRS[:8] + ['', '1', '2']), 'w': rng.choice(STRS)} for _ in range(rng.randrange(0, 5))]
    return case


def vary_rows(rng, case, big=False):
    c = dict(case)
    c['rows'] = gen_rows(rng, case['kind'], case['columns'], case['ckinds'], big=big)
    c.pop('_master', None)
    return c


def na_list(na):
    return sorted(set((',nan' if na is None else na).split(',')))


# ----------------------------------------------------------------------------------------------------
# the per-row specification (independent of the Lean model) and the Python mirror of the column coercion
# ----------------------------------------------------------------------------------------------------

class Null:
    """a NULL object as a frame holds it; `repr` is its Python str()"""
    def __init__(self, r):
        self.repr = r

    def __eq__(self, o):
        return isinstance(o, Null) and o.repr == self.repr

    def __hash__(self):
        return hash(('null', self.repr))

    def __repr__(self):
        return f'Null({self.repr})'


def is_nan(v):
    return isinstance(v, float) and math.isnan(v)


def alone(v):
    """the cell as `map(str)` sees it when no column was coerced"""
    if v is None:
        return Null('None')
    if v is ABSENT or is_nan(v):
        return Null('nan')
    if isinstance(v, bool):
        return 'True' if v else 'False'
    if isinstance(v, int):
        return str(v)
    if isinstance(v, float):
        return repr(v)
    return v


def infer_dtype(cells):
    """mirror of Model.inferDtype (pandas lib.maybe_convert_objects)"""
    isstr = [isinstance(c, str) for c in cells]
    isbool = [isinstance(c, bool) for c in cells]
    isint = [isinstance(c, int) and not isinstance(c, bool) for c in cells]
    isfloat = [isinstance(c, float) and not math.isnan(c) for c in cells]
    isnan = [c is ABSENT or is_nan(c) for c in cells]
    isnone = [c is None for c in cells]
    if any(isstr):
        return 'object'
    if any(isbool):
        return 'bool' if all(isbool) else 'object'
    if any(isfloat) or any(isnan):
        return 'float64'
    if any(isnone):
        return 'float64' if any(isint) else 'object'
    return 'int64'


def render_in(dtype, v):
    if dtype == 'float64':
        if isinstance(v, int) and not isinstance(v, bool):
            return repr(float(v))
        if v is None:
            return Null('nan')
    return alone(v)


def unstable(cells, prekind):
    return infer_dtype(cells) == 'float64' and (any(isinstance(c, int) and not isinstance(c, bool) for c in cells)
                                                or (prekind == 'strThenNa' and any(c is None for c in cells)))


def pre_rows(kind, refs, rows):
    """the typed rows that reach the dtype decision for a rule with references `refs` (rows: dict col -> value, absent keys missing)"""
    refs = list(dict.fromkeys(refs))
    if kind == 'sqltable':
        return [{c: r[c] for c in refs} for r in rows if all(r.get(c) is not None for c in refs)]
    if kind in ('jsonfile', 'pydict'):
        proj = [{c: v for c, v in r.items() if c in refs} for r in rows]
        kept = [r for r in proj if not any(v is None for v in r.values())]
        cols = list(dict.fromkeys(c for r in kept for c in r))
        return [{c: r.get(c, ABSENT) for c in cols} for r in kept]
    if kind == 'pylist':
        return [{c: r.get(c, ABSENT) for c in refs} for r in rows]
    return [dict(r) for r in rows]


def deliver(case, refs, rows, dtypes=None):
    """mirror of the Lean per-kind deliver: list of dict col -> str | Null for the references"""
    kind = case['kind']
    refs = list(dict.fromkeys(refs))
    if kind == 'alone':         # every cell as it is; absent keys are NULL
        return [{c: alone(r.get(c, ABSENT)) for c in refs} for r in rows]
    if kind in ('csv', 'csvjoin'):
        return [{c: alone(r[c]) for c in refs} for r in rows]
    if kind == 'frame':
        dt = {c: frame_col_dtype(dtypes[c], [r[c] for r in rows]) for c in refs}
        return [{c: render_in(dt[c], r[c]) for c in refs} for r in rows]
    pre = pre_rows(kind, refs, rows)
    cols = list(dict.fromkeys(c for r in pre for c in r))
    dt = {c: infer_dtype([r[c] for r in pre if c in r]) for c in cols}
    fill = Null('None') if kind == 'jsonfile' else Null('nan')
    return [{c: (render_in(dt[c], r[c]) if c in r else fill) for c in refs} for r in pre]


def frame_col_dtype(d, cells):
    """mirror of Model.frameColDtype: an object column is re-inferred by the quote-stripping `Series.apply`"""
    if d == 'object' and FRAME_STRIP['shape'] != 'keepsObject':
        return infer_dtype(cells)
    return d


def scope_tables(case, rows, prekind, dtypes=None):
    """Model.scope_C11_F1 (for frames: scope_C11_F2) for some rule of the case on this table"""
    if case['kind'] in ('csv', 'csvjoin'):
        return False
    if case['kind'] == 'frame':
        if FRAME_STRIP['shape'] == 'keepsObject':
            return False
        refs = {c for tm in case['tms'] for pom in tm['poms'] for c in rule_refs(tm, pom)}
        return any(dtypes[c] == 'object' and unstable([r[c] for r in rows], prekind) for c in refs)
    for tm in case['tms']:
        for pom in tm['poms']:
            refs = rule_refs(tm, pom)
            pre = pre_rows(case['kind'], refs, rows)
            for c in refs:
                if unstable([r[c] for r in pre if c in r], prekind):
                    return True
    return False


def enc(v):
    from urllib.parse import quote
    return quote(v, safe='')


def canon(datatype, v):
    if datatype == XSD + 'integer':
        return re.sub(r'^([+-]?[0-9]+)\.0\Z', r'\1', v)
    if datatype == XSD + 'boolean':
        return v.lower()
    if datatype == XSD + 'dateTime':
        return v.replace(' ', 'T')
    return v


def rule_refs(tm, pom):
    return list(dict.fromkeys(tm['scols'] + pom['obj']['cols']))


def statement(t, tm, pom, val, parent=None):
    s = '<' + f'http://ex.org/s{t}/' + '/'.join(enc(val[c]) for c in tm['scols']) + '>'
    o = pom['obj']
    if o['kind'] == 'join':
        ot = '<http://ex.org/parent/' + enc(parent['k']) + '>'
    elif o['kind'] == 'constant':
        ot = '<http://ex.org/o/const>'
    elif o['kind'] == 'template' and o['iri']:
        ot = '<http://ex.org/o/' + '/'.join(enc(val[c]) for c in o['cols']) + '>'
    else:
        dt = o.get('datatype')
        if o['kind'] == 'reference':
            body = canon(dt, val[o['cols'][0]])
        else:
            body = '-'.join(canon(dt, val[c]) for c in o['cols'])
        ot = '"' + body + '"'
        if dt and dt != XSD + 'string':          # an explicit xsd:string is dropped by the mapping parser (plain literal)
            ot += '^^<' + dt + '>'
        elif o.get('lang'):
            ot += '@' + o['lang']
    return f'{s} <{pom["pred"]}> {ot}'


def cell_value(x, na, prekind):
    """str | None: what term construction gets for a delivered cell (None = the row is dropped for rules referencing it)"""
    if isinstance(x, Null):
        if prekind == 'strThenNa' and x.repr not in na:
            return x.repr
        return None
    return None if x in na else x


def predicted(case, rows, prekind, dtypes=None):
    """the statements the (mirror of the) model predicts for this table: per rule, the reader's frame, then row by row"""
    na = set(na_list(case['na']))
    out = base_statements(case, prekind)
    for t, tm in enumerate(case['tms']):
        for pom in tm['poms']:
            refs = rule_refs(tm, pom)
            for r in deliver(case, refs, rows, dtypes):
                val = {c: cell_value(r[c], na, prekind) for c in refs}
                if any(v is None for v in val.values()):
                    continue
                if pom['obj']['kind'] == 'join':
                    for p in case.get('parent_rows', []):
                        pk = cell_value(alone(p['k']), na, prekind)
                        if pk is not None and pk == val[pom['obj']['child']]:
                            out.add(statement(t, tm, pom, val, parent={'k': pk}))
                else:
                    out.add(statement(t, tm, pom, val))
    return out


def base_statements(case, prekind):
    """statements that do not depend on the split table: those of the (fixed) parent triples map of a `csvjoin` case"""
    out = set()
    if case['kind'] == 'csvjoin':
        na = set(na_list(case['na']))
        for p in case.get('parent_rows', []):
            k, w = cell_value(alone(p['k']), na, prekind), cell_value(alone(p['w']), na, prekind)
            if k is not None and w is not None:
                out.add(f'<http://ex.org/parent/{enc(k)}> <http://ex.org/p/w> "{w}"')
    return out


def per_row_spec(case, rows, prekind, dtypes=None):
    """the independent per-row specification: every cell rendered on its own (no column dtype), each row on its own"""
    out = base_statements(case, prekind)
    for r in rows:
        if case['kind'] == 'frame':
            out |= predicted(case, [r], prekind, dtypes)
        else:
            out |= predicted(dict(case, kind=('csvjoin' if case['kind'] == 'csvjoin' else 'alone')), [r], prekind)
    return out


# ----------------------------------------------------------------------------------------------------
# rendering a case for the engine
# ----------------------------------------------------------------------------------------------------

PREFIX = ('@prefix rr: <http://www.w3.org/ns/r2rml#> .\n@prefix rml: <http://semweb.mmlab.be/ns/rml#> .\n'
          '@prefix ql: <http://semweb.mmlab.be/ns/ql#> .\n')


def logical_source(case, d):
    k = case['kind']
    if k in ('csv', 'csvjoin'):
        return f'rml:logicalSource [ rml:source "{os.path.join(d, "t.csv")}" ; rml:referenceFormulation ql:CSV ]', ''
    if k == 'jsonfile':
        return f'rml:logicalSource [ rml:source "{os.path.join(d, "t.json")}" ; rml:referenceFormulation ql:JSONPath ; rml:iterator "$.it[*]" ]', ''
    if k in ('parquet', 'feather'):
        return f'rml:logicalSource [ rml:source "{os.path.join(d, "t." + k)}" ]', ''
    if k == 'sqltable':
        return 'rr:logicalTable [ rr:tableName "t" ]', f'db_url=sqlite:///{os.path.join(d, "db.sqlite")}'
    if k == 'sqlquery':
        q = 'SELECT * FROM t' if case.get('query_star') else 'SELECT ' + ', '.join(case['columns']) + ' FROM t'
        return f'rr:logicalTable [ rr:sqlQuery "{q}" ]', f'db_url=sqlite:///{os.path.join(d, "db.sqlite")}'
    if k == 'pydict':
        return 'rml:logicalSource [ rml:source "{src}" ; rml:referenceFormulation ql:JSONPath ; rml:iterator "$.it[*]" ]', ''
    return 'rml:logicalSource [ rml:source "{src}" ]', ''


def mapping_text(case, d):
    ls, _ = logical_source(case, d)
    out = [PREFIX]
    for t, tm in enumerate(case['tms']):
        lines = [f'<http://ex.org/tm/{t}> a rr:TriplesMap ;', f'  {ls} ;']
        st = f'http://ex.org/s{t}/' + '/'.join('{' + c + '}' for c in tm['scols'])
        lines.append(f'  rr:subjectMap [ rr:template "{st}" ] ;')
        for i, pom in enumerate(tm['poms']):
            o = pom['obj']
            if o['kind'] == 'join':
                om = (f'[ rr:parentTriplesMap <http://ex.org/tm/parent> ; rr:joinCondition [ rr:child "{o["child"]}" ; rr:parent "{o["parent"]}" ] ]')
            elif o['kind'] == 'constant':
                om = '[ rr:constant <http://ex.org/o/const> ]'
            elif o['kind'] == 'template' and o['iri']:
                om = '[ rr:template "http://ex.org/o/' + '/'.join('{' + c + '}' for c in o['cols']) + '" ; rr:termType rr:IRI ]'
            else:
                extra = (f' ; rr:datatype <{o["datatype"]}>' if o.get('datatype') else '') + (f' ; rr:language "{o["lang"]}"' if o.get('lang') else '')
                if o['kind'] == 'reference':
                    om = f'[ rml:reference "{o["cols"][0]}"{extra} ]'
                else:
                    om = '[ rr:template "' + '-'.join('{' + c + '}' for c in o['cols']) + f'" ; rr:termType rr:Literal{extra} ]'
            lines.append(f'  rr:predicateObjectMap [ rr:predicate <{pom["pred"]}> ; rr:objectMap {om} ]' + (' ;' if i < len(tm['poms']) - 1 else ' .'))
        out.append('\n'.join(lines))
    if case['kind'] == 'csvjoin':
        out.append('<http://ex.org/tm/parent> a rr:TriplesMap ;\n'
                   f'  rml:logicalSource [ rml:source "{os.path.join(d, "parent.csv")}" ; rml:referenceFormulation ql:CSV ] ;\n'
                   '  rr:subjectMap [ rr:template "http://ex.org/parent/{k}" ] ;\n'
                   '  rr:predicateObjectMap [ rr:predicate <http://ex.org/p/w> ; rr:objectMap [ rml:reference "w" ] ] .')
    return '\n\n'.join(out) + '\n'


def arrow_type(ck):
    import pyarrow as pa
    return {'int': pa.int64(), 'float': pa.float64(), 'bool': pa.bool_(), 'str': pa.string()}[ck]


def master(case, d):
    """what is computed once per table: for SQL the values as SQLite stores them, for frames the frame, its dtypes and its cells"""
    if '_master' in case:
        return case['_master']
    m = {}
    k = case['kind']
    if k in ('sqltable', 'sqlquery'):
        con = sqlite3.connect(':memory:')
        con.execute('CREATE TABLE t (' + ', '.join(f'"{c}" {case["ckinds"][c]["decl"]}' for c in case['columns']) + ')')
        con.executemany('INSERT INTO t VALUES (' + ','.join('?' for _ in case['columns']) + ')', [[r[c] for c in case['columns']] for r in case['rows']])
        m['stored'] = [dict(zip(case['columns'], row)) for row in con.execute('SELECT * FROM t ORDER BY rowid')]
        con.close()
    elif k == 'frame':
        import pandas as pd
        df = pd.DataFrame([{c: r[c] for c in case['columns']} for r in case['rows']], columns=case['columns'])
        m['df'] = df
        m['dtypes'] = {c: {'int64': 'int64', 'float64': 'float64', 'bool': 'bool'}.get(str(df[c].dtype), 'object') for c in case['columns']}
        cells = {c: df[c].tolist() for c in case['columns']}
        m['cells'] = [{c: (float('nan') if is_nan(cells[c][i]) else cells[c][i]) for c in case['columns']} for i in range(len(df))]
    case['_master'] = m
    return m


def typed_rows(case, idx, d):
    """the typed rows (dict col -> Python value; absent keys missing) of the sub-table `idx`, as the reader's dtype decision meets them"""
    k = case['kind']
    if k in ('sqltable', 'sqlquery'):
        st = master(case, d)['stored']
        return [st[i] for i in idx]
    if k == 'frame':
        cells = master(case, d)['cells']
        return [cells[i] for i in idx]
    return [case['rows'][i] for i in idx]


def write_table(case, idx, d):
    """writes the sub-table; returns the python_source for in-memory kinds"""
    os.makedirs(d, exist_ok=True)
    k = case['kind']
    rows = [case['rows'][i] for i in idx]
    if k in ('csv', 'csvjoin'):
        with open(os.path.join(d, 't.csv'), 'w', encoding='utf-8', newline='') as f:
            w = csv.writer(f, quoting=csv.QUOTE_ALL, lineterminator='\n')
            w.writerow(case['columns'])
            for r in rows:
                w.writerow([r[c] for c in case['columns']])
        if k == 'csvjoin':
            with open(os.path.join(d, 'parent.csv'), 'w', encoding='utf-8', newline='') as f:
                w = csv.writer(f, quoting=csv.QUOTE_ALL, lineterminator='\n')
                w.writerow(['k', 'w'])
                for r in case['parent_rows']:
                    w.writerow([r['k'], r['w']])
        return None
    if k == 'jsonfile':
        with open(os.path.join(d, 't.json'), 'w', encoding='utf-8') as f:
            json.dump({'it': rows}, f)
        return None
    if k in ('sqltable', 'sqlquery'):
        p = os.path.join(d, 'db.sqlite')
        if os.path.exists(p):
            os.remove(p)
        con = sqlite3.connect(p)
        con.execute('CREATE TABLE t (' + ', '.join(f'"{c}" {case["ckinds"][c]["decl"]}' for c in case['columns']) + ')')
        con.executemany('INSERT INTO t VALUES (' + ','.join('?' for _ in case['columns']) + ')', [[r[c] for c in case['columns']] for r in rows])
        con.commit()
        con.close()
        return None
    if k in ('parquet', 'feather'):
        import pyarrow as pa
        tab = pa.table({c: pa.array([r[c] for r in rows], type=arrow_type(case['ckinds'][c]['ck'])) for c in case['columns']})
        p = os.path.join(d, 't.' + k)
        if k == 'parquet':
            import pyarrow.parquet as pq
            pq.write_table(tab, p)
        else:
            import pyarrow.feather as pf
            pf.write_feather(tab, p)
        return None
    if k == 'pylist':
        return {'src': [dict(r) for r in rows]}
    if k == 'pydict':
        return {'src': {'it': [dict(r) for r in rows]}}
    if k == 'frame':
        df = master(case, d)['df']
        return {'src': df.iloc[list(idx)].reset_index(drop=True)}
    raise ValueError(k)


_PARSE_CACHE = {}


def _install_parse_cache():
    """`materialize_set` is run unchanged, but `retrieve_mappings` is answered from a cache when mapping text and configuration are identical to an
    earlier call (the rule table is a function of configuration and mapping files only; for SQL the key also holds whether the table is empty)"""
    import morph_kgc
    cg._install_capture()
    if getattr(morph_kgc, '_verif_c11_cache', False):
        return
    inner = morph_kgc.retrieve_mappings

    def wrapper(config):
        key = _PARSE_CACHE.get('next_key')
        if key is not None and key in _PARSE_CACHE:
            rml_df, fnml_df = _PARSE_CACHE[key]
            cg.LAST_RULES['rml_df'] = rml_df.copy()
            cg.LAST_RULES['fnml_df'] = fnml_df.copy()
            return rml_df.copy(), fnml_df.copy()
        rml_df, fnml_df = inner(config)
        if key is not None:
            if len(_PARSE_CACHE) > 64:
                _PARSE_CACHE.clear()
            _PARSE_CACHE[key] = (rml_df.copy(), fnml_df.copy())
        return rml_df, fnml_df
    morph_kgc.retrieve_mappings = wrapper
    morph_kgc._verif_c11_cache = True


def run_table(case, idx, d):
    """the real engine on the sub-table `idx` (indices into case['rows'], repeats allowed) -> ('ok', sorted lines) | ('exc', message)"""
    pysrc = write_table(case, idx, d)
    mp = os.path.join(d, 'm.ttl')
    text = mapping_text(case, d)
    with open(mp, 'w', encoding='utf-8') as f:
        f.write(text)
    _, extra = logical_source(case, d)
    cfg = cg.config_text(mp, na=case['na']) + (extra + '\n' if extra else '')
    _install_parse_cache()
    _PARSE_CACHE['next_key'] = (cfg, text, bool(idx) if case['kind'].startswith('sql') else None)
    try:
        return cg.run_engine(cfg, pysrc)
    finally:
        _PARSE_CACHE['next_key'] = None


# ----------------------------------------------------------------------------------------------------
# the direct oracle
# ----------------------------------------------------------------------------------------------------

def union_result(a, b):
    if a[0] != 'ok' or b[0] != 'ok':
        return ('exc', 'one side raises')
    return ('ok', sorted(set(a[1]) | set(b[1])))


def same(a, b):
    """SetEq: both raise, or the same set"""
    if a[0] != 'ok' or b[0] != 'ok':
        return a[0] != 'ok' and b[0] != 'ok'
    return set(a[1]) == set(b[1])


def public_case(case):
    return {k: v for k, v in case.items() if not k.startswith('_')}


class Tables:
    """memoised engine / mirror results for the sub-tables of one case"""

    def __init__(self, ctx, case, d, prekind):
        self.ctx, self.case, self.d, self.prekind = ctx, case, d, prekind
        self.real = {}

    def f(self, idx):
        key = tuple(idx)
        if key not in self.real:
            self.real[key] = run_table(self.case, list(idx), self.d)
            self.ctx.traces_validated += 1
        return self.real[key]

    def dtypes(self):
        return master(self.case, self.d).get('dtypes')

    def typed(self, idx):
        return typed_rows(self.case, idx, self.d)

    def pred(self, idx):
        return ('ok', sorted(predicted(self.case, self.typed(idx), self.prekind, self.dtypes())))

    def scope(self, idx):
        return scope_tables(self.case, self.typed(idx), self.prekind, self.dtypes())

    def triage(self, idxs):
        """C11_F1 (frames: C11_F2) iff some table involved is in the scope and the engine does on every table involved exactly what the typed model predicts"""
        if any(self.scope(i) for i in idxs) and all(same(self.f(i), self.pred(i)) and self.f(i)[0] == 'ok' for i in idxs):
            return 'C11_F2' if self.case['kind'] == 'frame' else 'C11_F1'
        return None


def oracle_case(ctx, case, d, prekind, alone_max=3):
    """the property on the real engine for one table: split, permutation, duplication, rows alone, per-row specification"""
    rng = ctx.rng
    n = len(case['rows'])
    T = Tables(ctx, case, d, prekind)
    whole = list(range(n))
    pc = public_case(case)
    nontriv = n >= 2 and T.f(whole)[0] == 'ok' and bool(T.f(whole)[1])
    kindtag = case['kind']

    # split
    mask = [rng.random() < 0.5 for _ in whole]
    d1 = [i for i in whole if mask[i]]
    d2 = [i for i in whole if not mask[i]]
    ctx.case(['split', pc, d1], nontrivial=nontriv, kind=f'split {kindtag}',
             sample={'kind': kindtag, 'rows': pc['rows'][:2], 'D1': d1, 'f(D)': T.f(whole)[1][:2] if T.f(whole)[0] == 'ok' else T.f(whole)[1]})
    if not same(T.f(whole), union_result(T.f(d1), T.f(d2))):
        ctx.violation(f'f(D1 u D2) != f(D1) u f(D2) ({kindtag}): whole={T.f(whole)[1][:4]!r} parts={union_result(T.f(d1), T.f(d2))[1][:4]!r}',
                      {'case': pc, 'op': 'split', 'd1': d1, 'd2': d2}, finding=T.triage([whole, d1, d2]))
    # permutation
    if n >= 2:
        perm = whole[:]
        rng.shuffle(perm)
        ctx.case(['perm', pc, perm], nontrivial=nontriv, kind=f'perm {kindtag}')
        if not same(T.f(whole), T.f(perm)):
            ctx.violation(f'a permutation of the rows changes the result ({kindtag}): {T.f(whole)[1][:3]!r} vs {T.f(perm)[1][:3]!r}',
                          {'case': pc, 'op': 'perm', 'perm': perm}, finding=T.triage([whole, perm]))
    # duplication
    if n >= 1:
        dup = whole + [rng.randrange(n) for _ in range(rng.randrange(1, 3))]
        if rng.random() < 0.5:
            rng.shuffle(dup)
        ctx.case(['dup', pc, dup], nontrivial=nontriv, kind=f'dup {kindtag}')
        if not same(T.f(whole), T.f(dup)):
            ctx.violation(f'duplicate rows change the result ({kindtag}): {T.f(whole)[1][:3]!r} vs {T.f(dup)[1][:3]!r}',
                          {'case': pc, 'op': 'dup', 'dup': dup}, finding=T.triage([whole, dup]))
    # rows alone: the table against the union of its single rows (all rows when the table is small)
    if 1 <= n <= alone_max + 1:
        singles = [[i] for i in whole]
        acc = T.f([])
        for s in singles:
            acc = union_result(acc, T.f(s))
        ctx.case(['alone', pc], nontrivial=nontriv, kind=f'alone {kindtag}')
        if not same(T.f(whole), acc):
            ctx.violation(f'a row renders within the table differently from alone ({kindtag}): table={T.f(whole)[1][:4]!r} rows alone={acc[1][:4]!r}',
                          {'case': pc, 'op': 'alone'}, finding=T.triage([whole] + singles))
    # independent per-row specification
    spec = ('ok', sorted(per_row_spec(case, T.typed(whole), prekind, T.dtypes())))
    ctx.case(['spec', pc], nontrivial=nontriv, kind=f'spec {kindtag}')
    if not same(T.f(whole), spec):
        got = T.f(whole)
        ctx.violation(f'the statements of the table are not those its rows determine one by one ({kindtag}): '
                      f'extra={sorted(set(got[1]) - set(spec[1]))[:3] if got[0] == "ok" else got[1]!r} missing={sorted(set(spec[1]) - set(got[1] if got[0] == "ok" else []))[:3]!r}',
                      {'case': pc, 'op': 'spec'}, finding=T.triage([whole]))
    return T


def deep_oracle(ctx, case, T, nsplits=6):
    """more of the same on one table: every row alone, several splits"""
    rng = ctx.rng
    n = len(case['rows'])
    whole = list(range(n))
    pc = public_case(case)
    if n >= 1:
        acc = T.f([])
        for i in whole:
            acc = union_result(acc, T.f([i]))
        if not same(T.f(whole), acc):
            ctx.violation(f'a row renders within the table differently from alone ({case["kind"]}): table={T.f(whole)[1][:4]!r} rows alone={acc[1][:4]!r}',
                          {'case': pc, 'op': 'alone'}, finding=T.triage([whole] + [[i] for i in whole]))
    for _ in range(nsplits if n >= 2 else 0):
        mask = [rng.random() < 0.5 for _ in whole]
        d1 = [i for i in whole if mask[i]]
        d2 = [i for i in whole if not mask[i]]
        ctx.case(['split', pc, d1], nontrivial=True, kind=f'split {case["kind"]} (deep)')
        if not same(T.f(whole), union_result(T.f(d1), T.f(d2))):
            ctx.violation(f'f(D1 u D2) != f(D1) u f(D2) ({case["kind"]}): whole={T.f(whole)[1][:4]!r} parts={union_result(T.f(d1), T.f(d2))[1][:4]!r}',
                          {'case': pc, 'op': 'split', 'd1': d1, 'd2': d2}, finding=T.triage([whole, d1, d2]))


FOCUS = [('get_ram_data', ['pylist', 'pydict', 'frame']), ('_read_inmemory_json', ['pydict']), ('_read_json', ['jsonfile']), ('get_sql_data', ['sqlquery', 'sqltable']),
         ('_build_sql_query', ['sqltable']), ('_read_csv', ['csv', 'csvjoin']), ('_read_parquet', ['parquet']), ('_read_feather', ['feather']),
         ('_merge_data', ['csvjoin'])]


def focus_kinds(lean):
    """the source kinds whose reader a broken obligation names"""
    text = ' '.join(lean.get('broken', []))
    out = []
    for name, kinds in FOCUS:
        if name in text:
            out += [k for k in kinds if k not in out]
    return out


# ----------------------------------------------------------------------------------------------------
# correspondences with the Lean model
# ----------------------------------------------------------------------------------------------------

def tcell(v):
    if v is None:
        return None
    if isinstance(v, bool):
        return v
    if isinstance(v, int):
        return {'i': str(v)}
    if isinstance(v, float):
        return {'nan': True} if math.isnan(v) else {'f': repr(v)}
    if v is ABSENT:
        return {'nan': True}
    return v


def trows(rows, cols=None):
    return [[[c, tcell(r[c])] for c in (cols or r) if c in r] for r in rows]


def model_kind(kind):
    return {'csv': 'text', 'csvjoin': 'text', 'sqltable': 'sqltable', 'sqlquery': 'sqlquery', 'jsonfile': 'jsonfile', 'pydict': 'jsonmem', 'pylist': 'pylist',
            'frame': 'frame', 'parquet': 'columnar', 'feather': 'columnar'}[kind]


def in_model_bounds(rows):
    return all(not (isinstance(v, int) and not isinstance(v, bool) and abs(v) > 2 ** 53) for r in rows for v in r.values())


def canon_cell(x):
    import pandas as pd
    if x is None:
        return {'n': 'None'}
    if isinstance(x, str):
        return x
    try:
        if pd.api.types.is_scalar(x) and pd.isna(x):
            return {'n': str(x)}
    except Exception:
        pass
    return str(x)


def canon_frame(df, cols):
    cs = [c for c in df.columns if c in cols]
    data = [[canon_cell(x) for x in df[c].tolist()] for c in cs]
    rows = [sorted(([c, data[j][i]] for j, c in enumerate(cs)), key=lambda p: p[0]) for i in range(len(df))]
    return sorted(rows, key=lambda r: json.dumps(r, sort_keys=True))


def canon_model_table(t, cols):
    rows = [sorted(([c, v] for c, v in r if c in cols), key=lambda p: p[0]) for r in t]
    return sorted(rows, key=lambda r: json.dumps(r, sort_keys=True))


def mirror_table(rows_delivered, cols):
    rows = [sorted(([c, ({'n': v.repr} if isinstance(v, Null) else v)] for c, v in r.items() if c in cols), key=lambda p: p[0]) for r in rows_delivered]
    return sorted(rows, key=lambda r: json.dumps(r, sort_keys=True))


def real_reader(case, refs, d, idx):
    from morph_kgc.data_source import data_file, python_data, relational_db
    k = case['kind']
    pysrc = write_table(case, idx, d)
    if k in ('csv', 'csvjoin'):
        return data_file.get_file_data({'source_type': 'CSV', 'logical_source_type': 'x', 'logical_source_value': os.path.join(d, 't.csv')}, refs)
    if k == 'jsonfile':
        return data_file._read_json({'logical_source_value': os.path.join(d, 't.json'), 'iterator': '$.it[*]'}, list(refs))
    if k == 'parquet':
        return data_file._read_parquet({'logical_source_value': os.path.join(d, 't.parquet')}, list(refs))
    if k == 'feather':
        return data_file._read_feather({'logical_source_value': os.path.join(d, 't.feather')}, list(refs))
    if k in ('pylist', 'frame'):
        return python_data.get_ram_data({'logical_source_value': '{src}', 'iterator': None}, refs, pysrc)
    if k == 'pydict':
        return python_data.get_ram_data({'logical_source_value': '{src}', 'iterator': '$.it[*]'}, refs, pysrc)
    raise ValueError(k)


def model_chain(ctx, drv, case, T, d, idx, prekind):
    """I12 (reader vs Model deliver vs mirror) and I7 (materialize_set vs the typed Lean model per rule of the real rule table) for the sub-table idx"""
    real = T.f(idx)          # also refreshes cg.LAST_RULES for this case
    if 'rml_df' not in cg.LAST_RULES:
        return
    rows = T.typed(idx)
    if not in_model_bounds(rows):
        return
    rules = cg.rules_to_json(cg.LAST_RULES['rml_df'])
    na = na_list(case['na'])
    mk = model_kind(case['kind'])
    inp = {'case': public_case(case), 'idx': list(idx)}
    lines, failed = set(), False
    seen = set()
    kw = {'dtypes': T.dtypes(), 'frame_strip': FRAME_STRIP['shape']} if case['kind'] == 'frame' else {}
    for i, r in enumerate(rules):
        if not r.get('asserted', True):
            continue
        if r.get('object_map_type') == 'parentTM':
            return          # the join is modelled by C07's chain; here only join-free rule tables are compared
        refs = drv.call('c06_refs', rules=rules, index=i)
        key = tuple(sorted(refs))
        if key not in seen:
            seen.add(key)
            mt = drv.call('c11_deliver', src=mk, refs=refs, rows=trows(rows), **kw)
            mcanon = canon_model_table(mt, refs)
            pm = mirror_table(deliver(case, refs, rows, T.dtypes()), refs)
            if case['kind'] in ('jsonfile',):
                # the reader's own dropna: compare on the rows without NULL in the references (the rest is dropped by _preprocess_data anyway)
                strip = lambda t: [x for x in t if not any(isinstance(v, dict) for _, v in x)]  # noqa: E731
                mcanon_c, pm_c = strip(mcanon), strip(pm)
            else:
                mcanon_c, pm_c = mcanon, pm
            if mcanon_c != pm_c:
                ctx.disagree(f'Model deliver vs Python mirror ({case["kind"]})', dict(inp, refs=refs), mcanon[:6], pm[:6])
            if case['kind'] not in ('sqltable', 'sqlquery'):
                try:
                    rt = canon_frame(real_reader(case, refs, d, list(idx)), refs)
                    if case['kind'] == 'jsonfile':
                        rt = [x for x in rt if not any(isinstance(v, dict) for _, v in x)]
                    if rt != mcanon_c:
                        ctx.disagree(f'I12 reader {case["kind"]} vs Model deliver', dict(inp, refs=refs), mcanon[:6], rt[:6])
                except Exception as e:  # noqa
                    ctx.disagree(f'I12 reader {case["kind"]} raised', dict(inp, refs=refs), mcanon[:6], f'{type(e).__name__}: {e}')
            else:
                rt = sql_reader(case, refs, d, list(idx))
                if rt is not None and rt != mcanon:
                    ctx.disagree(f'I12 get_sql_data {case["kind"]} vs Model deliver', dict(inp, refs=refs), mcanon[:6], rt[:6])
        m = drv.call('c11_eval_typed', rules=rules, index=i, na=na, src=mk, rows=trows(rows), **kw)
        if 'ok' not in m:
            failed = True
            break
        lines.update(m['ok'])
    if failed:
        if real[0] == 'ok':
            ctx.disagree('I7 materialize_set vs typed model', inp, 'keyerror', real[1][:5])
    elif real[0] != 'ok' or sorted(lines) != real[1]:
        ctx.disagree(f'I7 materialize_set vs typed model ({case["kind"]})', inp, sorted(lines)[:8], real[1][:8] if real[0] == 'ok' else real[1])
    # the scope predicate: Lean against the mirror
    for tm in case['tms']:
        for pom in tm['poms']:
            refs = rule_refs(tm, pom)
            if case['kind'] in ('csv', 'csvjoin'):
                continue
            if case['kind'] == 'frame':
                ms = drv.call('c11_scope', src='frame', refs=refs, rows=trows(rows), kind=prekind, **kw)
                ps = FRAME_STRIP['shape'] != 'keepsObject' and any(T.dtypes()[c] == 'object' and unstable([r[c] for r in rows], prekind) for c in refs)
                if ms != ps:
                    ctx.disagree('scope_C11_F2: Lean vs mirror', dict(inp, refs=refs), ms, ps)
                continue
            pre = pre_rows(case['kind'], refs, rows)
            ms = drv.call('c11_scope', refs=refs, rows=trows(pre), kind=prekind)
            ps = any(unstable([r[c] for r in pre if c in r], prekind) for c in refs)
            if ms != ps:
                ctx.disagree('scope_C11_F1: Lean vs mirror', dict(inp, refs=refs), ms, ps)


def sql_reader(case, refs, d, idx):
    """get_sql_data on the written database, through the real Config"""
    from morph_kgc.args_parser import load_config_from_argument
    from morph_kgc.data_source import relational_db
    from morph_kgc.constants import RML_TABLE_NAME, RML_QUERY
    write_table(case, idx, d)
    mp = os.path.join(d, 'm.ttl')
    _, extra = logical_source(case, d)
    config = load_config_from_argument(cg.config_text(mp, na=case['na']) + extra + '\n')
    if case['kind'] == 'sqltable':
        rule = {'logical_source_type': RML_TABLE_NAME, 'logical_source_value': 't', 'source_name': 'DS', 'triples_map_id': 'x'}
    else:
        q = 'SELECT * FROM t' if case.get('query_star') else 'SELECT ' + ', '.join(case['columns']) + ' FROM t'
        rule = {'logical_source_type': RML_QUERY, 'logical_source_value': q, 'source_name': 'DS', 'triples_map_id': 'x'}
    df = relational_db.get_sql_data(config, rule, list(refs))
    return canon_frame(df, refs)


def coerce_paths(ctx, drv, rng, n):
    """pandas' column dtype decision through the construction paths the readers use, against Model.coerceColumn and the mirror"""
    import pandas as pd
    for it in range(n):
        path = rng.choice(['list', 'json_normalize', 'sql', 'parquet'])
        m = rng.randrange(0, 6)
        if path == 'sql':
            cells = [rng.choice([None, None, rng.choice(INTS), rng.choice(FLOATS), rng.choice(STRS)]) if rng.random() < 0.5 else rng.choice(INTS) for _ in range(m)]
        elif path == 'parquet':
            ck = rng.choice(['int', 'float', 'bool', 'str'])
            cells = [None if rng.random() < 0.3 else gen_value(rng, ck) for _ in range(m)]
            if m and all(c is None for c in cells):
                continue          # an all-null arrow column keeps its arrow type (int64 -> float64 NaN): outside the cell-level model
        else:
            pool = rng.choice([['int'], ['int', 'float'], ['bool'], ['int', 'bool'], ['str', 'int'], ['float'], ['int', 'float', 'bool', 'str']])
            cells = [rng.choice([None, ABSENT]) if rng.random() < 0.3 else gen_value(rng, rng.choice(pool)) for _ in range(m)]
        try:
            if path == 'list':
                df = pd.DataFrame([({} if c is ABSENT else {'v': c}) for c in cells], columns=['v'])
            elif path == 'json_normalize':
                recs = [({'k': 0} if c is ABSENT else {'k': 0, 'v': c}) for c in cells]
                df = pd.json_normalize(recs)
                if 'v' not in df.columns:
                    df['v'] = None if not recs else float('nan')
                    if not any(c is ABSENT for c in cells):
                        continue
            elif path == 'sql':
                con = sqlite3.connect(':memory:')
                con.execute('CREATE TABLE t (v)')
                con.executemany('INSERT INTO t VALUES (?)', [[c] for c in cells])
                df = pd.read_sql_query('SELECT v FROM t ORDER BY rowid', con=con, coerce_float=False)
                con.close()
            else:
                import io
                import pyarrow as pa
                import pyarrow.parquet as pq
                buf = io.BytesIO()
                pq.write_table(pa.table({'v': pa.array(cells, type=arrow_type(ck))}), buf)
                buf.seek(0)
                df = pd.read_parquet(buf, engine='pyarrow', columns=['v'])
            real = [canon_cell(x) for x in df['v'].tolist()]
            rd = {'int64': 'int64', 'float64': 'float64', 'bool': 'bool'}.get(str(df['v'].dtype), 'object')
        except Exception as e:  # noqa
            real, rd = f'{type(e).__name__}: {e}', '?'
        mod = drv.call('c11_coerce_column', cells=[tcell(c) for c in cells])
        mir = [({'n': x.repr} if isinstance(x, Null) else x) for x in (render_in(infer_dtype(cells), c) for c in cells)]
        inp = {'path': path, 'cells': [repr(c) for c in cells]}
        ctx.case(['coerce', inp], nontrivial=len({type(c) for c in cells}) >= 2, kind=f'coerceColumn {path}')
        if mod['cells'] != mir or mod['dtype'] != infer_dtype(cells):
            ctx.disagree('Model.coerceColumn vs Python mirror', inp, mod, [infer_dtype(cells), mir])
        if m and (real != mod['cells'] or (rd != mod['dtype'] and not (path == 'parquet' and ck == 'str'))):
            ctx.disagree(f'pandas column dtype decision ({path}) vs Model.coerceColumn', inp, mod, [rd, real])


def i3_preprocess(ctx, drv, rng, n, prekind):
    """`_preprocess_data` on typed frames (dtypes int64 / float64 / bool / object, with NULLs) against frameDeliverT + preprocessG"""
    import pandas as pd
    from morph_kgc.args_parser import load_config_from_argument
    from morph_kgc.materializer import _preprocess_data
    mp = os.path.join(ctx.tmp, 'i3.ttl')
    with open(mp, 'w') as f:
        f.write(PREFIX)
    for it in range(n):
        na = rng.choice([None, None, 'x', '10,2.0'])
        config = load_config_from_argument(cg.config_text(mp, na=na))
        cols = rng.sample(['a', 'b', 'c', 'd'], rng.randrange(1, 4))
        refs = rng.sample(cols, rng.randrange(1, len(cols) + 1))
        cks = {c: rng.choice(['int', 'float', 'bool', 'str', 'mixed', 'intfloat']) for c in cols}
        rows = [{c: (None if rng.random() < 0.2 else gen_value(rng, cks[c])) for c in cols} for _ in range(rng.randrange(0, 6))]
        if rows and rng.random() < 0.4:
            rows.append(dict(rng.choice(rows)))
        df = pd.DataFrame(rows, columns=cols)
        dtypes = {c: {'int64': 'int64', 'float64': 'float64', 'bool': 'bool'}.get(str(df[c].dtype), 'object') for c in cols}
        cells = {c: df[c].tolist() for c in cols}
        trs = [{c: cells[c][i] for c in cols} for i in range(len(df))]
        try:
            out = _preprocess_data(df[refs].copy(), {'source_type': 'CSV', 'source_name': 'DS'}, set(refs), config)
            real = sorted({tuple(sorted((c, str(r[c])) for c in refs)) for _, r in out.iterrows()})
            real = [[list(p) for p in r] for r in real]
        except Exception as e:  # noqa
            real = f'{type(e).__name__}: {e}'
        mt = drv.call('c11_deliver', src='frame', refs=refs, rows=trows(trs), dtypes=dtypes, frame_strip='keepsObject')   # _preprocess_data alone: no quote stripping
        m = drv.call('c06_preprocess', na=na_list(na), refs=refs, rows=[{c: v for c, v in r} for r in mt], kind=prekind)
        mod = sorted({tuple(sorted((c, v) for c, v in r)) for r in m['ok']}) if 'ok' in m else m
        mod = [[list(p) for p in r] for r in mod] if 'ok' in m else mod
        inp = {'na': na, 'refs': refs, 'rows': [{c: repr(v) for c, v in r.items()} for r in trs], 'dtypes': dtypes}
        ctx.case(['i3', inp], nontrivial=len(rows) >= 2, kind='I3 _preprocess_data typed')
        if mod != real:
            ctx.disagree('I3 _preprocess_data on a typed frame vs frameDeliverT + preprocessG', inp, mod, real)


def csv_doc_cases(ctx, rng, n, tlimit):
    """the union law on the real engine for the rich join-free mapping family of the shared generator (graphs, classes, blank nodes, languages, nasty strings)"""
    import corecases as cc
    for it in range(n):
        if ctx.elapsed() > tlimit:
            break
        d = os.path.join(ctx.tmp, f'doc{it % 8}')
        case = cc.make_case(rng, d, nsources=1, max_rows=6)
        path = next(iter(case.tables))
        rows, cols = case.tables[path], case.columns[path]
        fmt = rng.choice(['N-TRIPLES', 'N-QUADS'])

        def f(sub):
            cg.write_csv(path, cols, sub)
            return cc.engine(case, fmt=fmt)
        whole = f(rows)
        mask = [rng.random() < 0.5 for _ in rows]
        a = f([r for r, m in zip(rows, mask) if m])
        b = f([r for r, m in zip(rows, mask) if not m])
        perm = rows[:]
        rng.shuffle(perm)
        p = f(perm + ([rng.choice(rows)] if rows else []))
        inp = {'doc': case.doc, 'columns': cols, 'rows': rows, 'mask': mask, 'fmt': fmt}
        ctx.case(['csvdoc', inp], nontrivial=len(rows) >= 2 and whole[0] == 'ok' and bool(whole[1]), kind=f'csvdoc {fmt}')
        ctx.traces_validated += 4
        if not same(whole, union_result(a, b)):
            ctx.violation(f'f(D1 u D2) != f(D1) u f(D2) (csv, generated document): {whole[1][:3]!r} vs {union_result(a, b)[1][:3]!r}', dict(inp, op='csvdoc'), finding=None)
        if not same(whole, p):
            ctx.violation(f'permutation + duplication changes the result (csv, generated document): {whole[1][:3]!r} vs {p[1][:3]!r}', dict(inp, op='csvdoc'), finding=None)


# ----------------------------------------------------------------------------------------------------
# replay
# ----------------------------------------------------------------------------------------------------

def fix_case(case):
    """JSON round trip: nothing to restore (absent keys are missing keys, NULL is null)"""
    return dict(case)


def replay_input(ctx, inp, d, prekind, fid=None):
    """True iff the property still fails on this input — for a recorded finding `fid`: by the mechanism of that finding; with `fid=None` (a replay
    file): outside the scope of every recorded finding (a failure that the typed model predicts inside scope_C11_F1 is the known defect)"""
    if inp.get('op') == 'csvdoc':
        import corecases as cc
        os.makedirs(d, exist_ok=True)
        path = os.path.join(d, 't0.csv')
        doc = json.loads(json.dumps(inp['doc']).replace(inp['doc']['tms'][0]['source'], path))
        case = cc.Case(d, doc, {path: inp['rows']}, {path: inp['columns']})
        case.write_mapping()

        def f(sub):
            cg.write_csv(path, inp['columns'], sub)
            return cc.engine(case, fmt=inp['fmt'])
        rows, mask = inp['rows'], inp['mask']
        return not same(f(rows), union_result(f([r for r, m in zip(rows, mask) if m]), f([r for r, m in zip(rows, mask) if not m]))) \
            or not same(f(rows), f(list(reversed(rows)) + rows[:1]))
    case = fix_case(inp['case'])
    T = Tables(ctx, case, d, prekind)
    whole = list(range(len(case['rows'])))
    op = inp.get('op')
    if op == 'split':
        bad, idxs = not same(T.f(whole), union_result(T.f(inp['d1']), T.f(inp['d2']))), [whole, inp['d1'], inp['d2']]
    elif op == 'perm':
        bad, idxs = not same(T.f(whole), T.f(inp['perm'])), [whole, inp['perm']]
    elif op == 'dup':
        bad, idxs = not same(T.f(whole), T.f(inp['dup'])), [whole, inp['dup']]
    elif op == 'alone':
        acc = T.f([])
        for i in whole:
            acc = union_result(acc, T.f([i]))
        bad, idxs = not same(T.f(whole), acc), [whole] + [[i] for i in whole]
    else:
        spec = ('ok', sorted(per_row_spec(case, T.typed(whole), prekind, T.dtypes())))
        bad, idxs = not same(T.f(whole), spec), [whole]
    if not bad:
        return False
    # for a recorded finding: fails by the mechanism of that finding; for a replay file: fails outside every recorded finding
    return T.triage(idxs) == fid


def prekind_of(lean):
    k = (lean.get('gen', {}).get('null', {}) or {}).get('kind')
    return k if k in ('strThenNa', 'keepNullThenNa') else detect_prekind()


def detect_frame_strip():
    """from the running package: does get_ram_data re-infer the dtype of an object column?"""
    try:
        import pandas as pd
        from morph_kgc.data_source import python_data
        df = python_data.get_ram_data({'logical_source_value': '{s}'}, ['n'], {'s': pd.DataFrame({'n': pd.Series([7, None], dtype=object)})})
        return 'keepsObject' if str(df['n'].dtype) == 'object' else 'applyInfers'
    except Exception:
        return 'applyInfers'


def detect_prekind():
    """from the running package: is a NULL object stringified by _preprocess_data?"""
    try:
        import pandas as pd
        from morph_kgc.args_parser import load_config_from_argument
        from morph_kgc.materializer import _preprocess_data
        import tempfile
        with tempfile.NamedTemporaryFile('w', suffix='.ttl', delete=False) as f:
            f.write(PREFIX)
        config = load_config_from_argument(cg.config_text(f.name))
        out = _preprocess_data(pd.DataFrame({'v': pd.Series([None, 'a'], dtype=object)}), {'source_type': 'CSV', 'source_name': 'DS'}, {'v'}, config)
        os.unlink(f.name)
        return 'strThenNa' if 'None' in set(out['v']) else 'keepNullThenNa'
    except Exception:
        return 'keepNullThenNa'


# ----------------------------------------------------------------------------------------------------

def datetime_case(ctx):
    """Typed timestamp columns (an in-memory DataFrame and a Parquet file with a datetime64 column): one row set is all midnight,
    another has a time of day.  Whatever text a timestamp is rendered as, it must be the same for the row alone, for its half and for
    the whole table (a column-wise cast picks ONE format per column: `2021-03-01` for an all-midnight column)."""
    import pandas as pd
    import morph_kgc
    d = os.path.join(ctx.tmp, 'dt')
    os.makedirs(d, exist_ok=True)
    midnight = [('1', '2021-03-01 00:00:00'), ('2', '2021-03-02 00:00:00')]
    daytime = [('3', '2021-03-03 10:30:00'), ('4', '2021-03-04 00:00:01')]
    pre = ('@prefix rr: <http://www.w3.org/ns/r2rml#> . @prefix rml: <http://semweb.mmlab.be/ns/rml#> . @prefix ql: <http://semweb.mmlab.be/ns/ql#> .\n')
    body = ('  rr:subjectMap [ rr:template "http://ex/e/{id}" ];\n'
            '  rr:predicateObjectMap [ rr:predicate <http://ex/at>; rr:objectMap [ rml:reference "t" ] ] .\n')

    def frame(rows):
        return pd.DataFrame({'id': [r[0] for r in rows], 't': pd.to_datetime([r[1] for r in rows])})

    def run_frame(rows):
        mp = os.path.join(d, 'mem.ttl')
        with open(mp, 'w') as f:
            f.write(pre + '<http://ex/TM> rml:logicalSource [ rml:source "{df}" ];\n' + body)
        cfg = f'[CONFIGURATION]\nnumber_of_processes=1\nlogging_level=CRITICAL\n[DS]\nmappings={mp}\n'
        return {t.strip() for t in morph_kgc.materialize_set(cfg, {'df': frame(rows)})}

    def run_parquet(rows):
        pq = os.path.join(d, 't.parquet')
        frame(rows).to_parquet(pq)
        mp = os.path.join(d, 'pq.ttl')
        with open(mp, 'w') as f:
            f.write(pre + f'<http://ex/TM> rml:logicalSource [ rml:source "{pq}" ];\n' + body)
        cfg = f'[CONFIGURATION]\nnumber_of_processes=1\nlogging_level=CRITICAL\n[DS]\nmappings={mp}\n'
        return {t.strip() for t in morph_kgc.materialize_set(cfg)}

    runners = [('DataFrame', run_frame)]
    try:
        import pyarrow  # noqa: F401
        runners.append(('Parquet', run_parquet))
    except Exception:   # noqa: BLE001
        ctx.bump('datetime case: pyarrow unavailable')
    for name, run_ in runners:
        inp = {'kind': 'datetime', 'source': name}
        ctx.case(['datetime', name], nontrivial=True, kind=f'typed timestamps, midnight / time-of-day halves ({name})')
        ctx.traces_validated += 3
        try:
            whole, a, b = run_(midnight + daytime), run_(midnight), run_(daytime)
        except Exception as e:   # noqa: BLE001
            ctx.violation(f'{name} source with a datetime64 column fails: {type(e).__name__}: {str(e)[:200]}', inp)
            continue
        if whole != a | b:
            ctx.violation(f'{name}: the result over the whole table is not the union of the results over its halves '
                          f'(a timestamp is rendered differently depending on the other rows of its column): only in the union '
                          f'{sorted((a | b) - whole)[:2]}, only in the whole {sorted(whole - (a | b))[:2]}', inp)


def json_mixed_case(ctx):
    """JSON objects whose key holds numbers and booleans that Python equates (1 == True, 0 == False) next to each other: they are
    different cells ("1" / "True"), so no row may absorb another; JSON file and in-memory dict, whole table against its halves."""
    import morph_kgc
    d = os.path.join(ctx.tmp, 'jsonmixed')
    os.makedirs(d, exist_ok=True)
    # integers and booleans only: a float in the key would turn the integers of its half into floats (finding C11_F1)
    half1 = [{'id': 'a', 'v': 1}, {'id': 'b', 'v': 0}, {'id': 'c', 'v': 7}]
    half2 = [{'id': 'a', 'v': True}, {'id': 'b', 'v': False}, {'id': 'c', 'v': 1}]
    pre = '@prefix rr: <http://www.w3.org/ns/r2rml#> . @prefix rml: <http://semweb.mmlab.be/ns/rml#> . @prefix ql: <http://semweb.mmlab.be/ns/ql#> .\n'
    body = ('  rr:subjectMap [ rr:template "http://ex/e/{id}" ];\n'
            '  rr:predicateObjectMap [ rr:predicate <http://ex/v>; rr:objectMap [ rml:reference "v" ] ] .\n')

    def run_file(rows):
        jp = os.path.join(d, 't.json')
        with open(jp, 'w') as f:
            json.dump({'it': rows}, f)
        mp = os.path.join(d, 'file.ttl')
        with open(mp, 'w') as f:
            f.write(pre + f'<http://ex/TM> rml:logicalSource [ rml:source "{jp}"; rml:referenceFormulation ql:JSONPath; rml:iterator "$.it[*]" ];\n' + body)
        return {t.strip() for t in morph_kgc.materialize_set(f'[CONFIGURATION]\nnumber_of_processes=1\nlogging_level=CRITICAL\n[DS]\nmappings={mp}\n')}

    def run_dict(rows):
        mp = os.path.join(d, 'mem.ttl')
        with open(mp, 'w') as f:
            f.write(pre + '<http://ex/TM> rml:logicalSource [ rml:source "{doc}"; rml:referenceFormulation ql:JSONPath; rml:iterator "$.it[*]" ];\n' + body)
        return {t.strip() for t in morph_kgc.materialize_set(f'[CONFIGURATION]\nnumber_of_processes=1\nlogging_level=CRITICAL\n[DS]\nmappings={mp}\n',
                                                             {'doc': {'it': rows}})}

    for name, run_ in (('JSON file', run_file), ('in-memory dict', run_dict)):
        inp = {'kind': 'json-mixed', 'source': name}
        ctx.case(['json-mixed', name], nontrivial=True, kind=f'numbers and booleans Python equates in one JSON key ({name})')
        ctx.traces_validated += 3
        try:
            whole, a, b = run_(half1 + half2), run_(half1), run_(half2)
            rev = run_(half2 + half1)
        except Exception as e:   # noqa: BLE001
            ctx.violation(f'{name}: {type(e).__name__}: {str(e)[:200]}', inp)
            continue
        if whole != a | b or rev != whole:
            ctx.violation(f'{name}: a key holding 1 / true / 0 / false: the result over the whole table is not the union of the results over its '
                          f'halves or depends on the order of the objects: only in the union {sorted((a | b) - whole)[:2]}, order-dependent '
                          f'{sorted(whole ^ rev)[:2]}', inp)


def run(ctx, lean, findings):
    rng = ctx.rng
    drv = ctx.get_driver() if ctx.model_available else None
    prekind = prekind_of(lean)
    FRAME_STRIP['shape'] = detect_frame_strip()
    ctx.notes.append(f'statement order of _preprocess_data: {prekind}; quote stripping of DataFrame object columns: {FRAME_STRIP["shape"]}')
    gfs = (lean.get('gen', {}).get('rowindep', {}) or {}).get('frame_strip')
    if gfs in ('applyInfers', 'keepsObject') and gfs != FRAME_STRIP['shape']:
        ctx.disagree('translator frame_strip vs the running get_ram_data', {}, gfs, FRAME_STRIP['shape'])
    if not drv:
        ctx.notes.append('driver unavailable: only the direct oracle and the Python mirror are exercised')
    else:
        ctx.notes.append(f'generated facts: {drv.call("c11_facts")}')
    mult = 3 if ctx.escalate else 1
    datetime_case(ctx)
    json_mixed_case(ctx)
    if drv:
        coerce_paths(ctx, drv, rng, ctx.budget(150, 4000) * mult)
        i3_preprocess(ctx, drv, rng, ctx.budget(60, 2000) * mult, prekind)
    tl = ctx.budget(62, 720) * (2 if ctx.escalate else 1)
    csv_doc_cases(ctx, rng, ctx.budget(4, 150) * mult, ctx.elapsed() + ctx.budget(6, 100) * (2 if ctx.escalate else 1))
    n = ctx.budget(400, 40000) * mult
    per_mapping = 3
    base = None
    focus = focus_kinds(lean)
    if focus:
        ctx.notes.append(f'search focused on the source kinds named by the broken obligations: {focus}')
    seen_dis = 0
    cyc = 0
    for it in range(n):
        if it % per_mapping == 0:
            m = it // per_mapping
            if focus and m % 2 == 1:
                kind = focus[(m // 2) % len(focus)]
            else:
                kind = KINDS[cyc % len(KINDS)]
                cyc += 1
            base = gen_case(rng, kind=kind, big=(it % (7 * per_mapping) == 0))
            case = base
        else:
            case = vary_rows(rng, base, big=(it % 11 == 0))
        d = os.path.join(ctx.tmp, f'c{(it // per_mapping) % 40}')
        nv = len(ctx.violations)
        T = oracle_case(ctx, case, d, prekind)
        if drv and (it % 2 == 0 or ctx.escalate):
            whole = list(range(len(case['rows'])))
            model_chain(ctx, drv, case, T, d, whole, prekind)
            if case['kind'] == 'frame' and len(whole) >= 2:
                model_chain(ctx, drv, case, T, d, sorted(rng.sample(whole, rng.randrange(1, len(whole)))), prekind)
        if len(ctx.disagreements) > seen_dis:
            # inputs derived from the breakage: the model and the engine differ on this table, so look harder at it and at its source kind
            seen_dis = len(ctx.disagreements)
            if case['kind'] not in focus:
                focus.append(case['kind'])
            if len(ctx.violations) == nv:
                deep_oracle(ctx, case, T)
        if ctx.elapsed() > tl:
            ctx.notes.append(f'end-to-end loop stopped after {it + 1} tables (time)')
            break
    for f in findings:
        if f.get('property') == PROP and f.get('status') == 'open' and f.get('replay'):
            if replay_input(ctx, f['replay'], os.path.join(ctx.tmp, 'kf_' + f['id']), prekind, fid=f['id']):
                ctx.known(f['id'], f['what'])
            else:
                ctx.notes.append(f'finding {f["id"]} no longer reproduces')


def replay(ctx, data):
    if data.get('input', {}).get('kind') == 'json-mixed':
        before = len(ctx.violations)
        json_mixed_case(ctx)
        return len(ctx.violations) > before
    if data.get('input', {}).get('kind') == 'datetime':
        before = len(ctx.violations)
        datetime_case(ctx)
        return len(ctx.violations) > before
    FRAME_STRIP['shape'] = detect_frame_strip()
    return replay_input(ctx, data['input'], os.path.join(ctx.tmp, 'rp'), detect_prekind())
