"""C15 — typed literals keep their lexical form; canonicalisation never changes a value."""
import io
import os
import re
import sqlite3

PROP = 'C15'
LEAN_TARGETS = ['MorphKgc.Props.C15']
GEN_KEYS = ['canon']
M = 'MorphKgc.Props.C15'
THEOREMS = [{'name': f'Props.C15.{n}', 'module': M} for n in [
    'sites_ok', 'C15_identity', 'C15_integer', 'C15_integer_cases_disjoint', 'C15_no_abort', 'C15_no_abort_literal',
    'C15_boolean', 'C15_dateTime', 'C15_dateTime_valid', 'C15_canon_before_escape', 'C15_literal', 'C15_idempotent',
    'C15_only_documented']]
RULE = ('one case = (site, datatype, cell value): site in {_materialize_template reference-valued, template-valued (two references), '
        '_materialize_fnml_execution (execute_fnml stubbed to copy a column), non-literal term types, _materialize_rml_rule_terms with a '
        'constant / reference-valued datatype map}; datatype in {xsd:integer, boolean, dateTime, decimal, double, date, string, a custom IRI, '
        'look-alikes of the three keys, none}; values: hand-written edge cases + generated integers of 1-60 digits (signs, leading zeros), '
        'N.0/N.00, decimals, exponents, inf/nan, empty, padded, text with characters that need escaping, mixed-case booleans, non-ASCII '
        'case mappings, dateTimes with no/one/several spaces. Every case is run on the real function, parsed back with pyoxigraph and judged by '
        'the property oracle (Python int() on the digit strings, boolean table, dateTime grammar), and compared with the Lean model '
        '(canonicalise, then escape). non-trivial = the datatype is one of the three canonicalised ones, or the value contains an upper-case '
        'letter, a space, a trailing .0 or a character that needs escaping; distinct = (site, datatype, value). End to end: materialize_set on '
        'CSV (rml:datatype, constant and reference-valued rml:datatypeMap, template literal, UDF execution) and on SQLite with inferred datatypes '
        '(catalogue stubbed), each compared with the same run without the ill-typed rows.')
TRUSTED_BASE = [
    'modelled, not verified: pandas Series.str.lower / Series.str.replace(regex=False) / Series.astype(str).str.replace with the one anchored '
    "regular expression '^([+-]?[0-9]+)\\.0\\Z' (re.sub semantics: ASCII-only [0-9], \\Z = end of string) — tied to the code by the "
    'translator (exact pattern strings) and by the cell-level correspondence',
    'str.lower is modelled for ASCII only (Py.asciiLower); on non-ASCII input the engine is compared with Python\'s own str.lower, and the '
    'check verifies over all code points that no non-ASCII character lower-cases into a letter of true/false',
    'the literal escape chain is modelled as Py.applyChain over the generated table (as elsewhere in the library); Spec/Lexical.lean: reading of '
    'XML Schema Part 2 (integer, boolean, dateTime lexical spaces; dateTime without day-of-month/leap-year checks)',
]
ASSUMPTIONS = ['cell values are Python str without lone surrogates (the engine stringifies every cell in _preprocess_data)',
               'only SQLite is available: inferred datatypes are reached by stubbing the catalogue answer']

XSD = 'http://www.w3.org/2001/XMLSchema#'
INT, BOOL, DT = XSD + 'integer', XSD + 'boolean', XSD + 'dateTime'
DATATYPES = [INT, BOOL, DT, XSD + 'decimal', XSD + 'double', XSD + 'date', XSD + 'string', 'http://ex/custom', '',
             XSD + 'Integer', XSD + 'int', XSD + 'datetime', ' ' + INT]
DIGITS = '0123456789'


# ----------------------------------------------------------------------------------------------------
# the property, written independently of the Lean model
# ----------------------------------------------------------------------------------------------------

def is_int_lex(s):
    b = s[1:] if s[:1] in ('+', '-') else s
    return len(b) > 0 and all(c in DIGITS for c in b)


DT_RE = re.compile(r'-?[0-9]{4,}-(0[1-9]|1[0-2])-(0[1-9]|[12][0-9]|3[01])T([01][0-9]|2[0-4]):[0-5][0-9]:[0-5][0-9](\.[0-9]+)?'
                   r'(Z|[+-](0[0-9]|1[0-4]):[0-5][0-9])?', re.ASCII)
BOOLS = {'true': True, 'false': False, '1': True, '0': False}


def is_dt_lex(s):
    return DT_RE.fullmatch(s) is not None


def allowed(dt, v):
    """the lexical forms the property allows for source cell `v` under datatype `dt`: the source form itself, and the documented
    canonical form where one applies (an engine that does not canonicalise at all keeps the lexical form and is within C15)"""
    if dt == INT and v.endswith('.0') and is_int_lex(v[:-2]):
        return {v, v[:-2]}
    if dt == BOOL and v not in BOOLS:
        return {v, v.lower()}
    if dt == DT and not is_dt_lex(v):
        return {v, v.replace(' ', 'T')}
    return {v}


def dt_separator_only(v, u):
    """`u` is `v` with some of its spaces turned into 'T' and nothing else touched: the documented canonicalisation ('T' separator)
    read as weakly as the property states it — an engine that rewrites only the date/time separator space and leaves the other spaces of
    an (ill-typed) value alone is within C15; one that alters any other character is not"""
    return len(u) == len(v) and all(a == b or (a == ' ' and b == 'T') for a, b in zip(v, u))


def judge(dt, v, u):
    """`v` the source cell, `u` the lexical form read back from the produced literal. Returns None or what is wrong."""
    if u in allowed(dt, v):
        # the denoted value, where there is one, is unchanged
        if dt == INT and u != v and int(u) != int(v[:-2]):
            return f'{v!r} became {u!r}: the value changed'
        if dt == BOOL and v.lower() in BOOLS and u in BOOLS and BOOLS[u] != BOOLS[v.lower()]:
            return f'boolean {v!r} changed its value: {u!r}'
        return None
    if dt == INT:
        if is_int_lex(v):
            return f'integer lexical {v!r} was rewritten to {u!r}' + (
                f' (value {int(v)} became {int(u)})' if is_int_lex(u) and len(u) < 4000 else '')
        if v.endswith('.0') and is_int_lex(v[:-2]):
            if is_int_lex(u) and len(u) < 4000:
                return f'{v!r} became {u!r}: the value changed from {int(v[:-2])} to {int(u)}' if int(u) != int(v[:-2]) \
                    else f'{v!r} became {u!r}: digits rewritten (documented form {v[:-2]!r})'
            return f'{v!r} became {u!r}: neither the source form nor the documented form {v[:-2]!r}'
        return f'ill-typed xsd:integer value {v!r} was rewritten to {u!r}'
    if dt == BOOL:
        return f'boolean column: {v!r} became {u!r} (source form or {v.lower()!r} expected)'
    if dt == DT:
        if is_dt_lex(v):
            return f'valid dateTime {v!r} was rewritten to {u!r}'
        if dt_separator_only(v, u):
            return None
        return f'dateTime column: {v!r} became {u!r} (source form or {v.replace(" ", "T")!r} expected)'
    return f'datatype {dt!r}: lexical form {v!r} was rewritten to {u!r}'


def py_escape(s):
    for a, b in (('\\', '\\\\'), ('\n', '\\n'), ('\t', '\\t'), ('\b', '\\b'), ('\f', '\\f'), ('\r', '\\r'), ('"', '\\"'), ("'", "\\'")):
        s = s.replace(a, b)
    return s


def ascii_lower(s):
    return ''.join(chr(ord(c) + 32) if 'A' <= c <= 'Z' else c for c in s)


def nontrivial(dt, v):
    return dt in (INT, BOOL, DT) or v.endswith('.0') or ' ' in v or v != ascii_lower(v) or py_escape(v) != v


def parse_objects(objs):
    """N-Triples objects (as written by the engine) -> list of (lexical, datatype, language) or an error string per item"""
    import pyoxigraph as ox

    def one(doc):
        return [(q.object.value, q.object.datatype.value, q.object.language) if isinstance(q.object, ox.Literal) else ('<term>', str(q.object), None)
                for q in ox.parse(io.BytesIO(doc.encode('utf-8')), 'application/n-triples')]
    lines = [f'<http://r/{i}> <http://p/p> {o} .\n' for i, o in enumerate(objs)]
    try:
        res = one(''.join(lines))
        if len(res) == len(objs):
            return res
    except Exception:
        pass
    out = []
    for ln in lines:
        try:
            r = one(ln)
            out.append(r[0] if len(r) == 1 else 'not exactly one statement')
        except Exception as e:
            out.append(f'not parseable: {e}')
    return out


# ----------------------------------------------------------------------------------------------------
# values
# ----------------------------------------------------------------------------------------------------

def handwritten():
    ints = ['9007199254740993', '0', '7', '-1', '+5', '007', '-0', '+0', '00', '9223372036854775807', '9223372036854775808',
            '-9223372036854775809', '18446744073709551616', '123456789012345678901234567890', '9' * 60, '-' + '1' * 45, '+' + '0' * 20 + '1']
    dotzero = [i + '.0' for i in ints] + ['12.0', '-3.0', '+4.0', '000.0']
    near = ['1.7', '1.00', '1.000', '1.0.0', '.0', '+.0', '-.0', '1.', '.5', '-2.5', '1.0\n', '1.0 ', ' 1.0', '\t12', '12\n', '1e5', '1E+20', '1e5.0',
            'abc.0', '1.0e0', '0x10', '1_000', '1,000', '١٢.0', '１２.0', '١٢', '²', '1.0\r', '1.0\x00', '--1', '+-1', '1-',
            '+', '-', '1 .0', '1. 0', '1.0\n\n', '\n1.0', '1\n.0', '1.0.', '1.0.0.0', '99999999999999999999.00']
    special = ['abc', 'inf', '-inf', 'nan', 'NaN', 'Infinity', 'INF', '', ' ', 'None', 'null', 'ABC', 'Straße', "It's", 'say "hi"', 'back\\slash',
               'tab\there', 'nl\nhere', '\x08\x0c\r', 'a b c', '\\n', '\\', '"', "'", '\x7f\x01']
    bools = ['true', 'false', '1', '0', 'TRUE', 'True', 'FALSE', 'False', 'tRuE', 'T', 'F', 'yes', 'Yes', 'İ', 'ẞ', 'ſ', 'K',
             'TRUE ', 'ΑΣ', 'ǅ', 'ﬁ', 'İstanbul', 'TRUİE', 'FALſE', 'TRUE\n']
    dts = ['2024-02-29T13:45:00', '2024-02-29 13:45:00', '2024-02-29  13:45:00', '2024-02-29 13:45:00 +01:00', '2024-02-29 13:45:00Z',
           '2024-02-29T13:45:00.123+05:30', '2024-02-29', ' 2024-02-29 13:45:00', '2024-02-29 13:45:00 ', '-0044-03-15 12:00:00',
           '2024-02-29t13:45:00', '13:45:00', '2024-02-29TT13:45:00', 'a b', '  ', '12024-01-01 00:00:00.5-14:00', '2024-02-29\t13:45:00',
           '2024-02-29 13:45:00']
    return ints + dotzero + near + special + bools + dts


def random_value(rng):
    k = rng.random()
    if k < 0.40:
        n = rng.choice([1, 2, 3, 5, 9, 15, 16, 17, 18, 19, 20, 25, 30, 40, 60]) if rng.random() < 0.7 else rng.randrange(1, 61)
        s = ''.join(rng.choice(DIGITS) for _ in range(n))
        if rng.random() < 0.25:
            s = '0' * rng.randrange(1, 4) + s
        s = rng.choice(['', '', '', '-', '+']) + s
        return s + rng.choice(['', '', '', '.0', '.0', '.0', '.00', '.5', '.' + str(rng.randrange(1, 10 ** 6)), 'e5', 'E+20', '.0 ', ' ', '.0\n', '.'])
    if k < 0.55:
        w = rng.choice(['true', 'false', 'yes', 'no', '1', '0', 't', 'f'])
        return ''.join(c.upper() if rng.random() < 0.5 else c for c in w) + rng.choice(['', '', '', ' ', 'İ'])
    if k < 0.75:
        y, mo, d, h, mi, s = rng.randrange(0, 3000), rng.randrange(1, 13), rng.randrange(1, 29), rng.randrange(0, 24), rng.randrange(0, 60), rng.randrange(0, 60)
        sep = rng.choice([' ', ' ', ' ', 'T', '  ', '', 't'])
        frac = rng.choice(['', '', '.%d' % rng.randrange(0, 10 ** 6), '.%0*d' % (rng.randrange(1, 7), rng.randrange(0, 100))])
        tz = rng.choice(['', '', 'Z', '+02:00', ' +02:00', '-11:30'])
        return f'{y:04d}-{mo:02d}-{d:02d}{sep}{h:02d}:{mi:02d}:{s:02d}{frac}{tz}'
    alphabet = 'abcXYZ019 .-+eE\\"\'\n\t\r\b\féÉİß€'
    return ''.join(rng.choice(alphabet) for _ in range(rng.randrange(0, 12)))


# ----------------------------------------------------------------------------------------------------
# running the real functions
# ----------------------------------------------------------------------------------------------------

_cfg = None


def config():
    global _cfg
    if _cfg is None:
        from morph_kgc.args_parser import load_config_from_argument
        _cfg = load_config_from_argument('[CONFIGURATION]\nlogging_level=CRITICAL\n[DS]\nmappings=/nonexistent.ttl\n')
    return _cfg


def exc_name(e):
    return 'abort:' + type(e).__name__


def call_site(site, dt, rows):
    """rows: list of tuples of cell values (1 column, or 2 for the template site). Returns the `object` column as a list."""
    import pandas as pd
    from morph_kgc import materializer as mz
    from morph_kgc import constants as K
    cfg = config()
    df = pd.DataFrame({'a': [r[0] for r in rows], 'b': [r[-1] for r in rows]}, dtype=object)
    if site == 'reference':
        out = mz._materialize_template(df, 'a', K.RML_REFERENCE, cfg, 'object', termtype=K.RML_LITERAL, datatype=dt)
    elif site == 'template':
        out = mz._materialize_template(df, 'p{a}m{b}s', K.RML_TEMPLATE, cfg, 'object', termtype=K.RML_LITERAL, datatype=dt)
    elif site == 'fnml':
        saved = mz.execute_fnml

        def stub(data, fnml_df, execution, config):
            data[execution] = data['a']
            return data
        mz.execute_fnml = stub
        try:
            out = mz._materialize_fnml_execution(df, 'EX', None, cfg, 'object', termtype=K.RML_LITERAL, datatype=dt)
        finally:
            mz.execute_fnml = saved
    elif site in ('iri', 'bnode'):
        out = mz._materialize_template(df, 'a', K.RML_REFERENCE, cfg, 'object', termtype=K.RML_IRI if site == 'iri' else K.RML_BLANK_NODE, datatype=dt)
    elif site in ('fnml-iri', 'fnml-bnode'):
        saved = mz.execute_fnml

        def stub(data, fnml_df, execution, config):
            data[execution] = data['a']
            return data
        mz.execute_fnml = stub
        try:
            out = mz._materialize_fnml_execution(df, 'EX', None, cfg, 'object', termtype=K.RML_IRI if site == 'fnml-iri' else K.RML_BLANK_NODE, datatype=dt)
        finally:
            mz.execute_fnml = saved
    else:
        raise ValueError(site)
    return list(out['object'])


def run_rows(site, dt, rows):
    """per row: the produced string, or 'abort:<Exception>' (the frame is retried row by row when it raises)"""
    try:
        return call_site(site, dt, rows), None
    except Exception as e:
        frame_exc = exc_name(e)
    out = []
    for r in rows:
        try:
            out.append(call_site(site, dt, [r])[0])
        except Exception as e:
            out.append(exc_name(e))
    return out, frame_exc


def expected_unescaped(site, parts):
    return parts[0] if site != 'template' else 'p' + parts[0] + 'm' + parts[1] + 's'


def check_cells(ctx, drv, site, dt, rows, record=True):
    """the oracle and the correspondence on one frame; returns the list of violation dicts (also recorded in ctx)"""
    found = []
    objs, frame_exc = run_rows(site, dt, rows)
    ok_idx = [i for i, o in enumerate(objs) if not o.startswith('abort:')]
    parsed = dict(zip(ok_idx, parse_objects([objs[i] for i in ok_idx]))) if ok_idx else {}
    model_site = 'fnml' if site == 'fnml' else 'template'
    for i, r in enumerate(rows):
        cells = list(r) if site == 'template' else [r[0]]
        inp = {'kind': 'cell', 'site': site, 'datatype': dt, 'value': cells[0] if len(cells) == 1 else cells}
        if record:
            ctx.case([site, dt, cells], nontrivial=any(nontrivial(dt, c) for c in cells), kind=f'{site}:{dt.replace(XSD, "xsd:") or "(none)"}',
                     sample={'site': site, 'datatype': dt, 'value': cells[0][:40], 'produced': objs[i][:60]})
        # ---- direct oracle ----
        what = None
        if objs[i].startswith('abort:'):
            what = f'value {cells!r} in a {dt or "plain"} column aborts the run ({objs[i][6:]})'
        else:
            p = parsed[i]
            if isinstance(p, str):
                what = f'value {cells!r}: produced term {objs[i]!r} is {p}'
            else:
                u = p[0]
                if site == 'template':
                    # the constant parts are fixed; every reference value may take any of its allowed forms
                    combos = {expected_unescaped(site, [x, y]) for x in allowed(dt, cells[0]) for y in allowed(dt, cells[1])}
                    if u not in combos:
                        what = f'template literal over {cells!r} ({dt}): produced {u!r}, the property allows {sorted(combos)[:4]!r}'
                else:
                    what = judge(dt, cells[0], u)
        if what:
            v = {'what': f'[{site}] {what}', 'input': inp}
            found.append(v)
        # ---- correspondence with the Lean model ----
        if drv is not None:
            outside = dt == BOOL and any(c.lower() != ascii_lower(c) for c in cells)
            if outside:
                ctx.bump('outside the model (non-ASCII case mapping): compared with str.lower')
                ref = '"' + expected_unescaped(site, [py_escape(c.lower()) for c in cells]) + '"'
                if objs[i] != ref:
                    found.append({'what': f'[{site}] boolean column, non-ASCII value {cells!r}: produced {objs[i]!r}, str.lower + escape gives {ref!r}',
                                  'input': inp})
            else:
                ms = [drv.call('literal_lex', site=model_site, datatype=dt, value=c) for c in cells]
                if any('unsupported' in m for m in ms):
                    ctx.bump('model: generated shape unsupported (old/unknown shape)')
                elif any('abort' in m for m in ms):
                    mo = 'abort:' + [m['abort'] for m in ms if 'abort' in m][0]
                    if mo != objs[i]:
                        ctx.disagree('I2 ' + site, inp, mo, objs[i])
                else:
                    mo = '"' + expected_unescaped(site, [m['ok'] for m in ms]) + '"'
                    if mo != objs[i]:
                        ctx.disagree('I2 ' + site, inp, mo, objs[i])
    if frame_exc and len(rows) > 1 and any(not o.startswith('abort:') for o in objs):
        bad = [list(r) for r, o in zip(rows, objs) if o.startswith('abort:')][:3]
        found.append({'what': f'[{site}] ill-typed value(s) {bad!r} in a {dt} column abort the frame ({frame_exc[6:]}): the other '
                              f'{sum(1 for o in objs if not o.startswith("abort:"))} statements of the rule are lost',
                      'input': {'kind': 'frame', 'site': site, 'datatype': dt, 'values': [list(r) for r in rows][:40]}})
    if record:
        for v in found:
            ctx.violation(v['what'], v['input'], finding=None)
    return found


def check_nonliteral(ctx, site, dt, values):
    """term types other than Literal are never canonicalised by datatype"""
    found = []
    objs, _ = run_rows(site, dt, [(v,) for v in values])
    for v, o in zip(values, objs):
        want = {'iri': '<' + v + '>', 'bnode': '_:' + v, 'fnml-iri': '<' + v.strip() + '>', 'fnml-bnode': '_:' + v}[site]
        ctx.case([site, dt, v], nontrivial=nontrivial(dt, v), kind=f'{site}:non-literal')
        if o != want:
            found.append({'what': f'[{site}] non-literal term over {v!r} with datatype argument {dt!r}: produced {o!r}, expected {want!r}',
                          'input': {'kind': 'nonliteral', 'site': site, 'datatype': dt, 'value': v}})
    for f in found:
        ctx.violation(f['what'], f['input'])
    return found


def check_rule_terms(ctx, dt_kind, dt, values, dtcol=None):
    """_materialize_rml_rule_terms: object + `^^` + datatype assembly (materializer.py L197-212)"""
    import pandas as pd
    from morph_kgc import materializer as mz
    from morph_kgc import constants as K
    found = []
    rule = pd.Series({
        'subject_map_type': K.RML_TEMPLATE, 'subject_map_value': 'http://ex/r/{id}', 'subject_termtype': K.RML_IRI,
        'predicate_map_type': K.RML_CONSTANT, 'predicate_map_value': 'http://ex/p',
        'object_map_type': K.RML_REFERENCE, 'object_map_value': 'a', 'object_termtype': K.RML_LITERAL,
        'lang_datatype': K.RML_DATATYPE_MAP, 'lang_datatype_map_type': K.RML_CONSTANT if dt_kind == 'constant' else K.RML_REFERENCE,
        'lang_datatype_map_value': dt if dt_kind == 'constant' else 'dtc'})
    df = pd.DataFrame({'id': [str(i) for i in range(len(values))], 'a': values, 'dtc': dtcol or [dt] * len(values)}, dtype=object)
    inp = {'kind': 'rule-terms', 'datatype_map': dt_kind, 'datatype': dt, 'values': values, 'dtcol': dtcol}
    try:
        out = mz._materialize_rml_rule_terms(df, rule, None, config())
        objs = list(out['object'])
    except Exception as e:
        found.append({'what': f'[rule-terms] {dt_kind} datatype map {dt!r} over {values[:5]!r}…: the run aborts ({type(e).__name__})', 'input': inp})
        objs = []
    parsed = parse_objects(objs) if objs else []
    for i, p in enumerate(parsed):
        v = values[i]
        eff_dt = dt if dt_kind == 'constant' else ''            # a reference-valued datatype map never canonicalises
        want_dt = dt if dt_kind == 'constant' else dtcol[i]
        ctx.case(['rule-terms', dt_kind, want_dt, v], nontrivial=True, kind=f'rule-terms:{dt_kind}')
        if isinstance(p, str):
            found.append({'what': f'[rule-terms] {v!r}: produced {objs[i]!r} is {p}', 'input': {**inp, 'values': [v], 'dtcol': [want_dt]}})
            continue
        what = judge(eff_dt, v, p[0])
        if what is None and p[1] != want_dt:
            what = f'{v!r}: datatype IRI {p[1]!r} instead of {want_dt!r}'
        if what:
            found.append({'what': f'[rule-terms/{dt_kind}] {what}', 'input': {**inp, 'values': [v], 'dtcol': [want_dt] if dtcol else None}})
    for f in found:
        ctx.violation(f['what'], f['input'])
    return found


# ----------------------------------------------------------------------------------------------------
# end to end
# ----------------------------------------------------------------------------------------------------

E2E_PREDS = {  # predicate -> (datatype that drives the canonicalisation, datatype expected on the literal or None = from the dt column)
    'int': (INT, INT), 'bool': (BOOL, BOOL), 'dt': (DT, DT), 'dec': (XSD + 'decimal', XSD + 'decimal'), 'plain': ('', XSD + 'string'),
    'dmapc': (INT, INT), 'dmapr': ('', None), 'fn': (INT, INT)}

MAPPING_CSV = '''@prefix rml: <http://w3id.org/rml/> .
@prefix ex: <http://ex/> .
@prefix xsd: <http://www.w3.org/2001/XMLSchema#> .
<http://ex/TM> a rml:TriplesMap;
  rml:logicalSource [ rml:source "{csv}"; rml:referenceFormulation rml:CSV ];
  rml:subjectMap [ rml:template "http://ex/r/{{id}}" ];
  rml:predicateObjectMap [ rml:predicate ex:int ; rml:objectMap [ rml:reference "v" ; rml:datatype xsd:integer ] ];
  rml:predicateObjectMap [ rml:predicate ex:bool ; rml:objectMap [ rml:reference "v" ; rml:datatype xsd:boolean ] ];
  rml:predicateObjectMap [ rml:predicate ex:dt ; rml:objectMap [ rml:reference "v" ; rml:datatype xsd:dateTime ] ];
  rml:predicateObjectMap [ rml:predicate ex:dec ; rml:objectMap [ rml:reference "v" ; rml:datatype xsd:decimal ] ];
  rml:predicateObjectMap [ rml:predicate ex:plain ; rml:objectMap [ rml:reference "v" ] ];
  rml:predicateObjectMap [ rml:predicate ex:dmapc ; rml:objectMap [ rml:reference "v" ; rml:datatypeMap [ rml:constant xsd:integer ] ] ];
  rml:predicateObjectMap [ rml:predicate ex:dmapr ; rml:objectMap [ rml:reference "v" ; rml:datatypeMap [ rml:reference "dtc" ] ] ];
  rml:predicateObjectMap [ rml:predicate ex:fn ; rml:objectMap [ rml:functionExecution <http://ex/Exec> ; rml:datatype xsd:integer ] ] .
<http://ex/Exec> rml:function ex:ident ;
  rml:input [ rml:parameter ex:p ; rml:inputValueMap [ rml:reference "v" ] ] .
'''
UDF = "@udf(fun_id='http://ex/ident', x='http://ex/p')\ndef ident(x):\n    return x\n"


def parse_lines(lines):
    import pyoxigraph as ox
    res = {}
    for ln in lines:
        qs = list(ox.parse(io.BytesIO((ln.strip() + ' .\n').encode('utf-8')), 'application/n-triples'))
        q = qs[0]
        res[(q.subject.value.rsplit('/', 1)[1], q.predicate.value.rsplit('/', 1)[1])] = (q.object.value, q.object.datatype.value)
    return res


def e2e_csv_run(ctx, rows, tag, delimiter=','):
    """rows: list of (id, value, dt-column value). Returns {(id, pred): (lexical, datatype)} or raises."""
    import csv
    import morph_kgc
    d = os.path.join(ctx.tmp, 'e2e')
    os.makedirs(d, exist_ok=True)
    cp = os.path.join(d, f'd_{tag}.csv')
    with open(cp, 'w', newline='', encoding='utf-8') as f:
        w = csv.writer(f, delimiter=delimiter)
        w.writerow(['id', 'v', 'dtc'])
        w.writerows(rows)
    mp = os.path.join(d, f'm_{tag}.ttl')
    with open(mp, 'w') as f:
        f.write(MAPPING_CSV.replace('{csv}', cp).replace('{{', '{').replace('}}', '}'))
    up = os.path.join(d, 'udf.py')
    with open(up, 'w') as f:
        f.write(UDF)
    cfg = f'[CONFIGURATION]\nlogging_level=CRITICAL\nnumber_of_processes=1\nudfs={up}\nna_values=NULLCELL\n[DS]\nmappings={mp}\n'
    return parse_lines(morph_kgc.materialize_set(cfg))


def judge_e2e(rows, res, preds, label):
    found = []
    for rid, v, dtc in rows:
        for pred, (drive, want_dt) in preds.items():
            got = res.get((rid, pred))
            if got is None:
                found.append(f'[{label}] row {rid} ({v!r}): no statement for predicate {pred}')
                continue
            what = judge(drive, v, got[0])
            if what is None and got[1] != (want_dt if want_dt is not None else dtc):
                what = f'{v!r}: datatype {got[1]!r}'
            if what:
                found.append(f'[{label}/{pred}] {what}')
    return found


def check_e2e_csv(ctx, good, bad, record=True, delimiter=','):
    """`good`: well-typed values, `bad`: ill-typed ones; both runs must succeed and the good rows must not depend on the bad ones"""
    rows_all = [(f'g{i}', v, rng_dt) for i, (v, rng_dt) in enumerate(good)] + [(f'b{i}', v, d) for i, (v, d) in enumerate(bad)]
    rows_good = [r for r in rows_all if r[0].startswith('g')]
    inp = {'kind': 'e2e-csv', 'good': good, 'bad': bad, 'delimiter': delimiter}
    found = []
    try:
        res_good = e2e_csv_run(ctx, rows_good, 'good', delimiter)
    except Exception as e:
        res_good = None
        found.append(f'[e2e-csv] run over well-typed rows only aborts: {type(e).__name__}: {str(e)[:120]}')
    try:
        res_all = e2e_csv_run(ctx, rows_all, 'all', delimiter)
    except Exception as e:
        res_all = None
        found.append(f'[e2e-csv] ill-typed cells {[b[0] for b in bad][:6]!r} abort the whole run ({type(e).__name__}: {str(e)[:100]}): '
                     f'{len(rows_good) * len(E2E_PREDS)} statements of other rows are lost')
    if res_all is not None:
        found += judge_e2e(rows_all, res_all, E2E_PREDS, 'e2e-csv')
        if res_good is not None:
            sub = {k: v for k, v in res_all.items() if k[0].startswith('g')}
            if sub != res_good:
                found.append(f'[e2e-csv] statements of well-typed rows differ when ill-typed rows are present: {sorted(set(sub.items()) ^ set(res_good.items()))[:4]}')
    elif res_good is not None:
        found += judge_e2e(rows_good, res_good, E2E_PREDS, 'e2e-csv')
    if record:
        for v, _ in good + bad:
            ctx.case(['e2e-csv', delimiter, v], nontrivial=True, kind='e2e-csv' if delimiter == ',' else f'e2e-csv delimiter {delimiter!r} (inferred)')
        ctx.traces_validated += 2
        for w in found:
            ctx.violation(w, inp)
    return found


class PdShim:
    def __init__(self, pd, f):
        self._pd = pd
        self.read_sql_query = f

    def __getattr__(self, n):
        return getattr(self._pd, n)


SQL_COLS = {'A': ('INTEGER', INT), 'B': ('BOOLEAN', BOOL), 'C': ('TIMESTAMP', DT), 'D': ('DECIMAL(10,2)', XSD + 'decimal'), 'E': ('varchar(9)', None)}


def e2e_sql_run(ctx, rows, tag):
    import pandas as pd
    import morph_kgc
    from morph_kgc.data_source import relational_db as rdb
    d = os.path.join(ctx.tmp, 'e2e')
    os.makedirs(d, exist_ok=True)
    db = os.path.join(d, f'db_{tag}.sqlite')
    if os.path.exists(db):
        os.remove(db)
    con = sqlite3.connect(db)
    con.execute('CREATE TABLE T (ID TEXT, A TEXT, B TEXT, C TEXT, D TEXT, E TEXT)')
    con.executemany('INSERT INTO T VALUES (?,?,?,?,?,?)', [(rid, v, v, v, v, v) for rid, v in rows])
    con.commit()
    con.close()
    mp = os.path.join(d, 'msql.ttl')
    with open(mp, 'w') as f:
        f.write('''@prefix rr: <http://www.w3.org/ns/r2rml#> .
@prefix ex: <http://ex/> .
<http://ex/TM> a rr:TriplesMap; rr:logicalTable [ rr:tableName "T" ];
  rr:subjectMap [ rr:template "http://ex/r/{ID}" ];
''' + '\n'.join(f'  rr:predicateObjectMap [ rr:predicate ex:{c} ; rr:objectMap [ rr:column "{c}" ] ];' for c in SQL_COLS)[:-1] + ' .\n')
    real = pd.read_sql_query

    def fake(q, con=None, **kw):
        m = re.search(r"typeof\('([^']*)'\)", q)
        if m:
            return pd.DataFrame({'data_type': [SQL_COLS.get(m.group(1), ('text', None))[0]]})
        return real(q, con=con, **kw)
    saved = rdb.pd
    rdb.pd = PdShim(pd, fake)
    try:
        cfg = (f'[CONFIGURATION]\ninfer_sql_datatypes=yes\nnumber_of_processes=1\nlogging_level=CRITICAL\nna_values=NULLCELL\n'
               f'[DS]\nmappings={mp}\ndb_url=sqlite:///{db}\n')
        return parse_lines(morph_kgc.materialize_set(cfg))
    finally:
        rdb.pd = saved


def check_e2e_sql(ctx, good, bad, record=True):
    preds = {c: ((dt or ''), (dt or XSD + 'string')) for c, (_, dt) in SQL_COLS.items()}
    rows_all = [(f'g{i}', v) for i, v in enumerate(good)] + [(f'b{i}', v) for i, v in enumerate(bad)]
    rows_good = [r for r in rows_all if r[0].startswith('g')]
    inp = {'kind': 'e2e-sql', 'good': good, 'bad': bad}
    found = []
    res = {}
    for tag, rows in (('good', rows_good), ('all', rows_all)):
        try:
            res[tag] = e2e_sql_run(ctx, rows, tag)
        except Exception as e:
            res[tag] = None
            found.append(f'[e2e-sql] inferred datatypes, {"ill-typed cells " + repr(bad[:6]) if tag == "all" else "well-typed rows only"}: '
                         f'the run aborts ({type(e).__name__}: {str(e)[:100]})')
    if res['all'] is not None:
        found += judge_e2e([(r[0], r[1], None) for r in rows_all], res['all'], preds, 'e2e-sql')
        if res['good'] is not None and {k: v for k, v in res['all'].items() if k[0].startswith('g')} != res['good']:
            found.append('[e2e-sql] statements of well-typed rows differ when ill-typed rows are present')
    elif res['good'] is not None:
        found += judge_e2e([(r[0], r[1], None) for r in rows_good], res['good'], preds, 'e2e-sql')
    if record:
        for v in good + bad:
            ctx.case(['e2e-sql', v], nontrivial=True, kind='e2e-sql')
        ctx.traces_validated += 2
        for w in found:
            ctx.violation(w, inp)
    return found


# ----------------------------------------------------------------------------------------------------

def check_lower_assumption(ctx):
    """A1: str.lower on a non-ASCII character never yields a letter of true/false (so `lower(v)` is a boolean lexical only for ASCII v,
    where str.lower = Py.asciiLower); and str.lower = asciiLower on ASCII."""
    letters = set('truefals10')
    bad = [cp for cp in range(128, 0x110000) if not 0xD800 <= cp <= 0xDFFF and letters & set(chr(cp).lower())]
    bad += [cp for cp in range(128) if chr(cp).lower() != ascii_lower(chr(cp))]
    if bad:
        ctx.disagree('A1 str.lower vs asciiLower', {'code_points': bad[:10]}, 'ASCII-only case mapping suffices for the boolean lexical space',
                     'a non-ASCII character lower-cases into a letter of true/false')
    ctx.bump('A1: code points scanned for str.lower', 0x110000 - 0x800)


def spec_correspondence(ctx, drv, values):
    """the Lean specification predicates against the Python oracle's (Python int() on arbitrary digit strings)"""
    for v in values:
        s = drv.call('c15_spec', value=v)
        mine = {'integerLexical': is_int_lex(v), 'integerDotZero': v.endswith('.0') and is_int_lex(v[:-2]),
                'intValue': str(int(v)) if is_int_lex(v) else None,
                'booleanLexicalLower': ascii_lower(v) in BOOLS, 'boolValueLower': BOOLS.get(ascii_lower(v)),
                'dateTimeLexical': is_dt_lex(v)}
        ctx.bump('spec predicates compared')
        if s != mine:
            ctx.disagree('S1 Spec.Lexical vs oracle', {'value': v}, s, mine)


def run(ctx, lean, findings):
    rng = ctx.rng
    drv = ctx.get_driver() if ctx.model_available else None
    if drv is None:
        ctx.notes.append('driver unavailable: oracle only')
    check_lower_assumption(ctx)

    base = handwritten()
    n_rand = ctx.budget(2500, 40000) * (3 if ctx.escalate else 1)
    values = base + [random_value(rng) for _ in range(n_rand)]
    values = list(dict.fromkeys(v for v in values))
    if drv:
        spec_correspondence(ctx, drv, values[:ctx.budget(400, 4000)])

    # ---- cell level: both sites, all datatypes -------------------------------------------------------------
    for dt in DATATYPES:
        major = dt in (INT, BOOL, DT, XSD + 'decimal', XSD + 'string', '')
        vals = values if major else values[:ctx.budget(150, 1500)]
        for site in ('reference', 'fnml'):
            check_cells(ctx, drv, site, dt, [(v,) for v in vals])
        tv = vals[:ctx.budget(200, 2000)]
        pairs = [(v, tv[(i * 7 + 3) % len(tv)]) for i, v in enumerate(tv)]
        check_cells(ctx, drv, 'template', dt, pairs)
        for site in ('iri', 'bnode', 'fnml-iri', 'fnml-bnode'):
            check_nonliteral(ctx, site, dt, [v for v in vals[:ctx.budget(60, 400)] if v])

    # ---- object + ^^datatype assembly ------------------------------------------------------------------------
    sample = values[:ctx.budget(150, 1500)]
    for dt in (INT, BOOL, DT, XSD + 'decimal', 'http://ex/custom'):
        check_rule_terms(ctx, 'constant', dt, sample)
    dtcol = [rng.choice([INT, BOOL, DT, XSD + 'decimal', 'http://ex/custom']) for _ in sample]
    check_rule_terms(ctx, 'reference', None, sample, dtcol=dtcol)

    # ---- end to end --------------------------------------------------------------------------------------------
    plain = [v for v in values if v and v.strip() == v and '\n' not in v and '\r' not in v and '\x00' not in v and v not in ('nan', 'NULLCELL')]
    for _ in range(ctx.budget(2, 12)):
        good = ['12', '-7', '12.0', '9007199254740993', '123456789012345678901234567890', 'true', '2024-02-29T13:45:00'] + \
               [str(rng.randrange(10 ** rng.randrange(1, 40))) for _ in range(4)]
        bad = rng.sample(plain, min(len(plain), ctx.budget(40, 200))) + ['abc', '1.7', 'inf', '1e5', "It's", 'say "hi"']
        dts = [INT, BOOL, DT, XSD + 'decimal', 'http://ex/custom']
        check_e2e_csv(ctx, [(v, rng.choice(dts)) for v in good], [(v, rng.choice(dts)) for v in bad])
        check_e2e_sql(ctx, good, bad)
    # a delimiter other than comma / tab goes through the reader's second attempt (delimiter inference); the value column holds
    # numeric-looking text only, so a reader that lets pandas choose the column type would re-render every cell
    for delim in (';', '|'):
        numeric = ['007', '1.50', '1e5', '0.12345678901234567891', '-0.0', '10.0', '00', '3.0', '1E-2', '0.5', '5.00', '+5', '9007199254740993'] + \
                  [f'{rng.randrange(1000)}.{rng.randrange(10 ** 6):06d}0' for _ in range(3)] + ['0' * rng.randrange(1, 4) + str(rng.randrange(1, 10 ** 6)) for _ in range(3)]
        for dt in (XSD + 'decimal', 'http://ex/custom', INT):
            check_e2e_csv(ctx, [(v, dt) for v in numeric], [], delimiter=delim)


def replay(ctx, data):
    inp = data['input']
    kind = inp.get('kind')
    if kind == 'cell':
        v = inp['value']
        rows = [tuple(v)] if isinstance(v, list) else [(v,)]
        return bool(check_cells(ctx, None, inp['site'], inp['datatype'], rows, record=False))
    if kind == 'frame':
        return bool(check_cells(ctx, None, inp['site'], inp['datatype'], [tuple(r) for r in inp['values']], record=False))
    if kind == 'nonliteral':
        return bool(check_nonliteral(ctx, inp['site'], inp['datatype'], [inp['value']]))
    if kind == 'rule-terms':
        return bool(check_rule_terms(ctx, inp['datatype_map'], inp['datatype'], inp['values'], dtcol=inp.get('dtcol')))
    if kind == 'e2e-csv':
        return bool(check_e2e_csv(ctx, [tuple(x) for x in inp['good']], [tuple(x) for x in inp['bad']], record=False, delimiter=inp.get('delimiter', ',')))
    if kind == 'e2e-sql':
        return bool(check_e2e_sql(ctx, inp['good'], inp['bad'], record=False))
    raise ValueError(f'unknown replay kind {kind}')
