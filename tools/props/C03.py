"""C03 — mapping groups are pairwise disjoint, so the output has no duplicate statements."""
import os
import re
import subprocess
import sys

import coregen as cg
import corecases as cc
import vlib
import partgen as pg

PROP = 'C03'
LEAN_TARGETS = ['MorphKgc.Props.C03', 'MorphKgc.Props.CoreFuncs', 'MorphKgc.Props.PartFuncs']
GEN_KEYS = ['group_set', 'core', 'part']
M = 'MorphKgc.Props.C03'
THEOREMS = [{'name': f'Props.C03.{n}', 'module': M} for n in [
    'C03_partial_separation', 'C03_maximal_separation', 'C03_disjoint_partial', 'C03_disjoint_maximal', 'C03_disjoint',
    'C03_disjoint_partial_syntactic', 'C03_file_nodup', 'tokenSafe_of_synSafe', 'C03_F1_ntriples_graph_only', 'C03_F1_nquads_differ',
    'C03_F2_reference_iri_breaks_tokens', 'C03_F3_literal_type_on_iri', 'C03_group_accumulator', 'C03_group_no_duplicates',
    'C03_group_list_counterwitness']] + [
    {'name': 'Py.scan_separates', 'module': 'MorphKgc.Lemmas.Scan'}, {'name': 'Py.prefix_interval', 'module': 'MorphKgc.Lemmas.Scan'}]
# the model functions these theorems are about are EQUAL to the functions translated from /repo's source (Gen/CoreFuncs.lean)
THEOREMS += [{'name': f'Props.CoreFuncs.{n}', 'module': 'MorphKgc.Props.CoreFuncs'} for n in ['inv_eq', 'refs_eq']]
# the scan loops of mapping_partitioner.py, translated from /repo (Gen/PartFuncs.lean), are equal to Model.scanStep / invOf
THEOREMS += [{'name': f'Props.PartFuncs.{n}', 'module': 'MorphKgc.Props.PartFuncs'} for n in ['partial_S_eq', 'partial_P_eq', 'partial_O_eq', 'partial_G_eq', 'maximal_S_eq', 'maximal_P_eq', 'maximal_O_eq', 'maximal_G_eq', 'maximalPass_eq', 'term_invariants_step_eq', 'sort_keys', 'keyNames_cells', 'initial_scalars', 'enforce_shapes', 'genPartialStep_eq', 'partialPass_is_translated_loop', 'genMaximalStep_eq', 'maximalPass_is_translated_loop']]
RULE = ('generated documents (term maps with equal / nested / interleaved constant prefixes, several graph maps, typed and tagged literals, '
        'blank nodes) x tables whose cells are drawn from a Unicode alphabet AND from values assembled out of the mapping\'s own constants '
        '(data the grouping never saw); each mapping group is materialized separately in-process (the function the CLI workers run) and all '
        'pairs of groups are intersected, under PARTIAL-AGGREGATIONS and MAXIMAL, in both formats; a few real CLI runs per check compare the '
        'number of distinct lines with the logged total and look for duplicate lines within and across files. '
        'non-trivial = at least two groups with non-empty results; distinct = hash of (document, tables, mode, format).')
TRUSTED_BASE = [
    'Model.partitionLabels as validated by the C02 correspondence (I5); Model.rowTriple as validated by the C01 correspondence (I7)',
    'modelled, not verified: pandas groupby on the label column',
]
ASSUMPTIONS = ['the CLI is run with number_of_processes=1 here (scheduling is C04)']


def group_sets(cfg_text):
    """statements of every mapping group, computed with the function the CLI workers run"""
    from morph_kgc.materializer import _materialize_mapping_group_to_set
    from morph_kgc.constants import RML_TRIPLES_MAP_CLASS
    rml_df, fnml_df, config = cg.real_rules(cfg_text)
    asserted = rml_df.loc[rml_df['triples_map_type'] == RML_TRIPLES_MAP_CLASS]
    out = {}
    for label, group in asserted.groupby(by='mapping_partition'):
        out[label] = set(_materialize_mapping_group_to_set(group, rml_df, fnml_df, config))
    return out, rml_df


def adversarial_rows(rng, doc, cols):
    """cells assembled from the mapping's own constants: the kind of data that could make two groups collide"""
    consts = [tm['value'] for _, tm, _ in cc.all_termmaps(doc) if tm.get('kind') == 'constant' and tm['value'] != 'DEFAULT']
    pres = [tm['tpl']['pre'] for _, tm, _ in cc.all_termmaps(doc) if tm.get('tpl')]
    diffs = [q[len(p_):] for p_ in pres + consts for q in pres + consts if q != p_ and q.startswith(p_)]
    pool = consts + pres + ['a', 'b', 'c'] + diffs + [x + 'a' for x in diffs]
    rows = []
    for _ in range(rng.randrange(2, 5)):
        r = {}
        for c in cols:
            k = rng.random()
            if k < 0.35:
                r[c] = rng.choice('abc')
            elif k < 0.6:
                r[c] = rng.choice(pool)
            elif k < 0.85:
                r[c] = f'{rng.choice("abc")}> <{rng.choice(consts or ["http://ex.org/p/a"])}> <{rng.choice("abc")}'
            else:
                r[c] = rng.choice(pool) + rng.choice(['', '/', 'x', '> <'])
        rows.append(r)
    return rows


def crafted_f2_case(d):
    """two rules that differ in their constant predicates, reference-valued IRI subject and object: C03_F2"""
    os.makedirs(d, exist_ok=True)
    p1, p2 = 'http://ex.org/p/a', 'http://ex.org/p/b'
    rows = [{'s': f'a> <{p2}> <b', 'o': 'c'}, {'s': 'a', 'o': f'b> <{p1}> <c'}]
    path = os.path.join(d, 't0.csv')
    assert cg.write_csv(path, ['s', 'o'], rows)
    def tm(i, p):
        return {'id': f'http://ex.org/tm/T{i}', 'source': path,
                'subject': {'kind': 'reference', 'value': 's', 'termtype': 'iri', 'classes': [], 'graphs': []},
                'poms': [{'predicates': [{'kind': 'constant', 'value': p, 'termtype': 'iri'}],
                          'objects': [{'kind': 'reference', 'value': 'o', 'termtype': 'iri'}], 'graphs': []}]}
    doc = {'tms': [tm(1, p1), tm(2, p2)]}
    c = cc.Case(d, doc, {path: rows}, {path: ['s', 'o']})
    c.write_mapping()
    return c


def crafted_f1_case(d):
    os.makedirs(d, exist_ok=True)
    rows = [{'id': '1'}, {'id': '2'}]
    path = os.path.join(d, 't0.csv')
    assert cg.write_csv(path, ['id'], rows)
    doc = {'tms': [{'id': 'http://ex.org/tm/T', 'source': path,
                    'subject': cg.tpl_map({'pre': 'http://ex.org/s/', 'parts': [['id', '']]}, 'iri') | {'classes': [], 'graphs': []},
                    'poms': [{'predicates': [{'kind': 'constant', 'value': 'http://ex.org/p', 'termtype': 'iri'}],
                              'objects': [{'kind': 'constant', 'value': 'http://ex.org/o', 'termtype': 'iri'}],
                              'graphs': [{'kind': 'constant', 'value': 'http://ex.org/G1', 'termtype': 'iri'},
                                         {'kind': 'constant', 'value': 'http://ex.org/G2', 'termtype': 'iri'}]}]}]}
    c = cc.Case(d, doc, {path: rows}, {path: ['id']})
    c.write_mapping()
    return c


def collapse_case(d, variant):
    """distinct source rows that collapse to ONE statement inside a single rule (so only the per-group set removes the
    duplicate): a two-reference template whose values concatenate equally, percent-encoding that maps different rows to
    different text but a typed literal whose canonical form is shared, and a many-to-one join"""
    os.makedirs(d, exist_ok=True)
    const = lambda v: {'kind': 'constant', 'value': v, 'termtype': 'iri'}
    path = os.path.join(d, 't0.csv')
    if variant == 'concat':
        rows = [{'a': '1', 'b': '23'}, {'a': '12', 'b': '3'}, {'a': '9', 'b': '9'}]
        cols = ['a', 'b']
        subj = dict(cg.tpl_map({'pre': 'http://ex.org/s/', 'parts': [['a', ''], ['b', '']]}, 'iri'), classes=[], graphs=[])
        poms = [{'predicates': [const('http://ex.org/p')], 'objects': [const('http://ex.org/o')], 'graphs': []}]
        tms = [{'id': 'http://ex.org/tm/K', 'source': path, 'subject': subj, 'poms': poms}]
    elif variant == 'canon':
        rows = [{'k': 'x', 'v': 'TRUE'}, {'k': 'x', 'v': 'true'}, {'k': 'x', 'v': 'True'}, {'k': 'y', 'v': 'false'}]
        cols = ['k', 'v']
        subj = dict(cg.tpl_map({'pre': 'http://ex.org/s/', 'parts': [['k', '']]}, 'iri'), classes=[], graphs=[])
        poms = [{'predicates': [const('http://ex.org/p')],
                 'objects': [{'kind': 'reference', 'value': 'v', 'termtype': 'literal', 'datatype': cg.XSD + 'boolean'}], 'graphs': []}]
        tms = [{'id': 'http://ex.org/tm/K', 'source': path, 'subject': subj, 'poms': poms}]
    else:  # join: children c1, c2 of the same subject point to the same parent subject
        rows = [{'s': 's1', 'c': 'c1', 'd': 'math'}, {'s': 's1', 'c': 'c2', 'd': 'math'}, {'s': 's2', 'c': 'c3', 'd': 'art'}]
        cols = ['s', 'c', 'd']
        child = dict(cg.tpl_map({'pre': 'http://ex.org/s/', 'parts': [['s', '']]}, 'iri'), classes=[], graphs=[])
        parent = dict(cg.tpl_map({'pre': 'http://ex.org/d/', 'parts': [['d', '']]}, 'iri'), classes=[], graphs=[])
        tms = [{'id': 'http://ex.org/tm/Child', 'source': path, 'subject': child,
                'poms': [{'predicates': [const('http://ex.org/in')], 'objects': [{'parent': 'http://ex.org/tm/Parent', 'join': [['c', 'c']]}], 'graphs': []}]},
               {'id': 'http://ex.org/tm/Parent', 'source': path, 'subject': parent, 'poms': []}]
    assert cg.write_csv(path, cols, rows)
    c = cc.Case(d, {'tms': tms}, {path: rows}, {path: cols})
    c.write_mapping()
    return c


def nested_case(rng, d, pos=None, mixed=None):
    """two or three triples maps that agree everywhere except at one position, where their templates have nested
    (or equal) constant prefixes; the data contains the prefix differences, so the rules DO produce common statements:
    they must share a group"""
    os.makedirs(d, exist_ok=True)
    pos = pos or rng.choice(['S', 'P', 'O', 'G'])
    base = rng.choice(['http://ex.org/a', 'http://ex.org/', 'http://ex.org/x/'])
    exts = rng.sample(['', 'b', 'bc', 'b/', 'c'], rng.randrange(2, 4))
    rows = [{'id': e + v} for e in ['', 'b', 'c', 'bc', 'b/', '/'] for v in ['1', 'z']]
    path = os.path.join(d, 't0.csv')
    assert cg.write_csv(path, ['id'], rows)
    tms = []
    # mixed variant: one of the longer maps is a CONSTANT equal to a value the shorter template takes on the data
    # (a scan that compares constants by equality must not be used when another map at that position is a template)
    if mixed:
        exts = ['', rng.choice(['b', 'bc'])]     # no character that percent-encoding would change
    const_at = rng.randrange(1, len(exts)) if (rng.random() < 0.5 if mixed is None else mixed) else None
    shortest = min(exts, key=len)
    for i, e in enumerate(exts):
        nested = cg.tpl_map({'pre': base + e, 'parts': [['id', '']]}, 'iri')
        const = lambda v: {'kind': 'constant', 'value': v, 'termtype': 'iri'}
        if const_at == i and e != shortest and e.startswith(shortest):
            nested = const(base + e + rng.choice(['1', 'z']))
        subj = dict(nested if pos == 'S' else const('http://ex.org/s'))
        subj.update({'classes': [], 'graphs': []})
        pom = {'predicates': [nested if pos == 'P' else const('http://ex.org/p')],
               'objects': [nested if pos == 'O' else const('http://ex.org/o')],
               'graphs': [nested if pos == 'G' else const('http://ex.org/g')]}
        tms.append({'id': f'http://ex.org/tm/N{i}', 'source': path, 'subject': subj, 'poms': [pom]})
    if pos != 'S':
        # the rules must read rows: give them a data-dependent subject shared by all
        for t in tms:
            t['subject'] = dict(cg.tpl_map({'pre': 'http://ex.org/s/', 'parts': [['id', '']]}, 'iri'), classes=[], graphs=[])
        if pos in ('P', 'O', 'G'):
            rows2 = rows
    c = cc.Case(d, {'tms': tms}, {path: rows}, {path: ['id']})
    c.write_mapping()
    return c


def graph_only_collision(case, mode, la=None, lb=None):
    """scope of C03_F1 decided by its mechanism: the common statements of the groups exist only because N-TRIPLES drops the graph
    term — with N-QUADS output (the partition does not depend on the format) the same groups are disjoint.  (The components of a
    MAXIMAL label follow the position ordering the partitioner chose, so 'the labels differ in the graph component' cannot be read
    off the label text.)"""
    try:
        nq, _ = group_sets(cg.config_text(case.mapping, fmt='N-QUADS', partitioning=mode))
    except Exception:
        return False
    if la is not None:
        return la in nq and lb in nq and not (nq[la] & nq[lb])
    return sum(len(v) for v in nq.values()) == len(set().union(*nq.values())) if nq else False


def triage(case, fmt, la, lb, line, mode=None):
    a, b = la.split('-'), lb.split('-')
    if fmt == 'N-TRIPLES' and len(a) == 4 and len(b) == 4 and a[:3] == b[:3] and a[3] != b[3]:
        return 'C03_F1'
    if fmt == 'N-TRIPLES' and mode is not None and la and lb and graph_only_collision(case, mode, la, lb):
        return 'C03_F1'
    # not token safe: a data-dependent IRI / blank node term that is reference-valued (emitted verbatim) and a colliding line
    # whose split at '> <' is ambiguous
    ref_terms = any(tm.get('kind') == 'reference' and tm.get('termtype') in ('iri', 'bnode') for _, tm, _ in cc.all_termmaps(case.doc))
    bnode_terms = any(tm.get('termtype') == 'bnode' and tm.get('kind') != 'constant' for _, tm, _ in cc.all_termmaps(case.doc))
    if (ref_terms or bnode_terms) and any(('> <' in v or ' ' in v) for rows in case.tables.values() for r in rows for v in r.values()):
        return 'C03_F2'
    return None


def disjoint_case(ctx, case, fmt, mode, kindname):
    cfg = cg.config_text(case.mapping, fmt=fmt, partitioning=mode)
    inp = {'doc': case.doc, 'tables': {os.path.basename(p): r for p, r in case.tables.items()}, 'fmt': fmt, 'mode': mode,
           'columns': {os.path.basename(p): c for p, c in case.columns.items()}}
    try:
        groups, rml_df = group_sets(cfg)
    except Exception as e:
        ctx.case(case.key() + [fmt, mode], nontrivial=False, kind=f'{kindname}: engine exception')
        ctx.bump(f'exception {type(e).__name__}')
        return
    nonempty = [l for l, s in groups.items() if s]
    ctx.case(case.key() + [fmt, mode], nontrivial=len(nonempty) >= 2, kind=f'{kindname} {mode} {fmt}',
             sample={'summary': case.summary(), 'mode': mode, 'fmt': fmt, 'groups': len(groups)})
    ctx.traces_validated += 1
    labels = sorted(groups)
    for i, la in enumerate(labels):
        for lb in labels[i + 1:]:
            common = groups[la] & groups[lb]
            if common:
                line = sorted(common)[0]
                ctx.violation(f'groups {la} and {lb} both produce {line!r} ({len(common)} common statement(s))', inp,
                              finding=triage(case, fmt, la, lb, line, mode))
                return


def dups_only_across_graph_labels(case, fmt, mode, texts):
    try:
        groups, _ = group_sets(cg.config_text(case.mapping, fmt=fmt, partitioning=mode))
    except Exception:
        return False
    norm = lambda l: l[:-2] if l.endswith(' .') else l
    seen, dup = set(), set()
    for l in map(norm, texts):
        (dup if l in seen else seen).add(l)
    if not dup:
        return False
    for l in dup:
        labels = [lab.split('-') for lab, st in groups.items() if l in {norm(x) for x in st}]
        if len(labels) < 2 or any(len(a) != 4 for a in labels) or len({tuple(a[:3]) for a in labels}) != 1 \
                or len({a[3] for a in labels}) != len(labels):
            return False
    return True


def cli_case(ctx, case, fmt, mode, use_dir):
    d = os.path.join(case.dir, 'cli')
    os.makedirs(d, exist_ok=True)
    out = os.path.join(d, 'outdir' if use_dir else 'out.nt')
    log = os.path.join(d, 'log.txt')
    cfg = (f'[CONFIGURATION]\noutput_format={fmt}\nnumber_of_processes=1\nlogging_level=INFO\nlogging_file={log}\nmapping_partitioning={mode}\n'
           + (f'output_dir={out}\n' if use_dir else f'output_file={out}\n') + f'[DS]\nmappings={case.mapping}\n')
    cp = os.path.join(d, 'config.ini')
    with open(cp, 'w') as f:
        f.write(cfg)
    env = dict(os.environ, PYTHONPATH=os.path.join(vlib.REPO, 'src'))
    p = subprocess.run([sys.executable, '-m', 'morph_kgc', cp], cwd=d, env=env, stdout=subprocess.PIPE, stderr=subprocess.STDOUT, text=True, timeout=300)
    if p.returncode != 0:
        ctx.bump('cli exit != 0')
        return
    lines = []
    if use_dir:
        for fn in sorted(os.listdir(out)):
            with open(os.path.join(out, fn), encoding='utf-8') as f:
                lines += [(fn, l) for l in f.read().split('\n') if l]
    else:
        real = out if os.path.exists(out) else os.path.splitext(out)[0] + ('.nq' if fmt == 'N-QUADS' else '.nt')
        with open(real, encoding='utf-8') as f:
            lines = [('out', l) for l in f.read().split(' .\n') if l]
    total = None
    m = re.search(r'Number of triples generated in total: (\d+)', open(log).read())
    if m:
        total = int(m.group(1))
    texts = [l for _, l in lines]
    dup = len(texts) - len(set(texts))
    inp = {'doc': case.doc, 'tables': {os.path.basename(p_): r for p_, r in case.tables.items()}, 'fmt': fmt, 'mode': mode, 'cli': True,
           'output_dir': use_dir, 'columns': {os.path.basename(p_): c for p_, c in case.columns.items()}}
    ctx.case(case.key() + [fmt, mode, 'cli', use_dir], nontrivial=len(set(texts)) > 0, kind=f'cli {"dir" if use_dir else "file"} {mode} {fmt}',
             sample={'mode': mode, 'fmt': fmt, 'lines': len(texts), 'distinct': len(set(texts)), 'logged_total': total})
    ctx.traces_validated += 1
    if dup or (total is not None and total != len(set(texts))):
        # scope of C03_F1: N-TRIPLES, and some statement-generating construct (a predicate-object map, or a class of the subject map)
        # has two or more graph maps, so its rules differ only in the graph component of their labels
        f1 = fmt == 'N-TRIPLES' and any(
            any(len(t['subject'].get('graphs', [])) + len(pom.get('graphs', [])) >= 2 for pom in t['poms'])
            or (t['subject'].get('classes') and len(t['subject'].get('graphs', [])) >= 2)
            for t in case.doc['tms'])
        if not f1 and fmt == 'N-TRIPLES':
            # the same scope read off the groups themselves (the rules that differ only in their graph maps may belong to
            # different triples maps): every duplicated line is produced only by groups whose labels agree on S, P, O
            f1 = dups_only_across_graph_labels(case, fmt, mode, texts) or graph_only_collision(case, mode)
        ctx.violation(f'the output holds {dup} duplicate line(s); logged total {total}, distinct statements {len(set(texts))}', inp,
                      finding='C03_F1' if f1 else triage(case, fmt, '', '', ''))


def labels_case(ctx, drv, rules, mode, origin):
    real = pg.real_partition(rules, mode)
    ctx.case(['I5', mode, rules], nontrivial=len(rules) >= 2, kind=f'I5 {origin} {mode}')
    if drv:
        m = drv.call('partition', rules=rules, mode=mode)
        if real[0] == 'ok':
            mod = {r['triples_map_id']: l for r, l in zip(rules, m.get('ok', []))}
            if mod != real[1]:
                ctx.disagree('I5 partition labels', {'rules': rules, 'mode': mode}, mod, real[1])
        elif 'ok' in m:
            ctx.disagree('I5 partition labels', {'rules': rules, 'mode': mode}, 'ok', real[1])


def run(ctx, lean, findings):
    rng = ctx.rng
    drv = ctx.get_driver() if ctx.model_available else None
    for _ in range(ctx.budget(40, 2500)):
        if ctx.tier == 'thorough' and not ctx.escalate and ctx.elapsed() > 380:
            break
        rules = pg.gen_rules(rng)
        for mode in ['PARTIAL-AGGREGATIONS', 'MAXIMAL']:
            if not (mode == 'MAXIMAL' and len(rules) > 7 and ctx.tier == 'quick'):
                labels_case(ctx, drv, rules, mode, 'synthetic')
    n = ctx.budget(25, 900) * (3 if ctx.escalate else 1)
    for it in range(n):
        if it % 3 == 2:
            case = nested_case(rng, os.path.join(ctx.tmp, f'c{it}'))
        else:
            case = cc.make_case(rng, os.path.join(ctx.tmp, f'c{it}'), max_tms=3, max_poms=3, null_rate=0.05)
        if it % 3 != 2 and rng.random() < 0.6:
            # replace the data by adversarial rows built from the mapping's constants
            for path, cols in case.columns.items():
                rows = adversarial_rows(rng, case.doc, cols)
                if cg.write_csv(path, cols, rows):
                    case.tables[path] = rows
                else:
                    cg.write_csv(path, cols, case.tables[path])
        fmt = rng.choice(['N-TRIPLES', 'N-QUADS', 'N-QUADS'])
        mode = rng.choice(['PARTIAL-AGGREGATIONS', 'MAXIMAL'])
        disjoint_case(ctx, case, fmt, mode, 'groups')
        if it < ctx.budget(3, 40):
            cli_case(ctx, case, fmt, mode, use_dir=bool(it % 2))
        if not ctx.escalate and ctx.elapsed() > (80 if ctx.tier == 'quick' else 780):
            break
    # deterministic sweep: nested prefixes at every position, all-template and mixed constant/template, both algorithms
    k = 0
    for pos in 'SPOG':
        for mixed in (False, True):
            for mode in ('PARTIAL-AGGREGATIONS', 'MAXIMAL'):
                k += 1
                disjoint_case(ctx, nested_case(rng, os.path.join(ctx.tmp, f'nest{k}'), pos=pos, mixed=mixed), 'N-QUADS', mode, 'nested sweep')
    # rows that collapse to one statement inside a single-rule group: only the per-group set keeps the file duplicate-free
    for k, variant in enumerate(['concat', 'canon', 'join']):
        c = collapse_case(os.path.join(ctx.tmp, f'collapse{k}'), variant)
        cli_case(ctx, c, 'N-QUADS' if k % 2 else 'N-TRIPLES', 'PARTIAL-AGGREGATIONS' if k != 1 else 'MAXIMAL', use_dir=(k == 2))
    # the recorded findings in their crafted minimal form
    open_ids = {f['id'] for f in findings if f.get('status') == 'open'}
    if 'C03_F1' in open_ids:
        c = crafted_f1_case(os.path.join(ctx.tmp, 'f1'))
        before = len(ctx.violations)
        disjoint_case(ctx, c, 'N-TRIPLES', 'PARTIAL-AGGREGATIONS', 'crafted F1')
        cli_case(ctx, c, 'N-TRIPLES', 'PARTIAL-AGGREGATIONS', use_dir=False)
        if len(ctx.violations) == before:
            ctx.notes.append('finding C03_F1 no longer reproduces')
    if 'C03_F2' in open_ids:
        c = crafted_f2_case(os.path.join(ctx.tmp, 'f2'))
        before = len(ctx.violations)
        disjoint_case(ctx, c, 'N-QUADS', 'PARTIAL-AGGREGATIONS', 'crafted F2')
        if len(ctx.violations) == before:
            ctx.notes.append('finding C03_F2 no longer reproduces')


def replay(ctx, data):
    from props.C01 import build_case
    inp = data['input']
    case = build_case(os.path.join(ctx.tmp, 'rp'), inp)
    before = len(ctx.violations)
    if inp.get('cli'):
        cli_case(ctx, case, inp['fmt'], inp['mode'], inp.get('output_dir', False))
    else:
        disjoint_case(ctx, case, inp['fmt'], inp['mode'], 'replay')
    return len(ctx.violations) > before
