"""C10 — the same table gives the same statements whatever the source format."""
import csv
import io
import json
import os
import re
import sqlite3
import warnings

import coregen as cg
from props import C06 as c06

PROP = 'C10'
LEAN_TARGETS = ['MorphKgc.Props.C10', 'MorphKgc.Props.C10Now']
GEN_KEYS = ['source', 'null']
M = 'MorphKgc.Props.C10'
THEOREMS = [{'name': f'Props.C10.{n}', 'module': M} for n in [
    'C10_gen_csv_call', 'C10_gen_delimiter', 'C10_gen_dispatch', 'C10_gen_excel', 'C10_gen_columnar', 'C10_gen_order', 'C10_gen_shapes',
    'C10_csv_roundtrip', 'C10_csv_table_roundtrip', 'C10_json_string_roundtrip', 'C10_xml_text_roundtrip', 'C10_xml_attr_roundtrip',
    'C10_sql_literal_roundtrip', 'C10_sql_ident_roundtrip',
    'C10_reader_partial', 'C10_reader_json_xml_instances', 'C10_kinds_agree_partial', 'C10_rule_same',
    'C10_F1_frame_deletes_quote', 'C10_F1_fixed_shape', 'C10_F2_ods_na_text', 'C10_F3_blank_record_skipped',
    'C10_extension_table', 'C10_tsv_reader', 'C10_source_type_branches',
    'C10_sql_ansi_text', 'C10_dialect_styles', 'C10_sql_query_sent', 'C10_sql_ident_survives',
]]
# hypothesis-free theorems of the repaired shapes the translator reads from /repo now (Props/C10Now.lean)
THEOREMS += [{'name': f'Props.C10.{n}', 'module': 'MorphKgc.Props.C10Now'} for n in ['C10_current_frame_strip', 'C10_F1_current']]
RULE = ('one random table of strings (2-4 columns, 0-6 rows; cells from: empty, NULL, leading/trailing/only blanks, quotes, separators, tabs, CR/LF, '
        'leading zeros, true/None/nan/NULL/NA, 1.0/1e5, dates, non-BMP, markup, random strings over a nasty alphabet) rendered into every available '
        'source kind: (direct oracle) by PYTHON-side writers (csv module, json.dumps, hand-written XML, sqlite3, pandas/pyarrow/openpyxl) -> one '
        'configuration with a section per kind -> materialize_set -> statements decoded with pyoxigraph == the statements computed from the '
        'table (cell by cell, NULL = None or an na_values token), for reference- and template-valued object maps over all/some columns, with the '
        'file named in the mapping or through the file_path option (under a wrong extension in the mapping); (I12) the REAL readers on the bytes '
        'rendered by the Lean driver (CSV/TSV/JSON/XML text, SQL script) against the Lean reader models, typed files against the identity model; '
        'the CSV tokenizer contract against pandas on arbitrary small texts; json.loads / ElementTree / sqlite against the Lean unescape '
        'functions; _complete_source_types, os.path.splitext, _replace_query_enclosing_characters, _build_sql_query against their models. '
        'non-trivial = the table has a cell that needs quoting/escaping or is NULL-like, and at least one statement is expected; distinct = hash of the case.')
TRUSTED_BASE = [
    'contracts, modelled and compared on every run, not verified: pandas C tokenizer (Model.Csv.parse), json.loads string scanner, expat/ElementTree '
    'character data, SQLite string literals, pandas read_excel/read_parquet/read_feather/read_orc/read_stata, duckdb views (identity on string cells)',
    'the reader models of C06 (Model/NullSources.lean) and the shared engine model (Model.preprocessG / evalRuleG)',
    'the iterator (JSONPath / XPath) evaluation and the JSON / XML document structure are outside the Lean models (string level only)',
]
ASSUMPTIONS = [
    "formats without a NULL of their own (CSV, TSV, Excel, ODS, Stata) write a NULL as the empty cell, XML writes it as an absent element and reads an "
    "empty element as NULL: the property is evaluated with '' listed in na_values (default configuration)",
    'column names are plain identifiers (the property speaks of cell values); identifiers with blanks / keywords are exercised for SQLite only',
    'values the PAYLOAD WRITER of the harness cannot represent are not put into that kind: control characters other than TAB/LF/CR anywhere; CR in '
    'xlsx/ods (openpyxl / odfpy write it raw and XML normalises it); leading/trailing LF in ods (pandas ODF writer)',
    'tabular views are driven over Parquet and over CSV with all_varchar=true; a view whose column types duckdb infers from CSV text is not '
    'string-valued and outside the property',
    'SAS / SPSS files (no writer available), remote files (http), non-SQLite DBMS are not driven',
]

warnings.filterwarnings('ignore')

TTL_PREFIX = ('@prefix rr: <http://www.w3.org/ns/r2rml#> .\n@prefix rml: <http://semweb.mmlab.be/ns/rml#> .\n'
              '@prefix ql: <http://semweb.mmlab.be/ns/ql#> .\n')

# ----------------------------------------------------------------------------------------------------
# values and tables
# ----------------------------------------------------------------------------------------------------

VALS = ['x', 'k', '', ' lead', 'trail ', ' ', '  ', ' a  b ', 'a"b', '"', '""', '"q"', "it's", "''", 'a,b', ',', 'a\tb', '\t', 'a\nb', '\n', 'a\r\nb', 'a\rb',
        'l1\nl2\n', '007', '0', '-0', '+1', 'true', 'True', 'false', 'None', 'nan', 'NaN', 'NULL', 'null', 'NA', 'N/A', '#N/A', '<NA>', 'NaT', '1.0', '1e5', '1,5', 'inf',
        '2020-01-01', '12:30', '\U0001F600', 'é', '\u00a0', '<b>&amp;</b>', 'a&b', '<', '>', ']]>', '&#13;', '=1+1', '@x', '\\', 'a\\nb', '\\"', '{x}', '{', '%41',
        'a;b', 'a|b', "a'b\"c", '`', '``', '[x]', '--', '/*', 'x' * 70]
ALPHA = list('ab xX09') + ['"', "'", ',', '\t', '\n', '\r', '\r\n', ';', '\\', '&', '<', '>', '`', '\u00e9', '\U0001F600', ' ', ' ', '"', ',']
COLPOOL = ['a', 'b', 'c']
NA_SETTINGS = [None, None, None, ',nan', ',NULL', ',None,nan,NA', ',x']


def na_list(na):
    return sorted(set((',nan' if na is None else na).split(',')))


def rand_value(rng):
    q = rng.random()
    if q < 0.12:
        return None
    if q < 0.72:
        return rng.choice(VALS)
    return ''.join(rng.choice(ALPHA) for _ in range(rng.randrange(1, 7)))


# columns whose cells all look alike: what type inference (of a reader that forgets dtype=str, of a spreadsheet, of a CSV sniffer) acts on
CLASSES = [['007', '0', '12', '+1', '-0', '0042'], ['1.0', '1e5', '2.50', '.5', '1.', '-0.0'], ['true', 'false'], ['True', 'False'], ['TRUE', 'FALSE', 'T'],
           ['2020-01-01', '2021-12-31'], ['12:30', '01:02:03'], ['NULL', 'NA', 'None', 'nan', 'N/A', 'null'], ['1', '2', '3'], ['inf', '-inf', 'NaN'],
           ['0x10', '1_000', '1,5', '١٢'], [' 1', '2 ', ' 3 '], ['a', 'b', ' ', '  ', '\t']]


def gen_table(rng, ncols=None, nrows=None):
    cols = ['id'] + COLPOOL[:ncols if ncols is not None else rng.randrange(1, 4)]
    nrows = nrows if nrows is not None else rng.randrange(0, 7)
    rows = [{'id': f'r{i}'} for i in range(nrows)]
    for c in cols[1:]:
        q = rng.random()
        cls = rng.choice(CLASSES) if q < 0.3 else None
        for r in rows:
            if cls is not None:
                r[c] = None if rng.random() < 0.1 else rng.choice(cls)
            else:
                r[c] = rand_value(rng)
    return {'columns': cols, 'rows': rows}


def needs_care(v):
    return v is None or v == '' or v != v.strip() or any(ch in v for ch in '",\t\r\n\'&<>\\`') or v in ('None', 'nan', 'NULL', 'NA', 'true', '007', '1.0', '1e5', '#N/A')


# ----------------------------------------------------------------------------------------------------
# python-side payload writers (independent of the Lean renderer)
# ----------------------------------------------------------------------------------------------------

def _avail():
    out = {}
    for kind, mod in (('parquet', 'pyarrow'), ('feather', 'pyarrow'), ('orc', 'pyarrow.orc'), ('xlsx', 'openpyxl'), ('ods', 'odf'), ('dta', 'pandas'),
                      ('view_parquet', 'duckdb'), ('view_csv', 'duckdb')):
        try:
            __import__(mod)
            out[kind] = True
        except Exception:  # noqa
            out[kind] = False
    return out


AVAIL = _avail()
FILE_KINDS = ['csv', 'tsv', 'ssv', 'json', 'xml', 'xmlattr', 'xmlpretty'] + [k for k in ('parquet', 'feather', 'orc', 'xlsx', 'ods', 'dta') if AVAIL.get(k)]
VIEW_KINDS = [k for k in ('view_parquet', 'view_csv') if AVAIL.get(k)]
SQL_KINDS = ['sqltable', 'sqlquery']
MEM_KINDS = ['frame', 'pylist', 'pytuple', 'pydict', 'jsonstr']
ALL_KINDS = FILE_KINDS + VIEW_KINDS + SQL_KINDS + MEM_KINDS
EXT = {'csv': 'csv', 'tsv': 'tsv', 'ssv': 'csv', 'json': 'json', 'xml': 'xml', 'xmlattr': 'xml', 'xmlpretty': 'xml', 'parquet': 'parquet', 'feather': 'feather', 'orc': 'orc', 'xlsx': 'xlsx',
       'ods': 'ods', 'dta': 'dta'}
# a plausible but WRONG extension used in the mapping when the real file is named through file_path
WRONG_EXT = {'csv': 'tsv', 'tsv': 'csv', 'ssv': 'tsv', 'json': 'xml', 'xml': 'json', 'xmlattr': 'json', 'xmlpretty': 'json', 'parquet': 'csv', 'feather': 'parquet', 'orc': 'csv', 'xlsx': 'csv',
             'ods': 'xlsx', 'dta': 'csv'}
# kinds that have no NULL of their own: a NULL is written as the empty cell
EMPTY_NULL = {'csv', 'tsv', 'ssv', 'xlsx', 'ods', 'dta', 'view_csv'}


def representable(kind, v):
    """can the harness's writer for `kind` hold the string `v` faithfully? (limits of openpyxl / odfpy / XML 1.0, see ASSUMPTIONS)"""
    if v is None:
        return True
    if any((ord(ch) < 32 and ch not in '\t\n\r') or 0xD800 <= ord(ch) <= 0xDFFF or ch in '\ufffe\uffff' for ch in v):
        return False
    if kind in ('xlsx', 'ods') and '\r' in v:
        return False
    if kind == 'ods' and v != v.strip('\n'):
        return False
    if kind == 'dta' and (len(v.encode('utf-8')) > 2000 or '\x00' in v):
        return False
    return True


def adapt_table(kind, table):
    """the table with the cells `kind`'s writer cannot hold replaced by a plain token (same for the expectation of that kind)"""
    rows = [{c: (v if representable(kind, v) else 'unrep') for c, v in r.items()} for r in table['rows']]
    return {'columns': table['columns'], 'rows': rows}


def xml_esc(s, attr=False):
    s = s.replace('&', '&amp;').replace('<', '&lt;').replace('>', '&gt;').replace('\r', '&#13;')
    if attr:
        s = s.replace('"', '&quot;').replace('\n', '&#10;').replace('\t', '&#9;')
    return s


def py_csv_text(table, sep):
    buf = io.StringIO(newline='')
    w = csv.writer(buf, delimiter=sep, quoting=csv.QUOTE_MINIMAL, lineterminator='\r\n')
    w.writerow(table['columns'])
    for r in table['rows']:
        w.writerow(['' if r[c] is None else r[c] for c in table['columns']])
    return buf.getvalue()


def write_payload(kind, table, d):
    """writes the payload of `table` for `kind` under directory d; returns (path or None, python object or None)"""
    import pandas as pd
    cols, rows = table['columns'], table['rows']
    p = os.path.join(d, 't_' + kind + '.' + EXT.get(kind, 'bin'))

    def frame(fill=None):
        return pd.DataFrame({c: pd.Series([(fill if r[c] is None else r[c]) for r in rows], dtype=object) for c in cols})
    if kind in ('csv', 'tsv', 'ssv'):
        # 'ssv': a .csv file separated by semicolons: the first read_table call fails and the separator is sniffed (issue #81)
        with open(p, 'w', encoding='utf-8', newline='') as f:
            f.write(py_csv_text(table, {'csv': ',', 'tsv': '\t', 'ssv': ';'}[kind]))
    elif kind == 'json':
        with open(p, 'w', encoding='utf-8') as f:
            json.dump({'it': [{c: r[c] for c in cols} for r in rows]}, f, ensure_ascii=False)
    elif kind == 'xml':
        with open(p, 'w', encoding='utf-8') as f:
            f.write('<?xml version="1.0" encoding="UTF-8"?>\n<root>')
            for r in rows:
                f.write('<r>' + ''.join(f'<{c}>{xml_esc(r[c])}</{c}>' for c in cols if r[c] is not None) + '</r>')
            f.write('</root>')
    elif kind == 'xmlpretty':
        # indented, an empty element for the empty string, a comment and a processing instruction between the children
        with open(p, 'w', encoding='utf-8') as f:
            f.write('<?xml version="1.0" encoding="UTF-8"?>\n<root>\n')
            for r in rows:
                f.write('  <r>\n' + ''.join((f'    <{c}>{xml_esc(r[c])}</{c}>\n' if r[c] != '' else f'    <{c}/>\n') for c in cols if r[c] is not None)
                        + '    <!-- end of row -->\n  </r>\n')
            f.write('</root>\n')
    elif kind == 'xmlattr':
        with open(p, 'w', encoding='utf-8') as f:
            f.write('<?xml version="1.0" encoding="UTF-8"?>\n<root>')
            for r in rows:
                f.write('<r' + ''.join(f' {c}="{xml_esc(r[c], True)}"' for c in cols if r[c] is not None) + '/>')
            f.write('</root>')
    elif kind == 'parquet':
        frame().to_parquet(p, engine='pyarrow', index=False)
    elif kind == 'feather':
        frame().to_feather(p)
    elif kind == 'orc':
        import pyarrow as pa
        import pyarrow.orc as orc
        orc.write_table(pa.table({c: pa.array([r[c] for r in rows], type=pa.string()) for c in cols}), p)
    elif kind == 'xlsx':
        import openpyxl
        wb = openpyxl.Workbook()
        ws = wb.active
        for j, c in enumerate(cols):
            ws.cell(row=1, column=j + 1).value = c
        for i, r in enumerate(rows):
            for j, c in enumerate(cols):
                if r[c] is not None and r[c] != '':
                    cell = ws.cell(row=i + 2, column=j + 1)
                    cell.value = r[c]
                    cell.data_type = 's'      # a string cell, also for '=1+1' and '007'
        wb.save(p)
    elif kind == 'ods':
        frame('').to_excel(p, engine='odf', index=False)
    elif kind == 'dta':
        frame('').to_stata(p, write_index=False, version=118)
    elif kind in ('sqltable', 'sqlquery'):
        p = os.path.join(d, 't_' + kind + '.sqlite')
        if os.path.exists(p):
            os.remove(p)
        con = sqlite3.connect(p)
        con.execute('CREATE TABLE t (' + ', '.join(f'"{c}" TEXT' for c in cols) + ')')
        con.executemany('INSERT INTO t VALUES (' + ','.join('?' for _ in cols) + ')', [[r[c] for c in cols] for r in rows])
        con.commit()
        con.close()
    elif kind == 'view_parquet':
        p = os.path.join(d, 'v_view.parquet')
        frame().to_parquet(p, engine='pyarrow', index=False)
    elif kind == 'view_csv':
        p = os.path.join(d, 'v_view.csv')
        with open(p, 'w', encoding='utf-8', newline='') as f:
            f.write(py_csv_text(table, ','))
    elif kind == 'frame':
        return None, frame()
    elif kind == 'pylist':
        return None, [{c: r[c] for c in cols} for r in rows]
    elif kind == 'pytuple':
        return None, tuple({c: r[c] for c in cols} for r in rows)
    elif kind == 'pydict':
        return None, {'it': [{c: r[c] for c in cols} for r in rows]}
    elif kind == 'jsonstr':
        return None, json.dumps({'it': [{c: r[c] for c in cols} for r in rows]})
    else:
        raise ValueError(kind)
    return p, None


def logical_source(kind, path, named_in_mapping=True):
    """turtle of the logical source; with named_in_mapping=False the mapping names a file that does not exist, under a wrong extension"""
    if kind in FILE_KINDS and not named_in_mapping:
        path = '/nonexistent/dir/data.' + WRONG_EXT[kind]
    if kind in ('csv', 'tsv', 'ssv'):
        return f'rml:logicalSource [ rml:source "{path}" ; rml:referenceFormulation ql:CSV ]'
    if kind == 'json':
        return f'rml:logicalSource [ rml:source "{path}" ; rml:referenceFormulation ql:JSONPath ; rml:iterator "$.it[*]" ]'
    if kind in ('xml', 'xmlattr', 'xmlpretty'):
        return f'rml:logicalSource [ rml:source "{path}" ; rml:referenceFormulation ql:XPath ; rml:iterator "/root/r" ]'
    if kind in ('parquet', 'feather', 'orc', 'xlsx', 'ods', 'dta'):
        return f'rml:logicalSource [ rml:source "{path}" ]'
    if kind == 'sqltable':
        return 'rr:logicalTable [ rr:tableName "t" ]'
    if kind == 'sqlquery':
        return 'rr:logicalTable [ rr:sqlQuery "SELECT * FROM t" ]'
    if kind == 'view_parquet':
        return f'rml:logicalSource [ rml:query "SELECT * FROM \'{path}\'" ]'
    if kind == 'view_csv':
        return (f'rml:logicalSource [ rml:query "SELECT * FROM read_csv(\'{path}\', all_varchar=true, header=true, delim=\',\', quote=\'\\"\', '
                f'escape=\'\\"\')" ]')
    if kind in ('frame', 'pylist', 'pytuple'):
        return f'rml:logicalSource [ rml:source "{{{kind}}}" ]'
    if kind in ('pydict', 'jsonstr'):
        return f'rml:logicalSource [ rml:source "{{{kind}}}" ; rml:referenceFormulation ql:JSONPath ; rml:iterator "$.it[*]" ]'
    raise ValueError(kind)


def ref_name(kind, c):
    return '@' + c if kind == 'xmlattr' else c


def triples_map(kind, ls, objs):
    """objs: list of {'kind': 'reference'|'template', 'cols': [...]}; predicate i = http://ex.org/p/<i>"""
    lines = [f'<http://ex.org/tm/{kind}> a rr:TriplesMap ;', f'  {ls} ;',
             f'  rr:subjectMap [ rr:template "http://ex.org/{kind}/{{{ref_name(kind, "id")}}}" ] ;']
    for i, o in enumerate(objs):
        if o['kind'] == 'reference':
            om = f'[ rml:reference "{ref_name(kind, o["cols"][0])}" ]'
        else:
            tpl = '~'.join('{' + ref_name(kind, c) + '}' for c in o['cols'])
            om = f'[ rr:template "{tpl}" ; rr:termType rr:Literal ]'
        lines.append(f'  rr:predicateObjectMap [ rr:predicate <http://ex.org/p/{i}> ; rr:objectMap {om} ]' + (' ;' if i < len(objs) - 1 else ' .'))
    return '\n'.join(lines) + '\n'


def gen_one_column(rng):
    """a table with the single column `id`: the cell is subject (percent-encoded in the IRI) and object at once"""
    vals = []
    cls = rng.choice(CLASSES) if rng.random() < 0.3 else None
    for _ in range(rng.randrange(0, 7)):
        v = rng.choice(cls) if cls else rand_value(rng)
        if v is not None and v not in vals:
            vals.append(v)
    return {'columns': ['id'], 'rows': [{'id': v} for v in vals]}


def gen_objs(rng, cols, variant):
    if variant == 'one':
        return [{'kind': 'reference', 'cols': ['id']}]
    data = cols[1:]
    if variant == 'all':
        return [{'kind': 'reference', 'cols': [c]} for c in data]
    objs = [{'kind': 'reference', 'cols': [rng.choice(data)]}]
    if len(data) >= 2:
        objs.append({'kind': 'template', 'cols': rng.sample(data, 2)})
    else:
        objs.append({'kind': 'template', 'cols': [data[0], 'id']})
    return objs


def expected(table, objs, na):
    nas = set(na_list(na))

    def null(v):
        return v is None or v in nas
    out = set()
    for r in table['rows']:
        if null(r['id']):
            continue
        for i, o in enumerate(objs):
            if any(null(r[c]) for c in o['cols']):
                continue
            val = r[o['cols'][0]] if o['kind'] == 'reference' else '~'.join(r[c] for c in o['cols'])
            out.add((r['id'], str(i), val))
    return out


def decode_lines(lines):
    """N-Triples lines -> {kind: set of (id, predicate index, literal value)} via pyoxigraph (strict)"""
    import pyoxigraph as ox
    from urllib.parse import unquote
    out, bad = {}, []
    for l in lines:
        try:
            ts = list(ox.parse((l.strip() + ' .\n').encode('utf-8'), 'application/n-triples'))
        except Exception as e:  # noqa
            bad.append((l, str(e)[:80]))
            continue
        for t in ts:
            m = re.fullmatch(r'http://ex\.org/([a-z_]+)/(.*)', t.subject.value)
            pm = re.fullmatch(r'http://ex\.org/p/(\d+)', t.predicate.value)
            if not m or not pm or not isinstance(t.object, ox.Literal):
                bad.append((l, 'unexpected shape'))
                continue
            out.setdefault(m.group(1), set()).add((unquote(m.group(2)), pm.group(1), t.object.value))
    return out, bad


# ----------------------------------------------------------------------------------------------------
# one oracle case: one table -> every kind -> one configuration -> materialize_set
# ----------------------------------------------------------------------------------------------------

def build_config(case, d, kinds, together=True):
    """writes payloads and mappings, returns (cfg text, python_source, mapping texts).  Kinds that need no option of their own in the data
    source section (files named in the mapping, views, in-memory objects) share ONE section and one mapping file when `together`; a
    relational source (db_url) and a file named through file_path get a section each."""
    os.makedirs(d, exist_ok=True)
    naming = case.get('naming', 'mapping')
    groups, pysrc = [], {}
    shared = []
    for kind in kinds:
        tab = adapt_table(kind, case['table'])
        path, obj = write_payload(kind, tab, d)
        if obj is not None:
            pysrc[kind] = obj
        named = naming == 'mapping' or kind not in FILE_KINDS
        tm = triples_map(kind, logical_source(kind, path, named), case['objs'])
        opts = []
        if kind in SQL_KINDS:
            opts.append(f'db_url=sqlite:///{path}')
        if not named:
            opts.append(f'file_path={path}')
        if together and not opts:
            shared.append((kind, tm))
        else:
            groups.append((kind, [tm], opts))
    if shared:
        groups.insert(0, ('shared_' + '_'.join(sorted(k for k, _ in shared))[:80], [tm for _, tm in shared], []))
    secs, mtexts = [], []
    for name, tms, opts in groups:
        mt = TTL_PREFIX + '\n'.join(tms)
        import hashlib
        mp = os.path.join(d, f'm_{hashlib.sha1((name + mt).encode()).hexdigest()[:12]}.ttl')
        with open(mp, 'w', encoding='utf-8') as f:
            f.write(mt)
        mtexts.append(mt)
        secs.append('\n'.join([f'[S_{name[:40]}]', f'mappings={mp}'] + opts))
    head = ['[CONFIGURATION]', 'output_format=N-TRIPLES', 'number_of_processes=1', 'logging_level=CRITICAL']
    if case['na'] is not None:
        head.append(f'na_values={case["na"]}')
    return '\n'.join(head) + '\n' + '\n'.join(secs) + '\n', pysrc, mtexts


def run_cfg(cfg, pysrc, mtexts):
    c06._install_parse_cache()
    c06._PARSE_CACHE['next_key'] = ('C10', re.sub(r'(?m)^na_values=.*\n', '', cfg), tuple(mtexts))   # the rule table does not depend on na_values
    try:
        return cg.run_engine(cfg, pysrc or None)
    finally:
        c06._PARSE_CACHE['next_key'] = None


def run_case(case, d, kinds):
    """-> {kind: ('ok', set) | ('exc', msg)}, undecodable lines"""
    cfg, pysrc, mtexts = build_config(case, d, kinds)
    st, res = run_cfg(cfg, pysrc, mtexts)
    if st == 'ok':
        dec, bad = decode_lines(res)
        return {k: ('ok', dec.get(k, set())) for k in kinds}, bad
    # some section failed: run the kinds one by one to attribute the exception
    out, bads = {}, []
    for k in kinds:
        cfg, pysrc, mtexts = build_config(case, d, [k], together=False)
        st, res = run_cfg(cfg, pysrc, mtexts)
        if st == 'ok':
            dec, bad = decode_lines(res)
            out[k] = ('ok', dec.get(k, set()))
            bads += bad
        else:
            out[k] = ('exc', res)
    return out, bads


def triage(kind, case, st, got):
    """-> list of (what, finding id or None) for one kind"""
    tab = adapt_table(kind, case['table'])
    exp = expected(tab, case['objs'], case['na'])
    if st != 'ok':
        return [(f'{kind}: materialization failed: {got}', None)]
    extra, missing = got - exp, exp - got
    if not extra and not missing:
        return []
    out = []
    rows = {r['id']: r for r in tab['rows']}
    # C10_F1: a DataFrame source loses every '"': the output is exactly what the table with the quotes deleted gives
    if kind == 'frame':
        stripped = {'columns': tab['columns'], 'rows': [{c: (v.replace('"', '') if isinstance(v, str) else v) for c, v in r.items()} for r in tab['rows']]}
        if stripped != tab and got == expected(stripped, case['objs'], case['na']):
            out.append((f'frame: `"` deleted from DataFrame cells: missing {sorted(missing)[:2]!r}, instead {sorted(extra)[:2]!r}', 'C10_F1'))
            return out
    # C10_F2: ODS text `#N/A` read as NaN
    if kind == 'ods':
        expl_m = {t for t in missing if any(rows[t[0]][c] == '#N/A' for c in case['objs'][int(t[1])]['cols'] + ['id'])}
        if expl_m:
            out.append((f'ods: rows with the text #N/A in a referenced cell are dropped: {sorted(expl_m)[:2]!r}', 'C10_F2'))
            missing = missing - expl_m
    # C10_F3: one-column CSV/TSV, a record that is one unquoted field of blanks is skipped as a blank line
    if kind in ('csv', 'tsv', 'view_csv') and len(tab['columns']) == 1:
        c0 = tab['columns'][0]
        expl_m = {t for t in missing if rows[t[0]][c0] != '' and rows[t[0]][c0].strip(' \t') == ''}
        if expl_m:
            out.append((f'{kind}: one-column file, records consisting of blanks are skipped: {sorted(expl_m)[:2]!r}', 'C10_F3'))
            missing = missing - expl_m
    if extra or missing:
        out.append((f'{kind}: statements differ from the table: missing {sorted(missing)[:3]!r} extra {sorted(extra)[:3]!r}', None))
    return out


def case_input(case, kinds=None):
    inp = {k: case[k] for k in ('table', 'objs', 'na', 'variant', 'naming')}
    if kinds is not None:
        inp['kinds'] = kinds
    return inp


def oracle_case(ctx, case, d, kinds):
    res, bad = run_case(case, d, kinds)
    tab = case['table']
    exp_any = expected(tab, case['objs'], case['na'])
    nontriv = bool(exp_any) and any(needs_care(v) for r in tab['rows'] for v in r.values())
    ctx.case(case_input(case), nontrivial=nontriv, kind=f'oracle {case["variant"]}/{case["naming"]} na={"default" if case["na"] is None else case["na"]!r}',
             sample={'rows': tab['rows'][:2], 'kinds': len(kinds), 'statements': len(exp_any)})
    ctx.traces_validated += len(kinds)
    for l, why in bad[:3]:
        ctx.violation(f'an output line is not a valid N-Triples statement of the expected shape: {l!r} ({why})', case_input(case), finding=None)
    oks = {}
    for k in kinds:
        st, got = res[k]
        ctx.bump(f'oracle kind {k}')
        for what, fid in triage(k, case, st, got):
            ctx.violation(what, case_input(case, [k]), finding=fid)
        if st == 'ok':
            oks[k] = got
    return oks


# ----------------------------------------------------------------------------------------------------
# I12: the real readers on the bytes rendered by the Lean driver
# ----------------------------------------------------------------------------------------------------

def table_rows(table):
    return [[r[c] for c in table['columns']] for r in table['rows']]


def lean_render(drv, kind, table, **kw):
    return drv.call('c10_render', kind=kind, cols=table['columns'], rows=table_rows(table), **kw)


def canon_cells(t, cols):
    return c06.canon_model_table(t, cols=cols)


def i12_text_kinds(ctx, drv, rng, n):
    from morph_kgc.data_source import data_file
    d = os.path.join(ctx.tmp, 'i12')
    os.makedirs(d, exist_ok=True)
    for it in range(n):
        table = adapt_table('xml', gen_table(rng))
        cols = table['columns']
        refs = rng.sample(cols, rng.randrange(1, len(cols) + 1))
        inp = {'table': table, 'refs': refs}
        nontriv = any(needs_care(v) for r in table['rows'] for v in r.values())
        # ---- CSV / TSV
        for kind, sep in (('csv', ','), ('tsv', '\t')):
            text = lean_render(drv, 'csv', table, sep=sep)
            p = os.path.join(d, 't.' + kind)
            with open(p, 'w', encoding='utf-8', newline='') as f:
                f.write(text)
            ctx.case(['i12', kind, inp], nontrivial=nontriv, kind=f'I12 {kind} (Lean-rendered)')
            try:
                df = data_file.get_file_data({'source_type': kind.upper(), 'logical_source_type': 'x', 'logical_source_value': p}, refs)
                real = ('ok', c06.canon_frame(df, cols=refs))
            except Exception as e:  # noqa
                real = ('exc', f'{type(e).__name__}: {str(e)[:100]}')
            m = drv.call('c10_csv_read', sep=sep, text=text)
            mod = ('ok', canon_cells(m, refs)) if m is not None else ('exc', 'ParserError')
            if real != mod:
                ctx.disagree(f'I12 _read_csv ({kind}) on Lean-rendered text', dict(inp, text=text), mod, real)
            # the records themselves: header + rows with '' for NULL
            want = [cols] + [['' if v is None else v for v in row] for row in table_rows(table)]
            got = drv.call('c10_parse_csv', sep=sep, text=text)
            if got != want:
                ctx.disagree('Csv.parse (renderCsv T) = T.records', dict(inp, text=text), got, want)
        # ---- JSON: text level (json.load of the Lean text) and reader level
        text = lean_render(drv, 'json', table)
        p = os.path.join(d, 't.json')
        with open(p, 'w', encoding='utf-8') as f:
            f.write(text)
        ctx.case(['i12', 'json', inp], nontrivial=nontriv, kind='I12 json (Lean-rendered)')
        try:
            with open(p, encoding='utf-8') as f:
                loaded = json.load(f)
        except Exception as e:  # noqa
            loaded = f'{type(e).__name__}: {e}'
        want = [{c: r[c] for c in cols} for r in table['rows']]
        if loaded != want:
            ctx.disagree('json.load (renderJson T) = the records of T', dict(inp, text=text), want, loaded)
        try:
            df = data_file._read_json({'logical_source_value': p, 'iterator': '$[*]'}, list(refs))
            real = ('ok', c06.canon_frame(df, cols=refs))
        except Exception as e:  # noqa
            real = ('exc', f'{type(e).__name__}: {str(e)[:100]}')
        mt = drv.call('c06_json', mem=False, refs=refs, records=[c06.jrecord(r) for r in want])
        if real != ('ok', canon_cells(mt, refs)):
            ctx.disagree('I12 _read_json on Lean-rendered text', dict(inp, text=text), canon_cells(mt, refs)[:6], real)
        # ---- XML: elements and attributes
        for kind, rk in (('xml', 'xml'), ('xmlattrs', 'xmlattr')):
            text = lean_render(drv, kind, table)
            p = os.path.join(d, 't_' + kind + '.xml')
            with open(p, 'w', encoding='utf-8') as f:
                f.write(text)
            xrefs = [ref_name(rk, c) for c in refs]
            ctx.case(['i12', kind, inp], nontrivial=nontriv, kind=f'I12 {kind} (Lean-rendered)')
            try:
                df = data_file._read_xml({'logical_source_value': p, 'iterator': '/root/r'}, list(xrefs))
                real = ('ok', c06.canon_frame(df, cols=xrefs))
            except Exception as e:  # noqa
                real = ('exc', f'{type(e).__name__}: {str(e)[:100]}')
            elems = []
            for r in table['rows']:
                if rk == 'xml':
                    elems.append({'attrs': {}, 'children': [{'tag': c, 'attrs': {}, 'text': (r[c] if r[c] != '' else None)} for c in cols if r[c] is not None]})
                else:
                    elems.append({'attrs': {c: r[c] for c in cols if r[c] is not None}, 'children': []})
            m = drv.call('c06_xml', refs=xrefs, elems=elems)
            mod = ('ok', canon_cells(m['ok'], xrefs)) if 'ok' in m else ('keyerror', m.get('keyerror'))
            if real != mod:
                ctx.disagree(f'I12 _read_xml ({kind}) on Lean-rendered text', dict(inp, text=text), mod, real)


def i12_sql(ctx, drv, rng, n):
    from morph_kgc.args_parser import load_config_from_argument
    from morph_kgc.data_source import relational_db
    from morph_kgc.constants import RML_TABLE_NAME, RML_QUERY
    d = os.path.join(ctx.tmp, 'i12sql')
    os.makedirs(d, exist_ok=True)
    mp = os.path.join(d, 'm.ttl')
    with open(mp, 'w') as f:
        f.write(TTL_PREFIX)
    for it in range(n):
        table = gen_table(rng)
        weird = rng.random() < 0.4
        names = {'id': 'id'}
        if weird:
            pool = ['first name', 'select', 'order', 'group by', "it's", 'a-b', 'Ünï', 'x y z', 'from', 'a,b', '1st']
            for c, nm in zip(table['columns'][1:], rng.sample(pool, len(table['columns']) - 1)):
                names[c] = nm
        else:
            names.update({c: c for c in table['columns']})
        t2 = {'columns': [names[c] for c in table['columns']], 'rows': [{names[c]: v for c, v in r.items()} for r in table['rows']]}
        cols = t2['columns']
        refs = rng.sample(cols, rng.randrange(1, len(cols) + 1))
        tbl = rng.choice(['t', 'my table', 'order']) if weird else 't'
        stmts = lean_render(drv, 'sql', t2, tbl=tbl)
        p = os.path.join(d, 'db.sqlite')
        if os.path.exists(p):
            os.remove(p)
        inp = {'table': t2, 'refs': refs, 'tbl': tbl}
        ctx.case(['i12sql', inp], nontrivial=any(needs_care(v) for r in t2['rows'] for v in r.values()) or weird, kind='I12 sql (Lean-rendered script)' + (' weird names' if weird else ''))
        try:
            con = sqlite3.connect(p)
            for s in stmts:
                con.execute(s)
            con.commit()
            stored = [list(x) for x in con.execute(f'SELECT * FROM "{tbl}"').fetchall()] if '"' not in tbl else None
            con.close()
        except Exception as e:  # noqa
            ctx.disagree('SQLite executes the Lean-rendered script', dict(inp, stmts=stmts), 'ok', f'{type(e).__name__}: {e}')
            continue
        if stored != table_rows(t2):
            ctx.disagree('SQLite stores the rows of T (string literal / NULL round trip)', dict(inp, stmts=stmts), table_rows(t2), stored)
        config = load_config_from_argument(cg.config_text(mp, extra='') + f'db_url=sqlite:///{p}\n')
        for lst, name, lsv in ((RML_TABLE_NAME, 'tableName', tbl), (RML_QUERY, 'query', f'SELECT * FROM "{tbl}"')):
            rule = {'logical_source_type': lst, 'logical_source_value': lsv, 'source_name': 'DS', 'triples_map_id': 'tm'}
            try:
                df = relational_db.get_sql_data(config, rule, list(refs))
                real = ('ok', c06.canon_frame(df, cols=refs))
            except Exception as e:  # noqa
                real = ('exc', f'{type(e).__name__}: {str(e)[:120]}')
            m = drv.call('c06_sql_deliver', lst=name, lsv=lsv, refs=refs, rows=[{c: r[c] for c in cols} for r in t2['rows']])
            mod = ('ok', canon_cells(m, refs))
            if name == 'tableName' and any('.' in c or '`' in c for c in refs + [tbl]):
                continue
            if real != mod:
                ctx.disagree(f'I12 get_sql_data ({name}) on the Lean-rendered database', inp, mod[1][:6], real)
            if name == 'tableName':
                q = relational_db._build_sql_query(rule, list(refs))
                sent = relational_db._replace_query_enclosing_characters(q, 'SQLITE')
                mq = drv.call('c06_sql_query', lst=name, lsv=lsv, refs=refs)
                ms = drv.call('c10_dialect_query', dialect='SQLITE', q=mq)
                if sent != ms:
                    ctx.disagree('the SQL text sent to SQLite', inp, ms, sent)


TYPED_NULL = {'parquet': 'None', 'feather': 'None', 'orc': 'None', 'view_parquet': 'None'}


def i12_typed(ctx, drv, rng, n):
    """typed tabular files written by pandas / pyarrow / openpyxl: the real reader against the identity model (+ NULL convention)"""
    from morph_kgc.data_source import data_file, python_data
    d = os.path.join(ctx.tmp, 'i12typed')
    os.makedirs(d, exist_ok=True)
    kinds = [k for k in ('parquet', 'feather', 'orc', 'xlsx', 'ods', 'dta', 'view_parquet') if AVAIL.get(k)] + ['frame', 'pylist']
    for it in range(n):
        kind = kinds[it % len(kinds)]
        table = adapt_table(kind, gen_table(rng))
        cols = table['columns']
        if kind in ('frame', 'pylist', 'parquet', 'feather', 'orc', 'view_parquet') and table['rows']:
            # an object column without any string is typed by pandas / arrow as float or null: outside "string-valued cells"
            for c in cols:
                if all(r[c] is None for r in table['rows']):
                    table['rows'][0][c] = 'v'
        refs = rng.sample(cols, rng.randrange(1, len(cols) + 1))
        inp = {'kind': kind, 'table': table, 'refs': refs}
        ctx.case(['i12typed', inp], nontrivial=any(needs_care(v) for r in table['rows'] for v in r.values()), kind=f'I12 {kind}')
        path, obj = write_payload(kind, table, d)
        try:
            if kind in ('frame', 'pylist'):
                df = python_data.get_ram_data({'logical_source_value': '{src}', 'iterator': None}, refs, {'src': obj})
            elif kind == 'view_parquet':
                from morph_kgc.constants import RML_QUERY
                df = data_file.get_file_data({'source_type': 'CSV', 'logical_source_type': RML_QUERY, 'logical_source_value': f"SELECT * FROM '{path}'"}, refs)
            else:
                df = data_file.get_file_data({'source_type': EXT[kind].upper(), 'logical_source_type': 'x', 'logical_source_value': path}, refs)
            real = ('ok', c06.canon_frame(df, cols=refs))
        except Exception as e:  # noqa
            real = ('exc', f'{type(e).__name__}: {str(e)[:120]}')
        if kind == 'pylist':
            m = drv.call('c06_list', refs=refs, records=[[[c, r[c]] for c in cols] for r in table['rows']])
            mod = ('ok', canon_cells(m, refs))
        else:
            def cell(v):
                if v is None:
                    return '' if kind in EMPTY_NULL else {'n': TYPED_NULL.get(kind, 'None')}
                return v
            rows = [{c: cell(r[c]) for c in cols} for r in table['rows']]
            m = drv.call('c10_frame', refs=refs, rows=rows) if kind == 'frame' else drv.call('c10_typed', refs=refs, rows=rows, ods=(kind == 'ods'))
            mod = ('ok', canon_cells(m['ok'], refs)) if 'ok' in m else ('keyerror', m.get('keyerror'))
        if real != mod:
            ctx.disagree(f'I12 reader of {kind} vs its model', inp, mod if mod[0] != 'ok' else mod[1][:6], real if real[0] != 'ok' else real[1][:6])


# ----------------------------------------------------------------------------------------------------
# contracts of the decoders
# ----------------------------------------------------------------------------------------------------

def rand_text(rng, alpha, lo, hi):
    return ''.join(rng.choice(alpha) for _ in range(rng.randrange(lo, hi)))


def contract_csv_tokenizer(ctx, drv, rng, n):
    """Model.Csv.parse against pandas' C tokenizer (the keyword arguments of _read_csv, header=None) on arbitrary small texts"""
    import pandas as pd
    for it in range(n):
        sep = rng.choice([',', '\t'])
        alpha = ['a', 'b', ' ', '\t', ',', '"', '\r', '\n', '\r\n', 'x', '"', sep, sep]
        text = rand_text(rng, alpha, 0, 14)
        if re.search(r'\r(?!\n)', text) and re.search(r'[ \t]', text):
            continue        # a lone CR as line terminator followed by a whitespace-started line: the C code backtracks past the CR (outside the contract)
        m = drv.call('c10_parse_csv', sep=sep, text=text)
        try:
            df = pd.read_table(io.StringIO(text), sep=sep, header=None, index_col=False, engine='c', dtype=str, keep_default_na=False, na_filter=False)
            real = [list(row) for row in df.itertuples(index=False, name=None)]
        except pd.errors.EmptyDataError:
            real = []
        except Exception as e:  # noqa
            real = 'ERR ' + type(e).__name__
        if m is None:
            ctx.case(['tok', sep, text], nontrivial=True, kind='contract csv tokenizer (error)')
            if not isinstance(real, str):
                ctx.disagree('Model.Csv.parse vs pandas C tokenizer', {'sep': sep, 'text': text}, None, real)
            continue
        if len({len(x) for x in m}) > 1:
            continue        # ragged records: pandas pads or raises depending on the first line; frames are outside the contract
        ctx.case(['tok', sep, text], nontrivial=('"' in text or '\r' in text), kind='contract csv tokenizer')
        if m != real:
            ctx.disagree('Model.Csv.parse vs pandas C tokenizer', {'sep': sep, 'text': text}, m, real)


def contract_strings(ctx, drv, rng, n):
    """json.loads / ElementTree / sqlite3 against the Lean escape and unescape functions on random strings"""
    import xml.etree.ElementTree as et
    con = sqlite3.connect(':memory:')
    alpha = ALPHA + ['\x08', '\x0c', '\x01', '\x1f', '/', 'u', 'n', '#', '1', '3', ';', 'amp;', '&lt;', '&#13;', ']]>']
    for it in range(n):
        s = rng.choice(VALS) if rng.random() < 0.3 else rand_text(rng, alpha, 0, 9)
        ctx.case(['str', s], nontrivial=needs_care(s), kind='contract string escapes')
        # JSON: real decoder on the Lean escape, Lean decoder on the real escape
        e = drv.call('c10_json_escape', s=s)
        try:
            back = json.loads('"' + e + '"')
        except Exception as ex:  # noqa
            back = f'{type(ex).__name__}'
        if back != s:
            ctx.disagree('json.loads of Spec.Payload.jsonEscape', {'s': s, 'escaped': e}, s, back)
        if drv.call('c10_json_unescape', s=json.dumps(s, ensure_ascii=False)[1:-1]) != s:
            ctx.disagree('Model.jsonUnescape of json.dumps', {'s': s}, s, drv.call('c10_json_unescape', s=json.dumps(s, ensure_ascii=False)[1:-1]))
        # SQL
        lit = drv.call('c10_sql_literal', s=s)
        if '\x00' not in s:
            got = con.execute('SELECT ' + lit).fetchone()[0]
            if got != s:
                ctx.disagree('SQLite reads Spec.Payload.sqlLiteral', {'s': s, 'literal': lit}, s, got)
            q = con.execute('SELECT quote(?)', (s,)).fetchone()[0]
            if drv.call('c10_sql_unquote', s=q) != s:
                ctx.disagree('Model.sqlUnquote of sqlite quote()', {'s': s, 'quoted': q}, s, drv.call('c10_sql_unquote', s=q))
        # XML (only XML characters)
        if representable('xml', s):
            for attr in (False, True):
                e = drv.call('c10_xml_escape', s=s, attr=attr)
                doc = f'<a v="{e}"/>' if attr else f'<a>{e}</a>'
                try:
                    el = et.fromstring(doc)
                    back = el.get('v') if attr else (el.text or '')
                except Exception as ex:  # noqa
                    back = f'{type(ex).__name__}: {ex}'
                if back != s:
                    ctx.disagree('ElementTree reads Spec.Payload.xmlEscape' + ('Attr' if attr else 'Text'), {'s': s, 'escaped': e}, s, back)
            # the Lean decoder against the parser on text escaped by somebody else (ElementTree's serializer; literal CR is normalised)
            el = et.Element('a')
            el.text = s
            ser = et.tostring(el, encoding='unicode')
            inner = ser[3:-4] if ser.endswith('</a>') else ''
            real = et.fromstring(ser).text or ''
            mod = drv.call('c10_xml_decode', s=inner)
            if mod != real:
                ctx.disagree('Model.xmlDecodeText vs expat on ElementTree-serialised text', {'s': s, 'inner': inner}, mod, real)
    con.close()


def contract_source_types(ctx, drv, rng, n):
    """_complete_source_types, os.path.splitext, _replace_query_enclosing_characters against their models"""
    import pandas as pd
    from morph_kgc.mapping.mapping_parser import MappingParser
    from morph_kgc.data_source import relational_db
    from morph_kgc import constants as K
    RML = K.RML_NAMESPACE
    lsts = {None: None, 'source': K.RML_SOURCE, 'tableName': K.RML_TABLE_NAME, 'query': K.RML_QUERY}

    class Cfg:
        def __init__(self, has):
            self.has = has

        def has_db_url(self, name):
            return self.has
    exts = [e.lower() for e in K.FILE_SOURCE_TYPES] + [e for e in K.FILE_SOURCE_TYPES] + ['dat', 'txt', '', 'CsV', ' csv', 'csv ', 'tar.gz', 'tsv.bak']
    stems = ['t', '/data/t', '/da.ta/t', '.hidden', '..t', 'a.b/c', '/x/.t', 't.', '{t}', '{t', 'http://h/p/t']
    rfs = [None, None, RML + 'CSV', RML + 'JSONPath', RML + 'XPath', RML + 'SQL2008', RML + 'Cypher', 'http://semweb.mmlab.be/ns/ql#CSV', 'mysql']
    for it in range(n):
        stem, ext = rng.choice(stems), rng.choice(exts)
        lsv = rng.choice([stem + ('.' + ext if ext != '' or rng.random() < 0.5 else ''), 'SELECT * FROM t', '{src}', stem])
        rf = rng.choice(rfs)
        has = rng.random() < 0.2
        lst = rng.choice([None, 'source', 'source', 'source', 'tableName', 'query'])
        ctx.case(['st', lsv, rf, has, lst], nontrivial=True, kind='contract _complete_source_types')
        mp = MappingParser.__new__(MappingParser)
        mp.config = Cfg(has)
        mp.rml_df = pd.DataFrame([{'source_name': 'DS', 'reference_formulation': rf, 'logical_source_type': lsts[lst], 'logical_source_value': lsv,
                                   'source_type': None}])
        try:
            mp._complete_source_types()
            real = mp.rml_df.at[0, 'source_type']
        except Exception as e:  # noqa
            real = None if 'No source type' in str(e) else f'{type(e).__name__}: {e}'
        kw = {'has_db_url': has, 'lsv': lsv}
        if rf is not None:
            kw['rf'] = rf
        if lst is not None:
            kw['lst'] = lst
        mod = drv.call('c10_source_type', **kw)
        if real != mod:
            ctx.disagree('_complete_source_types vs Model.completeSourceType', {'lsv': lsv, 'rf': rf, 'has_db_url': has, 'lst': lst}, mod, real)
        e1 = os.path.splitext(lsv)[1][1:].strip().upper()
        if all(ord(ch) < 128 for ch in lsv) and drv.call('c10_ext', p=lsv) != e1:
            ctx.disagree('os.path.splitext(..)[1][1:].strip().upper() vs Model.extensionKind', {'p': lsv}, drv.call('c10_ext', p=lsv), e1)
    dialects = ['MYSQL', 'MARIADB', 'MSSQL', 'ORACLE', 'POSTGRESQL', 'SQLITE', 'DATABRICKS', 'SNOWFLAKE', 'DUCKDB', 'mysql', '']
    for it in range(max(20, n // 4)):
        q = rand_text(rng, ['`', 'a', ' ', '.', '"', '[', ']', 'SELECT ', '`x y`', ', '], 0, 10)
        dl = rng.choice(dialects)
        ctx.case(['dq', q, dl], nontrivial='`' in q, kind='contract dialect quoting')
        real = relational_db._replace_query_enclosing_characters(q, dl)
        mod = drv.call('c10_dialect_query', dialect=dl, q=q)
        if real != mod:
            ctx.disagree('_replace_query_enclosing_characters vs Model.dialectQuery', {'q': q, 'dialect': dl}, mod, real)


def facts_check(ctx, drv):
    f = drv.call('c10_facts')
    from morph_kgc import constants as K
    ctx.case(['facts'], nontrivial=True, kind='generated facts')
    if f['file_source_types'] != list(K.FILE_SOURCE_TYPES):
        ctx.disagree('Gen.fileSourceTypes vs constants.FILE_SOURCE_TYPES', {}, f['file_source_types'], list(K.FILE_SOURCE_TYPES))
    for t in K.FILE_SOURCE_TYPES:
        r = drv.call('c10_file_reader', source_type=t, is_query=False)
        if r is None:
            ctx.disagree('every file source type has a reader', {'type': t}, r, 'a reader')
    return f


# ----------------------------------------------------------------------------------------------------
# recorded findings
# ----------------------------------------------------------------------------------------------------

def replay_input(ctx, inp, d, fid=None):
    """True iff the property still fails on this case (for a recorded finding: by the mechanism of that finding)"""
    case = dict(inp)
    case.setdefault('variant', 'all')
    case.setdefault('naming', 'mapping')
    case.setdefault('na', None)
    kinds = case.pop('kinds', None) or ALL_KINDS
    kinds = [k for k in kinds if k in ALL_KINDS]
    res, bad = run_case(case, d, kinds)
    vs = [v for k in kinds for v in triage(k, case, *res[k])]
    if bad:
        vs.append(('undecodable line', None))
    return any(f == fid for _, f in vs) if fid else bool(vs)


def collation_case(ctx):
    """A relational table whose text column has a non-binary collation (SQLite `COLLATE NOCASE` / `COLLATE RTRIM`) and rows that
    differ only in letter case / trailing blanks: they are different cells, so the table read through rr:tableName must give the
    same statements as the same rows in a CSV file (a reader that lets the DBMS compare rows, e.g. SELECT DISTINCT, loses them)."""
    import sqlite3
    import morph_kgc
    d = os.path.join(ctx.tmp, 'collation')
    os.makedirs(d, exist_ok=True)
    rows = [('1', 'abc'), ('1', 'ABC'), ('2', 'x'), ('2', 'x  '), ('3', 'Q')]
    db = os.path.join(d, 'c.sqlite')
    if os.path.exists(db):
        os.remove(db)
    con = sqlite3.connect(db)
    con.execute('CREATE TABLE T (ID TEXT COLLATE RTRIM, V TEXT COLLATE NOCASE, W TEXT COLLATE RTRIM)')
    con.executemany('INSERT INTO T VALUES (?, ?, ?)', [(i, v, v) for i, v in rows])
    con.commit()
    con.close()
    csvp = os.path.join(d, 't.csv')
    with open(csvp, 'w', encoding='utf-8', newline='') as f:
        import csv as _csv
        w = _csv.writer(f, quoting=_csv.QUOTE_ALL)
        w.writerow(['ID', 'V', 'W'])
        w.writerows([(i, v, v) for i, v in rows])
    body = '''  rr:subjectMap [ rr:template "http://ex/s/{ID}" ];
  rr:predicateObjectMap [ rr:predicate <http://ex/v>; rr:objectMap [ %s "V" ] ];
  rr:predicateObjectMap [ rr:predicate <http://ex/w>; rr:objectMap [ %s "W" ] ] .
'''
    pre = '@prefix rr: <http://www.w3.org/ns/r2rml#> . @prefix rml: <http://semweb.mmlab.be/ns/rml#> . @prefix ql: <http://semweb.mmlab.be/ns/ql#> .\n'
    m_sql = os.path.join(d, 'sql.ttl')
    with open(m_sql, 'w') as f:
        f.write(pre + '<http://ex/TS> rr:logicalTable [ rr:tableName "T" ];\n' + body % ('rr:column', 'rr:column'))
    m_csv = os.path.join(d, 'csv.ttl')
    with open(m_csv, 'w') as f:
        f.write(pre + f'<http://ex/TC> rml:logicalSource [ rml:source "{csvp}"; rml:referenceFormulation ql:CSV ];\n' + body % ('rml:reference', 'rml:reference'))
    head = '[CONFIGURATION]\nnumber_of_processes=1\nlogging_level=CRITICAL\nna_values=\ninfer_sql_datatypes=no\n'
    res = {}
    for name, sec in (('csv', f'[DS]\nmappings={m_csv}\n'), ('sql table', f'[DS]\nmappings={m_sql}\ndb_url=sqlite:///{db}\n')):
        try:
            res[name] = {t.strip() for t in morph_kgc.materialize_set(head + sec)}
        except Exception as e:   # noqa: BLE001
            res[name] = {f'{type(e).__name__}: {str(e)[:200]}'}
    want = set()
    for i, v in rows:
        want.add(f'<http://ex/s/{i}> <http://ex/v> "{v}"')
        want.add(f'<http://ex/s/{i}> <http://ex/w> "{v}"')
    inp = {'kind': 'collation'}
    ctx.case(['collation'], nontrivial=True, kind='relational table with NOCASE / RTRIM collations vs CSV')
    ctx.traces_validated += 2
    for name, got in res.items():
        if got != want:
            ctx.violation(f'{name}: rows that differ only in letter case / trailing blanks: missing {sorted(want - got)[:3]}, unexpected {sorted(got - want)[:3]}', inp)


def run(ctx, lean, findings):
    rng = ctx.rng
    drv = ctx.get_driver() if ctx.model_available else None
    unavailable = [k for k, ok in AVAIL.items() if not ok]
    ctx.notes.append('source kinds driven: ' + ', '.join(ALL_KINDS) + ('; unavailable libraries for: ' + ', '.join(unavailable) if unavailable else ''))
    mult = 3 if ctx.escalate else 1
    if not drv:
        ctx.notes.append('driver unavailable: only the direct oracle is exercised')
    else:
        ctx.notes.append(f'generated facts: {facts_check(ctx, drv)}')
        contract_csv_tokenizer(ctx, drv, rng, ctx.budget(1500, 60000) * mult)
        contract_strings(ctx, drv, rng, ctx.budget(250, 8000) * mult)
        contract_source_types(ctx, drv, rng, ctx.budget(250, 6000) * mult)
        i12_text_kinds(ctx, drv, rng, ctx.budget(40, 1500) * mult)
        i12_sql(ctx, drv, rng, ctx.budget(25, 800) * mult)
        i12_typed(ctx, drv, rng, ctx.budget(64, 2400) * mult)
    # ---- direct oracle
    collation_case(ctx)
    t_oracle = ctx.elapsed()
    tlimit = ctx.budget(42, 600) * (2 if ctx.escalate else 1)
    n = ctx.budget(90, 4000) * mult
    fp_kinds = FILE_KINDS if ctx.tier == 'thorough' or ctx.escalate else [k for k in ('csv', 'tsv', 'json', 'parquet', 'xlsx') if k in FILE_KINDS]
    # (mapping variant, way of naming the file, kinds): the mapping of a variant is fixed for the whole run (one parse each), only the data changes
    schedule = ([('all', 'mapping', ALL_KINDS)] * 4 + [('one', 'mapping', [k for k in ALL_KINDS if k != 'ssv'])]   # a one-column file has no separator to sniff
                 + [('all', 'file_path', fp_kinds)] + [('all', 'mapping', ALL_KINDS)] * 3 +
                [('some', 'mapping', ALL_KINDS)] * 2)
    fixed_objs = {}
    agree = 0
    for it in range(n):
        variant, naming, kinds = schedule[it % len(schedule)]
        table = gen_one_column(rng) if variant == 'one' else gen_table(rng, ncols=2 if variant == 'all' else 3)
        if variant not in fixed_objs:
            fixed_objs[variant] = gen_objs(rng, table['columns'], variant)
        case = {'table': table, 'objs': fixed_objs[variant], 'na': rng.choice(NA_SETTINGS), 'variant': variant, 'naming': naming}
        oks = oracle_case(ctx, case, os.path.join(ctx.tmp, 'oracle'), kinds)
        if len({frozenset(v) for v in oks.values()}) <= 1:
            agree += 1
        if ctx.elapsed() - t_oracle > tlimit:
            ctx.notes.append(f'oracle loop stopped after {it + 1} tables (time)')
            break
    ctx.notes.append(f'oracle: tables on which all kinds returned the identical statement set: {agree}')
    # ---- recorded findings: minimal replays on the real engine
    for f in findings:
        if f.get('status') == 'open' and f.get('replay') and (f.get('property') == PROP):
            if replay_input(ctx, f['replay'], os.path.join(ctx.tmp, 'kf_' + f['id']), fid=f['id']):
                ctx.known(f['id'], f['what'])
            else:
                ctx.notes.append(f'finding {f["id"]} no longer reproduces')


def replay(ctx, data):
    if data.get('input', {}).get('kind') == 'collation':
        before = len(ctx.violations)
        collation_case(ctx)
        return len(ctx.violations) > before
    return replay_input(ctx, data['input'], os.path.join(ctx.tmp, 'rp'))
