"""C02 — mapping partitioning never changes the result."""
import os

import coregen as cg
import corecases as cc
import partgen as pg

PROP = 'C02'
LEAN_TARGETS = ['MorphKgc.Props.C02', 'MorphKgc.Props.CoreFuncs', 'MorphKgc.Props.PartFuncs']
GEN_KEYS = ['core', 'part']
M = 'MorphKgc.Props.C02'
THEOREMS = [{'name': f'Props.C02.{n}', 'module': M} for n in [
    'evalRule_relabel', 'grouped_eq_all', 'grouped_error_iff_all_error', 'C02_any_labelling', "C02_any_labelling'",
    'C02_partitioners_total', 'C02', 'C02_both_formats', 'C02_eq_union', 'C02_F1_template_without_reference', 'C02_F1_result_exists']]
# the model functions these theorems are about are EQUAL to the functions translated from /repo's source (Gen/CoreFuncs.lean)
THEOREMS += [{'name': f'Props.CoreFuncs.{n}', 'module': 'MorphKgc.Props.CoreFuncs'} for n in ['refs_eq', 'inv_eq']]
# the scan loops of mapping_partitioner.py, translated from /repo (Gen/PartFuncs.lean), are equal to Model.scanStep / invOf
THEOREMS += [{'name': f'Props.PartFuncs.{n}', 'module': 'MorphKgc.Props.PartFuncs'} for n in ['partial_S_eq', 'partial_P_eq', 'partial_O_eq', 'partial_G_eq', 'maximal_S_eq', 'maximal_P_eq', 'maximal_O_eq', 'maximal_G_eq', 'maximalPass_eq', 'term_invariants_step_eq', 'sort_keys', 'keyNames_cells', 'initial_scalars', 'enforce_shapes', 'genPartialStep_eq', 'partialPass_is_translated_loop', 'genMaximalStep_eq', 'maximalPass_is_translated_loop']]
RULE = ('(I5) rule tables — parsed from generated documents and synthetic ones with equal / nested / interleaved invariants, blank nodes, '
        'typed and tagged literals, constant-only predicate/graph columns — partitioned by the real MappingPartitioner and by '
        'Model.partitionLabels, compared label by label; (oracle) generated documents x tables materialized under NO, '
        'PARTIAL-AGGREGATIONS and MAXIMAL in N-TRIPLES and N-QUADS, results compared pairwise. '
        'non-trivial = at least two rules and, for the oracle, a non-empty result; distinct = hash of the rule table / (document, tables, format).')
TRUSTED_BASE = [
    'modelled, not verified: pandas sort_values on object columns (code-point order, NaN last), iterrows / .at writes, groupby on the label column',
    'Model.evalRule as validated by the C01 correspondence (I7)',
]
ASSUMPTIONS = ['MAXIMAL is run with number_of_processes=1 in the quick tier (the pool variant is part of C04)']

MODES = ['NO', 'PARTIAL-AGGREGATIONS', 'MAXIMAL']


def has_template_without_ref(doc):
    """scope of C02_F1: a template-valued term map without any unescaped '{'"""
    for _, tm, _ in cc.all_termmaps(doc):
        if tm.get('kind') == 'template' and '{' not in tm['value'].replace('\\{', ''):
            return True
    return False


def labels_case(ctx, drv, rules, mode, origin):
    real = pg.real_partition(rules, mode)
    ctx.case(['I5', mode, rules], nontrivial=len(rules) >= 2, kind=f'I5 {origin} {mode}',
             sample={'mode': mode, 'rules': len(rules), 'labels': (sorted(set(real[1].values())) if real[0] == 'ok' else real[1])})
    if real[0] == 'ok':
        if real[2] != len(rules) or any((not isinstance(l, str)) or l == '' for l in real[1].values()):
            ctx.violation('the partitioner lost a rule or produced a null label', {'rules': rules, 'mode': mode})
    if drv:
        m = drv.call('partition', rules=rules, mode=mode)
        if real[0] == 'ok':
            mod = {r['triples_map_id']: l for r, l in zip(rules, m.get('ok', []))}
            if mod != real[1]:
                # which labels are chosen is irrelevant to C02 (C02_any_labelling); C03 compares them
                ctx.bump('labels differ from the model (reported by C03)')
        elif 'ok' in m:
            ctx.disagree('I5 partitioner raises where the model does not', {'rules': rules, 'mode': mode}, 'ok', real[1])
    return real


def oracle_case(ctx, case, fmt):
    outs = {}
    for mode in MODES:
        outs[mode] = cc.engine(case, fmt=fmt, partitioning=mode)
    inp = {'doc': case.doc, 'tables': {os.path.basename(p): r for p, r in case.tables.items()}, 'fmt': fmt,
           'columns': {os.path.basename(p): c for p, c in case.columns.items()}}
    base = outs['NO']
    ctx.case(case.key() + [fmt, 'modes'], nontrivial=(base[0] == 'ok' and len(base[1]) > 0 and sum(len(t['poms']) for t in case.doc['tms']) >= 2),
             kind=f'oracle {fmt}', sample={'summary': case.summary(), 'fmt': fmt, 'n': len(base[1]) if base[0] == 'ok' else base[1]})
    ctx.traces_validated += 1
    for mode in MODES[1:]:
        if outs[mode] != base:
            what = f'result under {mode} differs from mapping_partitioning=NO: '
            if outs[mode][0] != base[0]:
                what += f'{mode}: {outs[mode][0]} {str(outs[mode][1])[:120]} / NO: {base[0]}'
            else:
                what += f'only in NO {[x for x in base[1] if x not in outs[mode][1]][:2]!r}, only in {mode} {[x for x in outs[mode][1] if x not in base[1]][:2]!r}'
            ctx.violation(what, inp, finding='C02_F1' if has_template_without_ref(case.doc) else None)
            return


def run(ctx, lean, findings):
    rng = ctx.rng
    drv = ctx.get_driver() if ctx.model_available else None
    # (I5) synthetic rule tables
    for _ in range(ctx.budget(60, 2500) * (3 if ctx.escalate else 1)):
        if ctx.tier == 'thorough' and not ctx.escalate and ctx.elapsed() > 380:
            break
        rules = pg.gen_rules(rng)
        for mode in MODES[1:]:
            if mode == 'MAXIMAL' and len(rules) > 7 and ctx.tier == 'quick':
                continue
            labels_case(ctx, drv, rules, mode, 'synthetic')
    # (I5) parsed rule tables + (oracle) the three modes
    n = ctx.budget(14, 600) * (3 if ctx.escalate else 1)
    for it in range(n):
        case = cc.make_case(rng, os.path.join(ctx.tmp, f'c{it}'), max_tms=3, max_poms=3)
        fmt = rng.choice(['N-TRIPLES', 'N-QUADS'])
        oracle_case(ctx, case, fmt)
        if drv and 'rml_df' in cg.LAST_RULES:
            rules = cg.rules_to_json(cg.LAST_RULES['rml_df'])
            for r in rules:
                r.pop('mapping_partition', None)
            for mode in MODES[1:]:
                if not (mode == 'MAXIMAL' and len(rules) > 10):
                    labels_case(ctx, drv, rules, mode, 'parsed')
        if not ctx.escalate and ctx.elapsed() > (80 if ctx.tier == 'quick' else 780):
            break
    for f in findings:
        if f.get('property') == PROP and f.get('status') == 'open' and f.get('replay'):
            if replay_input(ctx, f['replay'], os.path.join(ctx.tmp, 'kf_' + f['id'])):
                ctx.known(f['id'], f['what'])
            else:
                ctx.notes.append(f'finding {f["id"]} no longer reproduces')


def replay_input(ctx, inp, d):
    from props.C01 import build_case
    if 'doc' not in inp:
        real = pg.real_partition(inp['rules'], inp['mode'])
        return real[0] != 'ok' or real[2] != len(inp['rules'])
    case = build_case(d, inp)
    base = cc.engine(case, fmt=inp.get('fmt', 'N-TRIPLES'), partitioning='NO')
    return any(cc.engine(case, fmt=inp.get('fmt', 'N-TRIPLES'), partitioning=m) != base for m in MODES[1:])


def replay(ctx, data):
    return replay_input(ctx, data['input'], os.path.join(ctx.tmp, 'rp'))
