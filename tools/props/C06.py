"""C06 — a NULL suppresses exactly the statements that use it and never becomes a term."""
import csv
import json
import os
import sqlite3

import coregen as cg

PROP = 'C06'
LEAN_TARGETS = ['MorphKgc.Props.C06', 'MorphKgc.Props.CoreFuncs']
GEN_KEYS = ['null', 'core']
M = 'MorphKgc.Props.C06'
THEOREMS = [{'name': f'Props.C06.{n}', 'module': M} for n in [
    'C06_gen_kind', 'C06_gen_remove_nulls', 'C06_default_na',
    'C06_evalRuleG_current',
    'C06_rows_with_null_removed', 'C06_unreferenced_irrelevant', 'C06_set_unreferenced_cell',
    'C06_plain_rule_lines', 'C06_plain_rule_mem', 'C06_rule_rows_with_null_removed', 'C06_rule_unreferenced_irrelevant',
    'C06_row_survives_iff', 'C06_suppresses_exactly_partial',
    'C06_referencing_rule_rows_removed',
    'C06_never_a_term', 'C06_never_a_term_partial', 'C06_rule_never_a_term_partial',
    'C06_F1_null_object_rendered', 'C06_F1_fixed_behaviour', 'C06_F1_nan_caught_by_default', 'C06_F1_suppression_fails',
    'C06_sql_query_text', 'C06_sql_table_never_null', 'C06_sql_table_rows', 'C06_sql_query_can_deliver_null',
    'C06_csv_never_null',
    'C06_json_file_never_null', 'C06_F2_sibling_null_drops_row', 'C06_F2_fixed_shape',
    'C06_json_mem_can_deliver_nan', 'C06_json_null_value_filtered',
    'C06_F3_xml_empty_element_is_None', 'C06_xml_absent_element_is_nan', 'C06_F5_xml_missing_attribute_raises', 'C06_F5_fixed_shape',
    'naValuesOf_ne_nil',
    'C06_frame_can_deliver_null', 'C06_list_can_deliver_null',
    'C06_current_order', 'C06_never_a_term_current', 'C06_current_json_drop', 'C06_F2_current', 'C06_F5_current', 'C06_F1_current',
]]
# the columns a rule is NULL-filtered on: `_get_references_in_rml_rule` as translated from /repo = Model.refsOfRule
THEOREMS += [{'name': f'Props.CoreFuncs.{n}', 'module': 'MorphKgc.Props.CoreFuncs'} for n in ['refs_of_rule_eq', 'refs_of_rule_subject_eq']]
RULE = ('logical tables of 0-5 rows over 2-4 columns with a NULL in every position (rate 0.3) and values that are NA tokens or contain them, '
        'rendered as CSV, TSV, JSON file (nested keys, null / absent), XML (absent / empty element, absent attribute), SQLite table, SQLite query, '
        'DataFrame (None / nan / <NA> / NaT), list of dicts, dict x na_values in {default, empty, custom, substrings of values} x 1-2 triples maps '
        'with 1-3 predicate-object maps referencing random column subsets. Per case: (oracle) materialize_set against "statement present iff every '
        'referenced cell is non-NULL", computed in Python from the NULL marks; scan of the output for terms built from a NULL object; '
        '(I12) every reader against its Lean model; (I3) _preprocess_data against Model.preprocessG; (I7) materialize_set against reader model + '
        'Model.evalRuleG per rule of the REAL rule table; the SQL text of _build_sql_query against Model.buildSqlQuery and SelectAst.render. '
        'non-trivial = at least one referenced NULL (object or token) and one surviving row; distinct = hash of the case.')
TRUSTED_BASE = [
    'modelled, not verified: pandas read_table / read_sql_query / json_normalize / DataFrame construction / explode / replace / dropna / map, '
    'jsonpath projection `.(k1,k2)`, ElementTree findall/get/text, SQLite executing the generated SELECT (each compared with its Lean model on every run)',
    'the iterator (JSONPath / XPath) evaluation is outside the reader models: they start from the selected objects',
    'the shared engine model Model.evalRule / Model.preprocess (tied to the code by I3/I7 here and by C01)',
]
ASSUMPTIONS = [
    'for CSV/TSV an empty cell is the string "" and is a NULL exactly when "" is listed in na_values (the documented meaning of the option)',
    'cell values are IRI- and literal-safe (alphanumerics and "-"): escaping and percent-encoding belong to C01/C05',
    'reader models are bounded as stated in Model/NullSources.lean (depth-two JSON, XML children with text and attributes, string cells)',
    'columnar files, Excel/ODS, SAS/SPSS/Stata, tabular views (duckdb) and non-SQLite DBMS are not driven',
]

NULL_REPRS = ['None', 'nan', '<NA>', 'NaT']
KINDS = ['csv', 'tsv', 'json', 'xml', 'sqltable', 'sqlquery', 'frame', 'pylist', 'pydict']
POOLS = {'json': ['id', 'a.b', 'a.c', 'd'], 'pydict': ['id', 'a.b', 'a.c', 'd'], 'xml': ['id', 'a', 'b', '@k', 'w@q']}
FLAT_POOL = ['id', 'a', 'b', 'c']
NA_SETTINGS = [None, None, '', 'NULL,-', 'x,na', 'None,nan', 'NA,None,nan,<NA>,NaT,']
VALUES = ['1', '2', 'v', 'ab', 'Zq9', 'x', 'na', 'nan', 'None', 'NULL', 'NA', '-', 'xnany', 'aNULLb', 'nab', 'NaT', '7-7', '']


def na_list(na):
    return sorted(set((',nan' if na is None else na).split(',')))


# ----------------------------------------------------------------------------------------------------
# generation
# ----------------------------------------------------------------------------------------------------

def null_hows(kind, col):
    if kind in ('csv', 'tsv'):
        return ['empty']
    if kind in ('json', 'pydict'):
        return ['null', 'absent']
    if kind == 'xml':
        if col.startswith('@'):
            return ['absent']
        if '@' in col:
            return ['absent-attr', 'absent-elem']
        return ['absent', 'empty', 'selfclosing']
    if kind in ('sqltable', 'sqlquery'):
        return ['NULL']
    if kind == 'frame':
        return ['None', 'nan', 'NA', 'NaT']
    if kind == 'pylist':
        return ['None', 'absent']
    raise ValueError(kind)


def gen_case(rng, kind=None, na='?', null_rate=0.3, p_selfattr_null=0.15):
    kind = kind or rng.choice(KINDS)
    pool = POOLS.get(kind, FLAT_POOL)
    cols = ['id'] + rng.sample(pool[1:], rng.randrange(1, len(pool)))
    rows, hows = gen_rows(rng, kind, cols, null_rate, p_selfattr_null)
    tms = []
    for t in range(rng.randrange(1, 3)):
        scols = rng.sample(cols, 1 if rng.random() < 0.7 else min(2, len(cols)))
        poms = []
        for p in range(rng.randrange(1, 4)):
            q = rng.random()
            if q < 0.5:
                obj = {'kind': 'reference', 'cols': [rng.choice(cols)]}
            elif q < 0.75:
                obj = {'kind': 'template', 'iri': False, 'cols': rng.sample(cols, min(len(cols), rng.randrange(1, 3)))}
            elif q < 0.9:
                obj = {'kind': 'template', 'iri': True, 'cols': rng.sample(cols, min(len(cols), rng.randrange(1, 3)))}
            else:
                obj = {'kind': 'constant', 'cols': []}
            poms.append({'pred': f'http://ex.org/p/{t}{p}', 'obj': obj})
        tms.append({'scols': scols, 'poms': poms})
    if na == '?':
        na = rng.choice(NA_SETTINGS)
    return {'kind': kind, 'columns': cols, 'rows': rows, 'hows': hows, 'na': na, 'tms': tms,
            'query_star': rng.random() < 0.5, 'xml_slash': rng.random() < 0.3}


def vary_rows(rng, case, null_rate=0.3):
    """the same mapping and configuration over another table"""
    c = dict(case)
    c['rows'], c['hows'] = gen_rows(rng, case['kind'], case['columns'], null_rate, 0.15)
    return c


def gen_rows(rng, kind, cols, null_rate=0.3, p_selfattr_null=0.15):
    nrows = rng.randrange(0, 6)
    rows, hows = [], []
    for _ in range(nrows):
        r, h = {}, {}
        for c in cols:
            rate = null_rate * (p_selfattr_null / 0.3 if c.startswith('@') else 1.0)
            if rng.random() < rate:
                r[c] = None
                h[c] = rng.choice(null_hows(kind, c))
            else:
                v = rng.choice(VALUES)
                if v == '' and kind == 'xml':
                    v = 'e'
                r[c] = v
        rows.append(r)
        hows.append(h)
    if kind in ('frame', 'pylist') and rows:
        # pandas converts an object column without any string to float64 / datetime64 (None becomes nan / NaT): outside the reader models
        for c in cols:
            if all(r[c] is None for r in rows):
                i = rng.randrange(len(rows))
                rows[i][c] = rng.choice(VALUES[:-1])
                hows[i].pop(c, None)
    if rows and rng.random() < 0.3:
        i = rng.randrange(len(rows))
        rows.append(dict(rows[i]))
        hows.append(dict(hows[i]))
    return rows, hows


def logical_rows(case):
    """the rows with the source-specific reading of the marks: for CSV/TSV a NULL mark is the empty string"""
    if case['kind'] in ('csv', 'tsv'):
        return [{c: ('' if v is None else v) for c, v in r.items()} for r in case['rows']]
    return case['rows']


# ----------------------------------------------------------------------------------------------------
# the property, evaluated on the NULL marks (independent of the Lean model)
# ----------------------------------------------------------------------------------------------------

def subj_tpl(t, scols):
    return f'http://ex.org/s{t}/' + '/'.join('{' + c + '}' for c in scols)


def obj_tpl(obj):
    if obj['iri']:
        return 'http://ex.org/o/' + '/'.join('{' + c + '}' for c in obj['cols'])
    return '-'.join('{' + c + '}' for c in obj['cols'])


def enc(v):
    from urllib.parse import quote
    return quote(v, safe='')


def statement(t, tm, pom, val):
    """the statement of one predicate-object map for one row; val: column -> string"""
    s = '<' + f'http://ex.org/s{t}/' + '/'.join(enc(val[c]) for c in tm['scols']) + '>'
    o = pom['obj']
    if o['kind'] == 'reference':
        ot = '"' + val[o['cols'][0]] + '"'
    elif o['kind'] == 'constant':
        ot = '<http://ex.org/o/const>'
    elif o['iri']:
        ot = '<http://ex.org/o/' + '/'.join(enc(val[c]) for c in o['cols']) + '>'
    else:
        ot = '"' + '-'.join(val[c] for c in o['cols']) + '"'
    return f'{s} <{pom["pred"]}> {ot}'


def rule_refs(tm, pom):
    return list(dict.fromkeys(tm['scols'] + pom['obj']['cols']))


def expected(case):
    """statement present iff every referenced cell is non-NULL: not a NULL mark and not an na_values token"""
    na = set(na_list(case['na']))
    out = set()
    for t, tm in enumerate(case['tms']):
        for pom in tm['poms']:
            refs = rule_refs(tm, pom)
            for r in logical_rows(case):
                if all(r[c] is not None and r[c] not in na for c in refs):
                    out.add(statement(t, tm, pom, r))
    return out


# which NULL renderings a reader hands to `_preprocess_data` as a NULL *object*, and the str() of that object (per-source theorems of
# Props/C06.lean); anything else (SQL table, CSV, JSON file, an explicit JSON null of a dict source) is filtered by the reader itself
DELIVERED = {
    'sqlquery': {'NULL': 'None'},
    'frame': {'None': 'None', 'nan': 'nan', 'NA': '<NA>', 'NaT': 'NaT'},
    'pylist': {'None': 'None', 'absent': 'nan'},
    'pydict': {'absent': 'nan'},
    'xml': {'empty': 'None', 'selfclosing': 'None', 'absent-attr': 'None', 'absent': 'nan', 'absent-elem': 'nan'},
}


def leak_explains(case, line):
    """is `line` the statement of some rule for a row with a referenced NULL *object* that the reader of this source kind delivers,
    built from the str() of that object (None / nan / <NA> / NaT, not listed in na_values)?  — the mechanism of C06_F1 / C06_F3"""
    na = set(na_list(case['na']))
    dl = DELIVERED.get(case['kind'], {})
    for t, tm in enumerate(case['tms']):
        for pom in tm['poms']:
            refs = rule_refs(tm, pom)
            for r, h in zip(logical_rows(case), case['hows']):
                nulls = [c for c in refs if r[c] is None]
                if not nulls or any(r[c] is not None and r[c] in na for c in refs):
                    continue
                if case['kind'] == 'xml':
                    reprs = [('None' if c.startswith('@') else dl.get(h.get(c))) for c in nulls]
                else:
                    reprs = [dl.get(h.get(c)) for c in nulls]
                if any(x is None or x in na for x in reprs):
                    continue
                val = dict(r)
                val.update(dict(zip(nulls, reprs)))
                if statement(t, tm, pom, val) == line:
                    return True
    return False


def sibling_explains(case, line):
    """JSON file: `line` is expected, its row has a NULL in a column the rule does not reference but whose top-level key it does — C06_F2"""
    if case['kind'] != 'json':
        return False
    na = set(na_list(case['na']))
    for t, tm in enumerate(case['tms']):
        for pom in tm['poms']:
            refs = rule_refs(tm, pom)
            tops = {c.split('.')[0] for c in refs}
            sib = [c for c in case['columns'] if c not in refs and c.split('.')[0] in tops]
            if not sib:
                continue
            rows = [r for r in case['rows'] if all(r[c] is not None and r[c] not in na for c in refs) and statement(t, tm, pom, r) == line]
            if rows and all(any(r[c] is None for c in sib) for r in rows):
                return True
    return False


def xml_keyerror_scope(case):
    """XML: a reference `@attr` to an attribute of the iterator element that some element lacks — C06_F5"""
    return case['kind'] == 'xml' and any(c.startswith('@') and any(r[c] is None for r in case['rows']) for c in case['columns']
                                          if any(c in rule_refs(tm, pom) for tm in case['tms'] for pom in tm['poms']))


# ----------------------------------------------------------------------------------------------------
# rendering a case for the engine
# ----------------------------------------------------------------------------------------------------

PREFIX = ('@prefix rr: <http://www.w3.org/ns/r2rml#> .\n@prefix rml: <http://semweb.mmlab.be/ns/rml#> .\n'
          '@prefix ql: <http://semweb.mmlab.be/ns/ql#> .\n')


def nest(rec):
    """{'a.b': v} -> {'a': {'b': v}} (insertion order kept)"""
    out = {}
    for k, v in rec.items():
        if '.' in k:
            a, b = k.split('.', 1)
            out.setdefault(a, {})[b] = v
        else:
            out[k] = v
    return out


def json_payload(case):
    recs = []
    for r, h in zip(case['rows'], case['hows']):
        rec = {}
        for c in case['columns']:
            if r[c] is None and h[c] == 'absent':
                continue
            rec[c] = r[c]
        recs.append(nest(rec))
    return {'it': recs}


def xml_ref(case, c):
    return c.replace('@', '/@') if (case.get('xml_slash') and '@' in c and not c.startswith('@')) else c


def xml_elems(case):
    """the abstract elements (what the Lean reader model gets) of an XML case"""
    elems = []
    for r, h in zip(case['rows'], case['hows']):
        attrs, children = {}, []
        for c in case['columns']:
            v = r[c]
            if c.startswith('@'):
                if v is not None:
                    attrs[c[1:]] = v
            elif '@' in c:
                tag, a = c.split('@')
                if v is not None:
                    children.append({'tag': tag, 'attrs': {a: v}, 'text': None})
                elif h[c] == 'absent-attr':
                    children.append({'tag': tag, 'attrs': {}, 'text': None})
            else:
                if v is not None:
                    children.append({'tag': c, 'attrs': {}, 'text': v})
                elif h[c] in ('empty', 'selfclosing'):
                    children.append({'tag': c, 'attrs': {}, 'text': None, 'selfclosing': h[c] == 'selfclosing'})
        elems.append({'attrs': attrs, 'children': children})
    return elems


def xml_text(elems):
    out = ['<root>']
    for e in elems:
        out.append('<r' + ''.join(f' {k}="{v}"' for k, v in e['attrs'].items()) + '>')
        for ch in e['children']:
            at = ''.join(f' {k}="{v}"' for k, v in ch['attrs'].items())
            if ch['text'] is None:
                out.append(f'<{ch["tag"]}{at}/>' if ch.get('selfclosing', True) else f'<{ch["tag"]}{at}></{ch["tag"]}>')
            else:
                out.append(f'<{ch["tag"]}{at}>{ch["text"]}</{ch["tag"]}>')
        out.append('</r>')
    out.append('</root>')
    return ''.join(out)


def frame_of(case):
    import numpy as np
    import pandas as pd
    nulls = {'None': None, 'nan': np.nan, 'NA': pd.NA, 'NaT': pd.NaT}
    data = {c: [] for c in case['columns']}
    for r, h in zip(case['rows'], case['hows']):
        for c in case['columns']:
            data[c].append(nulls[h[c]] if r[c] is None else r[c])
    return pd.DataFrame({c: pd.Series(v, dtype=object) for c, v in data.items()})


def pylist_of(case):
    out = []
    for r, h in zip(case['rows'], case['hows']):
        out.append({c: r[c] for c in case['columns'] if not (r[c] is None and h[c] == 'absent')})
    return out


def materialise_source(case, d):
    """writes the payload; returns (logical source turtle, extra config lines, python_source, lsv)"""
    os.makedirs(d, exist_ok=True)
    k = case['kind']
    if k in ('csv', 'tsv'):
        p = os.path.join(d, 't.' + k)
        with open(p, 'w', encoding='utf-8', newline='') as f:
            w = csv.writer(f, quoting=csv.QUOTE_ALL, lineterminator='\n', delimiter=',' if k == 'csv' else '\t')
            w.writerow(case['columns'])
            for r in case['rows']:
                w.writerow(['' if r[c] is None else r[c] for c in case['columns']])
        return f'rml:logicalSource [ rml:source "{p}" ; rml:referenceFormulation ql:CSV ]', '', None, p
    if k == 'json':
        p = os.path.join(d, 't.json')
        with open(p, 'w', encoding='utf-8') as f:
            json.dump(json_payload(case), f)
        return f'rml:logicalSource [ rml:source "{p}" ; rml:referenceFormulation ql:JSONPath ; rml:iterator "$.it[*]" ]', '', None, p
    if k == 'xml':
        p = os.path.join(d, 't.xml')
        with open(p, 'w', encoding='utf-8') as f:
            f.write(xml_text(xml_elems(case)))
        return f'rml:logicalSource [ rml:source "{p}" ; rml:referenceFormulation ql:XPath ; rml:iterator "/root/r" ]', '', None, p
    if k in ('sqltable', 'sqlquery'):
        p = os.path.join(d, 'db.sqlite')
        if os.path.exists(p):
            os.remove(p)
        con = sqlite3.connect(p)
        con.execute('CREATE TABLE t (' + ', '.join(f'"{c}" TEXT' for c in case['columns']) + ')')
        con.executemany('INSERT INTO t VALUES (' + ','.join('?' for _ in case['columns']) + ')',
                        [[r[c] for c in case['columns']] for r in case['rows']])
        con.commit()
        con.close()
        if k == 'sqltable':
            return 'rr:logicalTable [ rr:tableName "t" ]', f'db_url=sqlite:///{p}', None, 't'
        q = 'SELECT * FROM t' if case.get('query_star') else 'SELECT ' + ', '.join(case['columns']) + ' FROM t'
        return f'rr:logicalTable [ rr:sqlQuery "{q}" ]', f'db_url=sqlite:///{p}', None, q
    if k == 'frame':
        return 'rml:logicalSource [ rml:source "{src}" ]', '', {'src': frame_of(case)}, '{src}'
    if k == 'pylist':
        return 'rml:logicalSource [ rml:source "{src}" ]', '', {'src': pylist_of(case)}, '{src}'
    if k == 'pydict':
        return ('rml:logicalSource [ rml:source "{src}" ; rml:referenceFormulation ql:JSONPath ; rml:iterator "$.it[*]" ]', '',
                {'src': json_payload(case)}, '{src}')
    raise ValueError(k)


def mapping_text(case, ls):
    out = [PREFIX]
    for t, tm in enumerate(case['tms']):
        lines = [f'<http://ex.org/tm/{t}> a rr:TriplesMap ;', f'  {ls} ;']
        st = subj_tpl(t, [xml_ref(case, c) for c in tm['scols']])
        lines.append(f'  rr:subjectMap [ rr:template "{st}" ] ;')
        for i, pom in enumerate(tm['poms']):
            o = pom['obj']
            if o['kind'] == 'reference':
                om = f'[ rml:reference "{xml_ref(case, o["cols"][0])}" ]'
            elif o['kind'] == 'constant':
                om = '[ rr:constant <http://ex.org/o/const> ]'
            else:
                tpl = obj_tpl({'iri': o['iri'], 'cols': [xml_ref(case, c) for c in o['cols']]})
                om = f'[ rr:template "{tpl}" ; rr:termType {"rr:IRI" if o["iri"] else "rr:Literal"} ]'
            lines.append(f'  rr:predicateObjectMap [ rr:predicate <{pom["pred"]}> ; rr:objectMap {om} ]' + (' ;' if i < len(tm['poms']) - 1 else ' .'))
        out.append('\n'.join(lines))
    return '\n\n'.join(out) + '\n'


_PARSE_CACHE = {}


def _install_parse_cache():
    """`materialize_set` is run unchanged, but `retrieve_mappings` (1000+ SPARQL queries per call) is answered from a cache when the
    mapping text and the configuration are identical to an earlier call; for SQL sources the key also holds whether the table is empty
    (datatype inference looks at the catalogue).  The rule table is a function of configuration and mapping files only."""
    import morph_kgc
    cg._install_capture()
    if getattr(morph_kgc, '_verif_c06_cache', False):
        return
    inner = morph_kgc.retrieve_mappings

    def wrapper(config):
        key = _PARSE_CACHE.get('next_key')
        if key is not None and key in _PARSE_CACHE:
            rml_df, fnml_df = _PARSE_CACHE[key]
            cg.LAST_RULES['rml_df'] = rml_df.copy()
            cg.LAST_RULES['fnml_df'] = fnml_df.copy()
            return rml_df.copy(), fnml_df.copy()
        rml_df, fnml_df = inner(config)
        if key is not None:
            if len(_PARSE_CACHE) > 64:
                _PARSE_CACHE.clear()
            _PARSE_CACHE[key] = (rml_df.copy(), fnml_df.copy())
        return rml_df, fnml_df
    morph_kgc.retrieve_mappings = wrapper
    morph_kgc._verif_c06_cache = True


def run_case(case, d):
    """-> (kind, result, context for the model chain)"""
    ls, extra, pysrc, lsv = materialise_source(case, d)
    mp = os.path.join(d, 'm.ttl')
    with open(mp, 'w', encoding='utf-8') as f:
        f.write(mapping_text(case, ls))
    cfg = cg.config_text(mp, na=case['na']) + (extra + '\n' if extra else '')
    _install_parse_cache()
    _PARSE_CACHE['next_key'] = (cfg, mapping_text(case, ls), bool(case['rows']) if case['kind'].startswith('sql') else None)
    try:
        kind, res = cg.run_engine(cfg, pysrc)
    finally:
        _PARSE_CACHE['next_key'] = None
    return kind, res, {'lsv': lsv, 'pysrc': pysrc}


# ----------------------------------------------------------------------------------------------------
# canonical tables; the reader models
# ----------------------------------------------------------------------------------------------------

def canon_cell(x):
    import pandas as pd
    if x is None:
        return {'n': 'None'}
    if isinstance(x, str):
        return x
    try:
        if pd.api.types.is_scalar(x) and pd.isna(x):
            return {'n': str(x)}
    except Exception:
        pass
    return str(x)


def canon_frame(df, cols=None):
    cs = list(df.columns) if cols is None else [c for c in df.columns if c in cols]
    data = [[canon_cell(x) for x in df[c].tolist()] for c in cs]      # column-wise: a row Series would coerce None to NaT / nan
    rows = [sorted(([c, data[j][i]] for j, c in enumerate(cs)), key=lambda p: p[0]) for i in range(len(df))]
    return sorted(rows, key=lambda r: json.dumps(r, sort_keys=True))


def canon_model_table(t, cols=None):
    rows = [sorted(([c, v] for c, v in r if cols is None or c in cols), key=lambda p: p[0]) for r in t]
    return sorted(rows, key=lambda r: json.dumps(r, sort_keys=True))


def jrecord(rec):
    """a nested Python record -> the driver's JRecord encoding"""
    out = []
    for k, v in rec.items():
        if isinstance(v, dict):
            out.append([k, ['obj', [[a, b] for a, b in v.items()]]])
        elif isinstance(v, list):
            out.append([k, ['arr', v]])
        else:
            out.append([k, v])
    return out


def cell_in(v):
    return v


def model_table(drv, case, refs, lsv):
    """what the Lean model of the case's reader delivers for the references `refs` -> ('ok', rows) | ('keyerror', col)"""
    k = case['kind']
    refs = [xml_ref(case, c) if k == 'xml' else c for c in refs]
    if k in ('csv', 'tsv'):
        t = drv.call('c06_csv', rows=[{c: ('' if r[c] is None else r[c]) for c in case['columns']} for r in case['rows']])
        return 'ok', t
    if k in ('sqltable', 'sqlquery'):
        rows = [{c: r[c] for c in case['columns']} for r in case['rows']]
        return 'ok', drv.call('c06_sql_deliver', lst='tableName' if k == 'sqltable' else 'query', lsv=lsv, refs=refs, rows=rows)
    if k in ('json', 'pydict'):
        return 'ok', drv.call('c06_json', mem=(k == 'pydict'), refs=refs, records=[jrecord(r) for r in json_payload(case)['it']])
    if k == 'xml':
        r = drv.call('c06_xml', refs=refs, elems=[{'attrs': e['attrs'], 'children': [{'tag': c['tag'], 'attrs': c['attrs'], 'text': c['text']}
                                                                                  for c in e['children']]} for e in xml_elems(case)])
        return ('ok', r['ok']) if 'ok' in r else ('keyerror', r['keyerror'])
    if k == 'frame':
        rows = []
        hmap = {'None': 'None', 'nan': 'nan', 'NA': '<NA>', 'NaT': 'NaT'}
        for r, h in zip(case['rows'], case['hows']):
            rows.append({c: ({'n': hmap[h[c]]} if r[c] is None else r[c]) for c in case['columns']})
        r = drv.call('c06_frame', refs=refs, rows=rows)
        return ('ok', r['ok']) if 'ok' in r else ('keyerror', r['keyerror'])
    if k == 'pylist':
        return 'ok', drv.call('c06_list', refs=refs, records=[[[c, v] for c, v in d.items()] for d in pylist_of(case)])
    raise ValueError(k)


def rows_for_driver(t):
    return [{c: v for c, v in r} for r in t]


def real_reader(case, refs, ctxd):
    """the real reader of the case's source kind on the same payload -> DataFrame (or raises)"""
    from morph_kgc.data_source import data_file, python_data, relational_db
    k = case['kind']
    lsv = ctxd['lsv']
    refs = [xml_ref(case, c) if k == 'xml' else c for c in refs]
    if k in ('csv', 'tsv'):
        return data_file.get_file_data({'source_type': k.upper(), 'logical_source_type': 'x', 'logical_source_value': lsv}, refs)
    if k == 'json':
        return data_file._read_json({'logical_source_value': lsv, 'iterator': '$.it[*]'}, list(refs))
    if k == 'xml':
        return data_file._read_xml({'logical_source_value': lsv, 'iterator': '/root/r'}, list(refs))
    if k in ('frame', 'pylist'):
        return python_data.get_ram_data({'logical_source_value': '{src}', 'iterator': None}, refs, ctxd['pysrc'])
    if k == 'pydict':
        return python_data.get_ram_data({'logical_source_value': '{src}', 'iterator': '$.it[*]'}, refs, ctxd['pysrc'])
    raise ValueError(k)


# ----------------------------------------------------------------------------------------------------
# one end-to-end case
# ----------------------------------------------------------------------------------------------------

def referenced_null(case):
    na = set(na_list(case['na']))
    for tm in case['tms']:
        for pom in tm['poms']:
            for r in logical_rows(case):
                if any(r[c] is None or r[c] in na for c in rule_refs(tm, pom)):
                    return True
    return False


def triage_case(case, res_kind, res, exp):
    """-> (violations: list of (what, finding))"""
    out = []
    if res_kind != 'ok':
        f = 'C06_F5' if (xml_keyerror_scope(case) and str(res).startswith('KeyError')) else None
        out.append((f'materialization failed on a table with NULLs: {res}', f))
        return out
    got = set(res)
    extra = sorted(got - exp)
    missing = sorted(exp - got)
    if extra:
        unexplained = [l for l in extra if not leak_explains(case, l)]
        if unexplained:
            out.append((f'statements that the NULL rule does not allow: {unexplained[:3]!r}', None))
        else:
            fid = 'C06_F3' if case['kind'] == 'xml' else 'C06_F1'
            out.append((f'a NULL object was rendered as a term ({case["kind"]}): {extra[:3]!r}', fid))
    if missing:
        unexplained = [l for l in missing if not sibling_explains(case, l)]
        if unexplained:
            out.append((f'statements suppressed although every referenced cell is non-NULL ({case["kind"]}): {unexplained[:3]!r}', None))
        else:
            out.append((f'rows lost because of a NULL in a column the rule does not reference (JSON file): {missing[:3]!r}', 'C06_F2'))
    return out


def scan_null_terms(case, res):
    """terms equal to / containing the str() of a NULL object although no data value or mapping constant contains it"""
    hits = []
    texts = [v for r in case['rows'] for v in r.values() if v is not None]
    for tok in NULL_REPRS:
        if any(tok in v for v in texts):
            continue
        for line in res:
            body = line.replace('http://ex.org/', '').replace('%3C', '<').replace('%3E', '>')
            if tok in body:
                hits.append((tok, line))
    return hits


def model_chain(ctx, drv, case, res_kind, res, ctxd, inp):
    """I7: reader model + evalRuleG on the real rule table; I12: the real reader against its model, per rule"""
    if 'rml_df' not in cg.LAST_RULES:
        return
    rules = cg.rules_to_json(cg.LAST_RULES['rml_df'])
    na = na_list(case['na'])
    lines, failed = set(), None
    seen_refs = set()
    for i, r in enumerate(rules):
        if not r.get('asserted', True):
            continue
        refs = drv.call('c06_refs', rules=rules, index=i)
        mk, mt = model_table(drv, case, [c.replace('/@', '@') if case['kind'] == 'xml' else c for c in refs], ctxd['lsv'])
        key = tuple(sorted(refs))
        if key not in seen_refs and case['kind'] not in ('sqltable', 'sqlquery'):
            seen_refs.add(key)
            # I12 for exactly the references of this rule
            try:
                df = real_reader(case, [c.replace('/@', '@') if case['kind'] == 'xml' else c for c in refs], ctxd)
                rk, rt = 'ok', canon_frame(df, cols=refs)
            except KeyError as e:
                rk, rt = 'keyerror', str(e.args[0])
            except Exception as e:  # noqa
                rk, rt = 'exc', f'{type(e).__name__}: {e}'
            mcanon = canon_model_table(mt, cols=refs) if mk == 'ok' else mt
            if (rk, rt) != (mk, mcanon):
                ctx.disagree(f'I12 reader {case["kind"]}', dict(inp, refs=refs), [mk, mcanon if mk != 'ok' else mcanon[:6]], [rk, rt if rk != 'ok' else rt[:6]])
        if mk != 'ok':
            failed = ('keyerror', mt)
            break
        m = drv.call('c06_eval_rule', rules=rules, index=i, na=na,
                     tables=[{'source_name': r['source_name'], 'lsv': r['logical_source_value'], 'rows': rows_for_driver(mt)}])
        if 'ok' not in m:
            failed = ('keyerror', m.get('keyerror'))
            break
        lines.update(m['ok'])
    if failed:
        if res_kind == 'ok' or not str(res).startswith('KeyError'):
            ctx.disagree('I7 materialize_set vs reader model + evalRuleG', inp, list(failed), res if res_kind != 'ok' else res[:5])
    elif res_kind != 'ok' or sorted(lines) != res:
        ctx.disagree('I7 materialize_set vs reader model + evalRuleG', inp, sorted(lines)[:8], res if res_kind != 'ok' else res[:8])


def sql_text_check(ctx, drv, case, inp):
    """`_build_sql_query` against the model built from Gen.sqlShape and against the rendering of the abstract SELECT"""
    from morph_kgc.data_source import relational_db
    from morph_kgc.constants import RML_TABLE_NAME, RML_QUERY
    for tm in case['tms']:
        for pom in tm['poms']:
            refs = rule_refs(tm, pom)
            for lst, name in ((RML_TABLE_NAME, 'tableName'), (RML_QUERY, 'query')):
                lsv = 't' if name == 'tableName' else 'SELECT * FROM t'
                real = relational_db._build_sql_query({'logical_source_type': lst, 'logical_source_value': lsv}, refs)
                mod = drv.call('c06_sql_query', lst=name, lsv=lsv, refs=refs)
                if real != mod:
                    ctx.disagree('_build_sql_query vs Model.buildSqlQuery', dict(inp, refs=refs, lst=name), mod, real)
                if name == 'tableName' and refs:
                    ren = drv.call('c06_sql_render', lsv=lsv, refs=refs)
                    if real != ren:
                        ctx.disagree('_build_sql_query vs SelectAst.render (one IS NOT NULL conjunct per reference)', dict(inp, refs=refs), ren, real)


def one_case(ctx, drv, case, d, chain=True):
    kind, res, ctxd = run_case(case, d)
    exp = expected(case)
    inp = {k: case[k] for k in ('kind', 'columns', 'rows', 'hows', 'na', 'tms', 'query_star', 'xml_slash') if k in case}
    nontriv = referenced_null(case) and bool(exp)
    ctx.case(inp, nontrivial=nontriv, kind=f'e2e {case["kind"]} na={"default" if case["na"] is None else repr(case["na"])}',
             sample={'kind': case['kind'], 'na': case['na'], 'rows': case['rows'][:2], 'lines': (res[:2] if kind == 'ok' else res)})
    ctx.traces_validated += 1
    for what, fid in triage_case(case, kind, res, exp):
        ctx.violation(what, inp, finding=fid)
    if kind == 'ok':
        hits = scan_null_terms(case, res)
        if hits and not any(leak_explains(case, l) for _, l in hits):
            ctx.violation(f'a term contains {hits[0][0]!r}, which no data value contains: {hits[0][1]!r}', inp, finding=None)
    if drv and chain:
        model_chain(ctx, drv, case, kind, res, ctxd, inp)
        if case['kind'] == 'sqltable':
            sql_text_check(ctx, drv, case, inp)


# ----------------------------------------------------------------------------------------------------
# interface-level correspondences with richer payloads
# ----------------------------------------------------------------------------------------------------

def i3_preprocess(ctx, drv, rng, n):
    """`_preprocess_data` on frames with NULL objects / NA tokens against Model.preprocessG Gen.preprocessKind"""
    import numpy as np
    import pandas as pd
    from morph_kgc.args_parser import load_config_from_argument
    from morph_kgc.materializer import _preprocess_data
    nulls = [('None', None), ('nan', np.nan), ('<NA>', pd.NA), ('NaT', pd.NaT)]
    mp = os.path.join(ctx.tmp, 'i3.ttl')
    with open(mp, 'w') as f:
        f.write(PREFIX)
    for it in range(n):
        na = rng.choice(NA_SETTINGS)
        config = load_config_from_argument(cg.config_text(mp, na=na))
        cols = rng.sample(FLAT_POOL, rng.randrange(1, 5))
        refs = rng.sample(cols, rng.randrange(1, len(cols) + 1))
        rows = []
        for _ in range(rng.randrange(0, 6)):
            r = {}
            for c in cols:
                if rng.random() < 0.3:
                    r[c] = rng.choice(nulls)
                else:
                    r[c] = rng.choice(VALUES)
            rows.append(r)
        if rows and rng.random() < 0.3:
            rows.append(dict(rng.choice(rows)))
        df = pd.DataFrame({c: pd.Series([(r[c][1] if isinstance(r[c], tuple) else r[c]) for r in rows], dtype=object) for c in cols})
        try:
            out = _preprocess_data(df, {'source_type': 'CSV', 'source_name': 'DS'}, set(refs), config)
            real = sorted(sorted([c, str(r[c])] for c in refs) for _, r in out.iterrows())
            real = [list(x) for x in dict.fromkeys(tuple(map(tuple, r)) for r in real)]
            rk = 'ok'
        except Exception as e:  # noqa
            rk, real = 'exc', f'{type(e).__name__}: {e}'
        mrows = [{c: ({'n': r[c][0]} if isinstance(r[c], tuple) else r[c]) for c in cols} for r in rows]
        m = drv.call('c06_preprocess', na=na_list(na), refs=refs, rows=mrows)
        inp = {'na': na, 'refs': refs, 'rows': mrows}
        nontriv = any(isinstance(v, dict) or v in na_list(na) for r in mrows for c, v in r.items() if c in refs)
        ctx.case(['i3', inp], nontrivial=nontriv, kind='I3 _preprocess_data')
        mod = sorted({tuple(sorted((c, v) for c, v in r)) for r in m['ok']}) if 'ok' in m else m
        mod = [[list(p) for p in r] for r in mod] if 'ok' in m else mod
        realc = [[list(p) for p in r] for r in real] if rk == 'ok' else real
        if rk != 'ok' or 'ok' not in m or mod != realc:
            ctx.disagree('I3 _preprocess_data vs Model.preprocessG', inp, mod, realc)


def i12_json(ctx, drv, rng, n):
    """`_read_json` / `_read_inmemory_json` on nested records with arrays against Model.readJson"""
    from morph_kgc.data_source import data_file, python_data
    p = os.path.join(ctx.tmp, 'i12.json')
    for it in range(n):
        recs = []
        for _ in range(rng.randrange(0, 5)):
            rec = {}
            for k in ['id', 'a', 'd', 'e']:
                q = rng.random()
                if q < 0.15:
                    continue
                if k == 'a':
                    if q < 0.8:
                        o = {}
                        for kk in ['b', 'c']:
                            qq = rng.random()
                            if qq < 0.2:
                                continue
                            o[kk] = None if qq < 0.4 else rng.choice(VALUES)
                        if not o:
                            continue
                        rec[k] = o
                    else:
                        rec[k] = rng.choice(VALUES)
                elif k == 'e' and q < 0.6:
                    rec[k] = [None if rng.random() < 0.25 else rng.choice(VALUES) for _ in range(rng.randrange(0, 3))]
                else:
                    rec[k] = None if q < 0.35 else rng.choice(VALUES)
            recs.append(rec)
        refs = rng.sample(['id', 'a.b', 'a.c', 'd', 'e', 'zz'], rng.randrange(1, 4))
        mem = rng.random() < 0.5
        if mem and any(r.startswith('a.') for r in refs) and any(not isinstance(rec.get('a', {}), dict) for rec in recs):
            # `.(a.b)` on a scalar `a` is outside the projection model
            for rec in recs:
                if not isinstance(rec.get('a', {}), dict):
                    del rec['a']
        try:
            if mem:
                df = python_data.get_ram_data({'logical_source_value': '{s}', 'iterator': '$.it[*]'}, list(refs), {'s': {'it': recs}})
            else:
                with open(p, 'w') as f:
                    json.dump({'it': recs}, f)
                df = data_file._read_json({'logical_source_value': p, 'iterator': '$.it[*]'}, list(refs))
            real = ('ok', canon_frame(df, cols=refs))
        except Exception as e:  # noqa
            real = ('exc', f'{type(e).__name__}: {e}')
        mt = drv.call('c06_json', mem=mem, refs=refs, records=[jrecord(r) for r in recs])
        mod = ('ok', canon_model_table(mt, cols=refs))
        inp = {'mem': mem, 'refs': refs, 'records': recs}
        ctx.case(['i12json', inp], nontrivial=any(v is None or (isinstance(v, dict) and None in v.values()) for r in recs for v in r.values()),
                 kind='I12 json ' + ('mem' if mem else 'file'))
        if real != mod:
            ctx.disagree('I12 _read_json' if not mem else 'I12 _read_inmemory_json', inp, mod, real)


def i12_xml(ctx, drv, rng, n):
    """`_read_xml` on elements with repeated children (explode) against Model.readXml"""
    from morph_kgc.data_source import data_file
    p = os.path.join(ctx.tmp, 'i12.xml')
    for it in range(n):
        elems = []
        for _ in range(rng.randrange(0, 4)):
            attrs = {'k': rng.choice(VALUES[:8])} if rng.random() < 0.85 else {}
            ch = []
            for tag in ['id', 'a', 'w']:
                for _ in range(rng.choice([0, 1, 1, 1, 2])):
                    at = {'q': rng.choice(VALUES[:8])} if (tag == 'w' and rng.random() < 0.7) else {}
                    q = rng.random()
                    ch.append({'tag': tag, 'attrs': at, 'text': None if q < 0.25 else (rng.choice(VALUES[:-1]) or 'e'), 'selfclosing': q < 0.12})
            elems.append({'attrs': attrs, 'children': ch})
        refs = rng.sample(['id', 'a', 'w', 'w@q', 'w/@q', '@k', 'zz'], rng.randrange(1, 4))
        if 'w@q' in refs and 'w/@q' in refs:
            refs.remove('w/@q')
        with open(p, 'w') as f:
            f.write(xml_text(elems))
        try:
            df = data_file._read_xml({'logical_source_value': p, 'iterator': '/root/r'}, list(refs))
            real = ('ok', canon_frame(df))
        except KeyError as e:
            real = ('keyerror', str(e.args[0]))
        except Exception as e:  # noqa
            real = ('exc', f'{type(e).__name__}: {e}')
        m = drv.call('c06_xml', refs=refs, elems=[{'attrs': e['attrs'], 'children': [{'tag': c['tag'], 'attrs': c['attrs'], 'text': c['text']}
                                                                                  for c in e['children']]} for e in elems])
        mod = ('ok', canon_model_table(m['ok'])) if 'ok' in m else ('keyerror', m['keyerror'])
        inp = {'refs': refs, 'elems': elems}
        ctx.case(['i12xml', inp], nontrivial=bool(elems), kind='I12 xml')
        if real != mod:
            ctx.disagree('I12 _read_xml', inp, mod, real)


def facts_check(ctx, drv, lean):
    """the generated facts the theorems rest on, re-read through the driver and against the running package"""
    f = drv.call('c06_facts')
    from morph_kgc.args_parser import load_config_from_argument
    mp = os.path.join(ctx.tmp, 'facts.ttl')
    with open(mp, 'w') as fh:
        fh.write(PREFIX)
    for na in NA_SETTINGS + ['a,,b,a', ',', 'nan']:
        config = load_config_from_argument(cg.config_text(mp, na=na))
        real = sorted(config.get_na_values())
        mod = sorted(drv.call('c06_na_values', raw=(',nan' if na is None else na))) if na is not None else sorted(f['default_na'])
        ctx.case(['na', na], nontrivial=True, kind='get_na_values')
        if real != mod:
            ctx.disagree('Config.get_na_values vs Model.naValuesOf', {'na_values': na}, mod, real)
    return f


# ----------------------------------------------------------------------------------------------------
# recorded findings
# ----------------------------------------------------------------------------------------------------

def replay_input(ctx, inp, d, fid=None):
    """True iff the property still fails on this case (for a recorded finding: fails by the mechanism of that finding)"""
    case = dict(inp)
    case.setdefault('hows', [{} for _ in case['rows']])
    kind, res, _ = run_case(case, d)
    vs = triage_case(case, kind, res, expected(case))
    return any(f == fid for _, f in vs) if fid else bool(vs)


def run(ctx, lean, findings):
    rng = ctx.rng
    drv = ctx.get_driver() if ctx.model_available else None
    if not drv:
        ctx.notes.append('driver unavailable: only the direct oracle is exercised')
    else:
        facts = facts_check(ctx, drv, lean)
        ctx.notes.append(f'generated facts: {facts}')
    mult = 3 if ctx.escalate else 1
    if drv:
        i3_preprocess(ctx, drv, rng, ctx.budget(120, 3000) * mult)
        i12_json(ctx, drv, rng, ctx.budget(80, 2500) * mult)
        i12_xml(ctx, drv, rng, ctx.budget(60, 2000) * mult)
    n = ctx.budget(432, 20000) * mult
    tlimit = ctx.budget(60, 780) * (2 if ctx.escalate else 1)
    per_mapping = 8
    base = None
    for it in range(n):
        if it % per_mapping == 0:
            base = gen_case(rng, kind=KINDS[(it // per_mapping) % len(KINDS)])
            case = base
        else:
            case = vary_rows(rng, base)
        one_case(ctx, drv, case, os.path.join(ctx.tmp, f'c{(it // per_mapping) % 40}'))
        if ctx.elapsed() > tlimit:
            ctx.notes.append(f'end-to-end loop stopped after {it + 1} cases (time)')
            break
    # recorded findings: minimal replays on the real engine
    for f in findings:
        if f.get('property') == PROP and f.get('status') == 'open' and f.get('replay'):
            if replay_input(ctx, f['replay'], os.path.join(ctx.tmp, 'kf_' + f['id']), fid=f['id']):
                ctx.known(f['id'], f['what'])
            else:
                ctx.notes.append(f'finding {f["id"]} no longer reproduces')


def replay(ctx, data):
    return replay_input(ctx, data['input'], os.path.join(ctx.tmp, 'rp'))
