"""C07 — referencing object maps implement the relational inner equi-join."""
import copy
import re
import csv
import json
import os
import shutil
import sqlite3

import coregen as cg
import corecases as cc

PROP = 'C07'
LEAN_TARGETS = ['MorphKgc.Props.C07', 'MorphKgc.Props.C07Now', 'MorphKgc.Props.C07Sec']
GEN_KEYS = ['join']
M = 'MorphKgc.Props.C07'
THEOREMS = [{'name': f'Props.C07.{n}', 'module': M} for n in [
    'C07_gen_merge_shape', 'C07_gen_join_cond_route', 'C07_gen_ref_branch', 'C07_gen_elim_tests', 'C07_gen_translated', 'C07_gen_object_query',
    'C07_merge_is_join', 'C07_join_pairs', 'C07_join_count', 'C07_null_never_matches', 'C07_F3_prefix_clash_raises',
    'C07_branch_is_evalRule', 'C07_rule_is_join', 'C07_refobj', 'C07_refobj_generation_rules',
    'C07_elim_current_is_shared', 'C07_tests_same_table', 'C07_elim_result', 'C07_elimination_sound', 'C07_elimination_partial', 'C07_repaired_tests',
    'C07_elimination_repaired', 'C07_F1_identity_pairing', 'C07_F2_null_key_linked', 'C07_F1_F2_repaired_behaviour',
    'C07_repaired_still_eliminates', 'C07_F4_referencing_map_lost', 'C07_F4_repaired_query']] + [
    {'name': 'Model.mergeFrames_eq_mergeDataP', 'module': 'MorphKgc.Lemmas.Join'},
    {'name': 'Model.mergeData_eq_innerJoin', 'module': 'MorphKgc.Lemmas.Join'},
    {'name': 'Model.evalRefRule_eq_evalRule', 'module': 'MorphKgc.Lemmas.Join'},
    {'name': 'Model.mem_evalRule_ref', 'module': 'MorphKgc.Lemmas.JoinRule'},
    {'name': 'Model.ref_rule_refinement', 'module': 'MorphKgc.Lemmas.JoinRefine'},
    {'name': 'Model.elimination_sameOutcome', 'module': 'MorphKgc.Lemmas.JoinElimSound'}]
# hypothesis-free theorems of the repaired shapes the translator reads from /repo now (Props/C07Now.lean)
THEOREMS += [{'name': f'Props.C07.{n}', 'module': 'MorphKgc.Props.C07Now'} for n in ['C07_current_elim_shape', 'C07_current_object_query', 'C07_current_same_table', 'C07_elimination_current', 'C07_shared_model_is_current', 'C07_objects_seen_current']]
THEOREMS += [{'name': f'Props.C07Sec.{n}', 'module': 'MorphKgc.Props.C07Sec'} for n in ['C07_F6_cross_section_parent_termtype', 'C07_F6_document_reading', 'C07_F6_same_section_agrees']]
LINKS = [{'target': 'MorphKgc.Props.C07Doc', 'needs': ['MorphKgc.Props.C01'], 'theorems': [{'name': f'Props.C07Doc.{n}', 'module': 'MorphKgc.Props.C07Doc'} for n in ['C07_doc_refinement', 'C07_doc_no_raise', 'C07_doc_no_extra', 'C07_doc_no_missing', 'C07_doc_refinement_extends_C01', 'ref_combo_refines', 'Cw.same_lsv_other_source_engine', 'Cw.same_lsv_other_source_spec', 'Cw.same_lsv_other_source_rest', 'Cw.same_lsv_other_source_fixed', 'Cw.no_condition_engine', 'Cw.no_condition_spec']]}]
RULE = ('a child triples map with one referencing object map (1-3 join conditions, optional graph maps, optional second plain '
        'predicate-object map) and a parent triples map (subject map over join columns only / other columns / both / constant; optional '
        'own predicate-object map) over two tables with duplicate keys on both sides, NULL keys ("" / nan / JSON null / SQL NULL), '
        'unmatched keys, non-key join columns and shared column names; source pairs: same CSV file, two CSV files, CSV x JSON, JSON x CSV, '
        'same JSON file (same / different iterator), same SQLite table, two SQLite tables, SQLite query x table, two configuration '
        'sections with their own SQLite database and the SAME table name (sql_xsec, finding C07_F5; the first one is a fixed case: '
        'join and parent subject over the one shared column); both output formats. '
        'Each case: (a) DIRECT ORACLE = nested-loop join computed in Python from the raw tables vs materialize_set, (b) for same-source '
        'pairs the same mapping with the parent reading a copy of the source (elimination impossible) vs the original, (c) '
        'correspondences: _merge_data vs Model.mergeFrames on generated frames (I4, both code paths, clashes, missing columns), real rule '
        'table vs Model.normalizeDocG (I6), materialize_set vs Model.evalAll on the real rules and vs the line-by-line branch '
        'Model.evalRefRule (I7), Spec.evalDoc. non-trivial = the join has at least one pair and at least one row without partner or '
        'with a NULL key; distinct = hash of the case.')
TRUSTED_BASE = [
    'modelled, not verified: pandas DataFrame.add_prefix / set_index / join(how) / merge(how, left_on, right_on) as the contracts '
    'Model.indexJoin / Model.mergeOn (compared with the real _merge_data on every run, I4), rdflib SPARQL behind the two parsing queries (I6)',
    'C01 fragment of term maps for the generation-rule level theorem (C07_refobj); the engine-level theorems (C07_rule_is_join, '
    'C07_elimination_*) hold for any term maps',
    'Spec/Join.lean: the nested-loop definition of the inner equi-join with SQL NULL semantics',
]
ASSUMPTIONS = ['cell values of generated cases are [a-z0-9] strings, so that term rendering in the Python oracle needs no escaping '
               '(escaping is C01/C05); JSON / SQLite values are strings or NULL (type formatting is C10/C11)',
               'iterators are outside the model: the different-iterator JSON cases are decided by the Python oracle only',
               'referencing object maps without join condition over different sources (IndexError in merge) are not generated: the '
               'property quantifies over one or several conditions',
               'cross-section cases (sql_xsec): the parent subject map is IRI-valued (a blank-node parent subject in ANOTHER section '
               'gives objects `<Pb>` instead of `_:Pb`, because _complete_termtypes completes the term type of a referencing object map '
               'from the parent subject map within the mapping graph of one section only: finding C07_F6, reproduced by one fixed case; '
               'random cases avoid it so that the model correspondences stay exact) and the parent triples map has a predicate-object map (a mapping file whose '
               'triples maps have none made the parser raise KeyError object_map: C12_F3, repaired by d15741a)']

NA = ('', 'nan')
RMLNS = 'http://w3id.org/rml/'


# ----------------------------------------------------------------------------------------------------
# cases
# ----------------------------------------------------------------------------------------------------

KINDS = ['csv_same', 'csv_diff', 'csv_json', 'json_csv', 'json_same', 'json_iter', 'sql_same', 'sql_diff', 'sql_query', 'sql_xsec']
# sql_xsec: child and parent triples map in two configuration sections (`A`, `B`), each with its own SQLite database; both read a
# table named `t` (same logical_source_value, different source_name, different rows): a join, never a self-join (finding C07_F5)
XSEC = 'sql_xsec'
SAME = {'csv_same', 'json_same', 'sql_same'}
KEYVALS = ['a', 'b', 'c', '1', '2']


def is_null(v):
    return v is None or v in NA


GLUE_VALS = {sep: ['a' + sep + 'b', 'c', 'a', 'b' + sep + 'c', 'a' + sep, sep + 'b', 'b'] for sep in '_-.~|,;: /#'}


def gen_rows(rng, cols, keycols, n, fmt, nullable=()):
    rows = []
    for i in range(n):
        r = {}
        for c in cols:
            if c in nullable and c not in keycols and rng.random() < 0.3:
                # a NULL in a column that only ANOTHER rule of the same triples map refers to must not remove the row from the join
                r[c] = None if fmt != 'csv' else rng.choice(NA)
            elif c in keycols:
                x = rng.random()
                if x < 0.18:
                    r[c] = None if (fmt != 'csv' and rng.random() < 0.6) else rng.choice(NA)
                elif len(keycols) >= 2 and x < 0.55:
                    # several join columns: values that collide when the key tuple is glued with a separator
                    # (('a_b', 'c') vs ('a', 'b_c')); `_`, `-`, `.`, `~` need no escaping in IRIs
                    r[c] = rng.choice(GLUE_VALS[rng.choice('_-.~')])
                else:
                    r[c] = rng.choice(KEYVALS[:rng.choice([2, 3, 5])])
            elif c == 'id':
                r[c] = str(rng.randrange(1, n + 2)) if rng.random() < 0.25 else f'{i + 1}'
            else:
                r[c] = (None if fmt != 'csv' else '') if rng.random() < 0.08 else rng.choice('pqrst') + str(rng.randrange(0, 4))
        rows.append(r)
    if rows and rng.random() < 0.3:
        rows.append(dict(rng.choice(rows)))
    return rows


def gen_subject(rng, cols, prefer, base):
    """a subject map over `cols`; `prefer` = columns that should be used"""
    x = rng.random()
    if x < 0.08:
        return {'kind': 'constant', 'value': f'http://ex.org/{base}/const', 'termtype': 'iri'}
    if x < 0.18 and prefer:
        return {'kind': 'reference', 'value': rng.choice(prefer), 'termtype': 'iri'}
    use = list(prefer) if prefer else [rng.choice(cols)]
    if len(use) > 2:
        use = rng.sample(use, 2)
    tt = 'bnode' if rng.random() < 0.1 else 'iri'
    pre = (f'http://ex.org/{base}/' if tt == 'iri' else base)
    parts = [[c, ('-' if i < len(use) - 1 else '')] for i, c in enumerate(use)]
    tpl = {'pre': pre, 'parts': parts}
    return {'kind': 'template', 'tpl': tpl, 'value': cg.render_tpl(tpl), 'termtype': tt}


def gen_case(rng, kind=None, clash=False):
    kind = kind or rng.choice(KINDS)
    same = kind in SAME or kind == 'json_iter'
    cfmt = {'csv': 'csv', 'jso': 'json', 'sql': 'sql'}[kind[:3]]
    pfmt = cfmt if kind.split('_')[1] in ('same', 'diff', 'iter', 'query', 'xsec') else kind.split('_')[1]
    if pfmt == 'query':
        pfmt = 'sql'
    pool = ['id', 'k', 'k2', 'v', 'w']
    ccols = ['id'] + rng.sample(pool[1:], rng.randrange(1, 4))
    # two sections: mostly the same table layout on both sides, so that the tests of the self-join elimination other than the one
    # of the section hold (same table name, conditions on equal column names, parent subject over the join columns)
    like_same = same or (kind == XSEC and rng.random() < 0.75)
    if like_same:
        pcols = list(ccols)
    else:
        pcols = ['id'] + rng.sample(pool[1:] + ['j'], rng.randrange(1, 4))
    nconds = rng.choice([1, 1, 1, 2, 2, 3])
    conds = []
    for _ in range(nconds):
        c = rng.choice([x for x in ccols if x != 'id'] or ccols)
        if like_same and rng.random() < 0.75:
            p = c
        else:
            p = rng.choice([x for x in pcols if x != 'id'] or pcols)
            if p != c and c in pcols and rng.random() < 0.5:
                p = c
        conds.append([c, p])
    if rng.random() < 0.12:
        conds.append(list(conds[0]))          # the same condition twice
    if clash:
        # a child column whose name is `parent_` + a parent column (finding C07_F3)
        pc = rng.choice(pcols)
        ccols = ccols + ['parent_' + pc]
        if same:
            pcols = list(ccols)
        if rng.random() < 0.5:
            conds[0] = ['parent_' + pc, conds[0][1]]
    ckeys = {c for c, _ in conds}
    pkeys = {p for _, p in conds}
    cpom = {'pred': 'http://ex.org/q/c', 'ref': rng.choice(ccols)} if rng.random() < 0.3 else None
    # (a mapping file of its own whose triples maps have no predicate-object map at all makes the parser raise KeyError 'object_map':
    # the parent of a cross-section case always gets one)
    ppom = {'pred': 'http://ex.org/q/p', 'ref': rng.choice(pcols)} if (rng.random() < 0.4 or kind == XSEC) else None
    nullable = {x['ref'] for x in (cpom, ppom) if x} - {'id'}
    crows = gen_rows(rng, ccols, ckeys | (pkeys if same else set()), rng.randrange(0, 7), cfmt, nullable)
    prows = crows if same else gen_rows(rng, pcols, pkeys, rng.randrange(0, 7), pfmt, nullable)
    # parent subject: join columns only / other columns / both / constant
    x = rng.random()
    pk = sorted(pkeys)
    others = [c for c in pcols if c not in pkeys]
    if x < 0.35 or not others or (kind == XSEC and like_same and x < 0.8):
        prefer = pk if (rng.random() < 0.6 or kind == XSEC) else [rng.choice(pk)]
    elif x < 0.7:
        prefer = [rng.choice(others)]
    else:
        prefer = [rng.choice(pk), rng.choice(others)]
    psubj = gen_subject(rng, pcols, prefer, 'P')
    if kind == XSEC and psubj['termtype'] == 'bnode':
        # see ASSUMPTIONS: the term type of a referencing object map is completed from the parent subject map inside the mapping graph
        # of ONE section (`_complete_termtypes`); a blank-node parent subject in another section yields IRIs `<Pb>` instead of `_:Pb`
        tpl = {'pre': 'http://ex.org/P/', 'parts': psubj['tpl']['parts']}
        psubj = {'kind': 'template', 'tpl': tpl, 'value': cg.render_tpl(tpl), 'termtype': 'iri'}
    x = rng.random()
    cprefer = ['id'] if x < 0.6 else ([rng.choice(sorted(ckeys))] if x < 0.8 else [rng.choice(ccols)])
    if clash and rng.random() < 0.5:
        cprefer = [c for c in ccols if c.startswith('parent_')]
    csubj = gen_subject(rng, ccols, cprefer, 'C')
    fmt = rng.choice(['N-TRIPLES', 'N-TRIPLES', 'N-QUADS'])
    graphs = []
    if fmt == 'N-QUADS' and rng.random() < 0.6:
        for _ in range(rng.randrange(1, 3)):
            if rng.random() < 0.5:
                graphs.append({'kind': 'constant', 'value': 'http://ex.org/g/' + rng.choice('ab'), 'termtype': 'iri'})
            else:
                tpl = {'pre': 'http://ex.org/g/', 'parts': [[rng.choice(ccols), '']]}
                graphs.append({'kind': 'template', 'tpl': tpl, 'value': cg.render_tpl(tpl), 'termtype': 'iri'})
    case = {'kind': kind, 'ccols': ccols, 'pcols': pcols, 'crows': crows, 'prows': prows, 'csubj': csubj, 'psubj': psubj,
            'pred': 'http://ex.org/p/' + rng.choice('ab'), 'conds': conds, 'graphs': graphs, 'fmt': fmt,
            'cpom': cpom, 'ppom': ppom,
            'parent_first': rng.random() < 0.3}
    return case


# ----------------------------------------------------------------------------------------------------
# rendering a case for the engine
# ----------------------------------------------------------------------------------------------------

PREFIX = ('@prefix rr: <http://www.w3.org/ns/r2rml#> .\n@prefix rml: <http://semweb.mmlab.be/ns/rml#> .\n'
          '@prefix ql: <http://semweb.mmlab.be/ns/ql#> .\n')


def write_table(d, name, fmt, cols, rows, con=None, iterator='it'):
    """returns (logical source turtle, logical source value for the model)"""
    if fmt == 'csv':
        p = os.path.join(d, name + '.csv')
        with open(p, 'w', encoding='utf-8', newline='') as f:
            w = csv.writer(f, quoting=csv.QUOTE_ALL, lineterminator='\n')
            w.writerow(cols)
            for r in rows:
                w.writerow([r[c] if r[c] is not None else '' for c in cols])
        return f'rml:logicalSource [ rml:source "{p}" ; rml:referenceFormulation ql:CSV ]', p
    if fmt == 'json':
        p = os.path.join(d, name + '.json')
        if not os.path.exists(p):
            with open(p, 'w', encoding='utf-8') as f:
                json.dump({'it': [{c: r[c] for c in cols} for r in rows], 'it2': [{c: r[c] for c in cols} for r in rows]}, f)
        return f'rml:logicalSource [ rml:source "{p}" ; rml:referenceFormulation ql:JSONPath ; rml:iterator "$.{iterator}[*]" ]', p
    if fmt == 'sql':
        cur = con.cursor()
        cur.execute(f'DROP TABLE IF EXISTS "{name}"')
        cur.execute(f'CREATE TABLE "{name}" (' + ', '.join(f'"{c}" TEXT' for c in cols) + ')')
        cur.executemany(f'INSERT INTO "{name}" VALUES (' + ', '.join('?' for _ in cols) + ')', [[r[c] for c in cols] for r in rows])
        con.commit()
        return f'rr:logicalTable [ rr:tableName "{name}" ]', name
    raise ValueError(fmt)


def build(case, d, parent_copy=False):
    """writes sources, mapping and returns (config text, abstract document, model tables)"""
    os.makedirs(d, exist_ok=True)
    kind = case['kind']
    if kind == XSEC:
        return build_xsec(case, d)
    cfmt = {'csv': 'csv', 'jso': 'json', 'sql': 'sql'}[kind[:3]]
    tail = kind.split('_')[1]
    pfmt = cfmt if tail in ('same', 'diff', 'iter', 'query') else tail
    con = None
    extra = ''
    if cfmt == 'sql':
        dbp = os.path.join(d, 'db.sqlite')
        con = sqlite3.connect(dbp)
        extra = f'db_url=sqlite:///{dbp}'
    same = kind in SAME
    cls, clsv = write_table(d, 'child', cfmt, case['ccols'], case['crows'], con)
    if same and not parent_copy:
        pls, plsv = cls, clsv
    elif kind == 'json_iter' and not parent_copy:
        pls, plsv = write_table(d, 'child', 'json', case['pcols'], case['prows'], con, iterator='it2')
    elif kind == 'sql_query':
        write_table(d, 'parent', 'sql', case['pcols'], case['prows'], con)
        q = 'SELECT ' + ', '.join(f'"{c}"' for c in case['pcols']) + ' FROM "parent"'
        pls, plsv = 'rr:logicalTable [ rr:sqlQuery \'%s\' ]' % q, q
    else:
        pls, plsv = write_table(d, 'parent', pfmt, case['pcols'], case['prows'], con)
    if con:
        con.close()
    CID, PID = 'http://ex.org/tm/C', 'http://ex.org/tm/P'
    doc = {'tms': []}
    ctm = {'id': CID, 'source': clsv, 'subject': dict(case['csubj'], classes=[], graphs=[]), 'poms': [
        {'predicates': [{'kind': 'constant', 'value': case['pred'], 'termtype': 'iri'}],
         'objects': [{'parent': PID, 'join': [list(c) for c in case['conds']]}], 'graphs': case['graphs']}]}
    if case.get('cpom'):
        ctm['poms'].append({'predicates': [{'kind': 'constant', 'value': case['cpom']['pred'], 'termtype': 'iri'}],
                            'objects': [{'kind': 'reference', 'value': case['cpom']['ref'], 'termtype': 'literal'}], 'graphs': []})
    ptm = {'id': PID, 'source': plsv, 'subject': dict(case['psubj'], classes=[], graphs=[]), 'poms': []}
    if case.get('ppom'):
        ptm['poms'].append({'predicates': [{'kind': 'constant', 'value': case['ppom']['pred'], 'termtype': 'iri'}],
                            'objects': [{'kind': 'reference', 'value': case['ppom']['ref'], 'termtype': 'literal'}], 'graphs': []})
    doc['tms'] = [ptm, ctm] if case.get('parent_first') else [ctm, ptm]
    # turtle (coregen renders the term maps; logical sources are ours)
    ttl = cg.render_doc(doc)
    ttl = ttl.replace(f'rml:logicalSource [ rml:source {cg.turtle_str(clsv)} ; rml:referenceFormulation ql:CSV ]', '@@C@@')
    ttl = ttl.replace(f'rml:logicalSource [ rml:source {cg.turtle_str(plsv)} ; rml:referenceFormulation ql:CSV ]', '@@P@@')
    # the two triples maps are told apart by their ids
    out, cur = [], None
    for line in ttl.split('\n'):
        if line.startswith(f'<{CID}>'):
            cur = 'C'
        elif line.startswith(f'<{PID}>'):
            cur = 'P'
        if '@@C@@' in line or '@@P@@' in line:
            line = line.replace('@@C@@', '@@X@@').replace('@@P@@', '@@X@@').replace('@@X@@', cls if cur == 'C' else pls)
        out.append(line)
    mp = os.path.join(d, 'm.ttl')
    with open(mp, 'w', encoding='utf-8') as f:
        f.write('\n'.join(out))
    cfg = cg.config_text(mp, fmt=case['fmt']) + (extra + '\n' if extra else '')

    def mrows(rows, cols):
        return [{c: ('' if r[c] is None else r[c]) for c in cols} for r in rows]
    tables = [cg.table_json('DS', clsv, mrows(case['crows'], case['ccols']))]
    if plsv != clsv:
        tables.append(cg.table_json('DS', plsv, mrows(case['prows'], case['pcols'])))
    return cfg, doc, tables


def build_xsec(case, d):
    """two configuration sections `A` (child triples map) and `B` (parent triples map), each with its own mapping file and its own
    SQLite database; both logical tables are `rr:tableName "t"`"""
    CID, PID = 'http://ex.org/tm/C', 'http://ex.org/tm/P'
    ctm = {'id': CID, 'source': 't', 'source_name': 'A', 'subject': dict(case['csubj'], classes=[], graphs=[]), 'poms': [
        {'predicates': [{'kind': 'constant', 'value': case['pred'], 'termtype': 'iri'}],
         'objects': [{'parent': PID, 'join': [list(c) for c in case['conds']]}], 'graphs': case['graphs']}]}
    if case.get('cpom'):
        ctm['poms'].append({'predicates': [{'kind': 'constant', 'value': case['cpom']['pred'], 'termtype': 'iri'}],
                            'objects': [{'kind': 'reference', 'value': case['cpom']['ref'], 'termtype': 'literal'}], 'graphs': []})
    ptm = {'id': PID, 'source': 't', 'source_name': 'B', 'subject': dict(case['psubj'], classes=[], graphs=[]), 'poms': []}
    if case.get('ppom'):
        ptm['poms'].append({'predicates': [{'kind': 'constant', 'value': case['ppom']['pred'], 'termtype': 'iri'}],
                            'objects': [{'kind': 'reference', 'value': case['ppom']['ref'], 'termtype': 'literal'}], 'graphs': []})
    secs = []
    for name, tm, cols, rows in (('A', ctm, case['ccols'], case['crows']), ('B', ptm, case['pcols'], case['prows'])):
        sd = os.path.join(d, name)
        os.makedirs(sd, exist_ok=True)
        dbp = os.path.join(sd, 'db.sqlite')
        con = sqlite3.connect(dbp)
        ls, _ = write_table(sd, 't', 'sql', cols, rows, con)
        con.close()
        ttl = cg.render_doc({'tms': [tm]})
        src = f'rml:logicalSource [ rml:source {cg.turtle_str("t")} ; rml:referenceFormulation ql:CSV ]'
        assert ttl.count(src) == 1
        mp = os.path.join(sd, 'm.ttl')
        with open(mp, 'w', encoding='utf-8') as f:
            f.write(ttl.replace(src, ls))
        secs.append(f'[{name}]\nmappings={mp}\ndb_url=sqlite:///{dbp}\n')
    if case.get('parent_first'):
        secs.reverse()
    cfg = cg.config_text('', fmt=case['fmt']).split('[DS]')[0] + ''.join(secs)
    doc = {'tms': [ptm, ctm] if case.get('parent_first') else [ctm, ptm]}

    def mrows(rows, cols):
        return [{c: ('' if r[c] is None else r[c]) for c in cols} for r in rows]
    tables = [cg.table_json('A', 't', mrows(case['crows'], case['ccols'])), cg.table_json('B', 't', mrows(case['prows'], case['pcols']))]
    return cfg, doc, tables


# ----------------------------------------------------------------------------------------------------
# the direct oracle: nested-loop join in Python, independent of the Lean model and of pandas
# ----------------------------------------------------------------------------------------------------

def val(row, c):
    v = row.get(c)
    return None if is_null(v) else v


def term(tm, row):
    if tm['kind'] == 'constant':
        return f'<{tm["value"]}>'
    if tm['kind'] == 'reference':
        v = val(row, tm['value'])
        return None if v is None else f'<{v}>'
    s = tm['tpl']['pre']
    for c, lit in tm['tpl']['parts']:
        v = val(row, c)
        if v is None:
            return None
        s += v + lit
    return f'<{s}>' if tm['termtype'] == 'iri' else f'_:{s}'


def graph_terms(graphs, row, fmt):
    if fmt != 'N-QUADS':
        return [None]
    if not graphs:
        return ['']
    out = []
    for g in graphs:
        t = term(g, row)
        if t is not None:
            out.append(t)
    return out


def stmt(s, p, o, g):
    return f'{s} {p} {o}' if g is None else f'{s} {p} {o} {g}'


def plain_pom(pom, subj, rows, fmt, out):
    if not pom:
        return
    for r in rows:
        s, o = term(subj, r), val(r, pom['ref'])
        if s is not None and o is not None:
            out.add(stmt(s, f'<{pom["pred"]}>', '"' + o + '"', '' if fmt == 'N-QUADS' else None))


def matches(case, c, p):
    for a, b in case['conds']:
        x, y = val(c, a), val(p, b)
        if x is None or y is None or x != y:
            return False
    return True


def expected(case, identity=False):
    """the statements of the generation rules; `identity=True`: what a rule rewritten by the self-join elimination gives"""
    out = set()
    fmt = case['fmt']
    for c in case['crows']:
        s = term(case['csubj'], c)
        if s is None:
            continue
        partners = [c] if identity else [p for p in case['prows'] if matches(case, c, p)]
        for p in partners:
            o = term(case['psubj'], p)
            if o is None:
                continue
            for g in graph_terms(case['graphs'], c, fmt):
                out.add(stmt(s, f'<{case["pred"]}>', o, g))
    plain_pom(case.get('cpom'), case['csubj'], case['crows'], fmt, out)
    plain_pom(case.get('ppom'), case['psubj'], case['prows'], fmt, out)
    return sorted(out)


def join_stats(case):
    pairs = sum(1 for c in case['crows'] for p in case['prows'] if matches(case, c, p))
    lonely = sum(1 for c in case['crows'] if not any(matches(case, c, p) for p in case['prows']))
    dupkeys = pairs > len({json.dumps(c, sort_keys=True) for c in case['crows'] if any(matches(case, c, p) for p in case['prows'])})
    return pairs, lonely, dupkeys


# ---- scope predicates (the definitions of Props/C07.lean: elimTests, scope_C07_F1, scope_C07_F2; NoClash) -------------

def refs_of(tm):
    if tm['kind'] == 'constant':
        return []
    if tm['kind'] == 'reference':
        return [tm['value']]
    return [c for c, _ in tm['tpl']['parts']]


def own_refs(case, g=None):
    """references of the term maps of ONE rule evaluated on the child row (every graph map gives a rule of its own)"""
    return refs_of(case['csubj']) + (refs_of(g) if g else [])


def variants(case):
    return case['graphs'] or [None]


def elim_tests_found(case):
    """same logical source and iterator, every condition compares a column with itself (the code as found did not look at the
    configuration section: two sections with a table of the same name pass these tests, finding C07_F5)"""
    return (case['kind'] in SAME or case['kind'] == XSEC) and all(a == b for a, b in case['conds'])


def elim_tests_repaired(case):
    """… and, since the repair of C07_F1 / C07_F2, the parent subject map refers to exactly the join columns"""
    return elim_tests_found(case) and case['psubj']['kind'] in ('template', 'reference', 'constant') and \
        set(refs_of(case['psubj'])) == {p for _, p in case['conds']}


def scope_F5(case):
    """the tests of the self-join elimination other than the one of the section hold for two triples maps of different sections"""
    return case['kind'] == XSEC and elim_tests_repaired(case)


def scope_F6(case):
    """the parent triples map is declared in another section (mapping graph) and its subject is a blank node"""
    return case['kind'] == XSEC and case['psubj'].get('termtype') == 'bnode'


def as_iri_objects(lines):
    """the expected statements with every blank-node OBJECT `_:x` written as the IRI `<x>` (what C07_F6 produces)"""
    return sorted(re.sub(r'^(\S+ \S+) _:(\S+)', r'\1 <\2>', l) for l in lines)


def scope_F1(case):
    return not all(c in [p for _, p in case['conds']] for c in refs_of(case['psubj']))


def scope_F2_rule(case, g):
    after = own_refs(case, g) + refs_of(case['psubj'])
    return not all(p in after for _, p in case['conds'])


def scope_F2(case):
    return any(scope_F2_rule(case, g) for g in variants(case))


def scope_F3(case):
    """a label of the child frame equals `parent_` + a label of the parent frame. The frames hold the references of the rule /
    the parent subject references + parent join columns; the frame of an rr:sqlQuery / rml:query logical source holds every
    column the query selects (the reader does not project)."""
    crefs = {a for a, _ in case['conds']}
    for g in variants(case):
        crefs |= set(own_refs(case, g))
    prefs = set(refs_of(case['psubj'])) | {b for _, b in case['conds']}
    if case['kind'] == 'sql_query':
        prefs |= set(case['pcols'])
    return any(c == 'parent_' + p for c in crefs for p in prefs)


def rules_json_for_scopes(case, g):
    def mt(tm):
        return {'constant': 'constant', 'reference': 'reference', 'template': 'template'}[tm['kind']]
    same = case['kind'] in SAME or case['kind'] == XSEC
    child = {'triples_map_id': '#C', 'source_name': 'DS', 'logical_source_value': 'src', 'subject_map_type': mt(case['csubj']),
             'subject_map_value': case['csubj']['value'], 'predicate_map_type': 'constant', 'predicate_map_value': case['pred'],
             'object_map_type': 'parentTM', 'object_map_value': '#P', 'object_join': case['conds'],
             'graph_map_type': 'constant', 'graph_map_value': RMLNS + 'defaultGraph'}
    if g:
        child['graph_map_type'], child['graph_map_value'] = mt(g), g['value']
    parent = {'triples_map_id': '#P', 'source_name': 'DS2' if case['kind'] == XSEC else 'DS',
              'logical_source_value': 'src' if same else 'src2', 'asserted': False,
              'subject_map_type': mt(case['psubj']), 'subject_map_value': case['psubj']['value']}
    return [child, parent]


KEEP_NONASSERTED = ('asserted', 'source_name', 'logical_source_value', 'subject_map_type', 'subject_map_value', 'subject_termtype', 'triples_map_id')


def canon_rules(rules):
    """corecases.canon_rules; of a rule of a triples map without predicate-object maps (kept only as a join parent) only the
    subject part is compared: the real table has NaN in the other columns"""
    return cc.canon_rules([r if r.get('asserted', True) else {k: v for k, v in r.items() if k in KEEP_NONASSERTED} for r in rules])


def triage(case, kind, got):
    """which open finding explains the behaviour of the real engine on this case (None = none: a new violation)"""
    if scope_F3(case) and kind == 'exc' and (got.startswith('ValueError: columns overlap') or got.startswith('KeyError')):
        return 'C07_F3'
    if kind == 'ok' and scope_F6(case) and got == as_iri_objects(expected(case)):
        return 'C07_F6'
    if kind == 'ok' and elim_tests_found(case) and (scope_F1(case) or scope_F2(case)) and got == expected(case, identity=True):
        return 'C07_F1' if scope_F1(case) else 'C07_F2'
    return None


# ----------------------------------------------------------------------------------------------------
# one end-to-end case
# ----------------------------------------------------------------------------------------------------

def one_case(ctx, drv, case, d):
    cfg, doc, tables = build(case, d)
    kind, got = cg.run_engine(cfg)
    rules = cg.rules_to_json(cg.LAST_RULES['rml_df']) if 'rml_df' in cg.LAST_RULES else None
    exp = expected(case)
    pairs, lonely, dup = join_stats(case)
    ctx.case(case, nontrivial=(kind == 'ok' and pairs > 0 and (lonely > 0 or dup)), kind='e2e ' + case['kind'],
             sample={'kind': case['kind'], 'conds': case['conds'], 'pairs': pairs, 'rows': [len(case['crows']), len(case['prows'])],
                     'lines': got[:2] if kind == 'ok' else got})
    ctx.bump(f'conditions={min(len(case["conds"]), 3)}')
    if scope_F5(case):
        ctx.bump('two sections, same table name, every other test of the self-join elimination holds (C07_F5)')
    if dup:
        ctx.bump('many-to-many / duplicate keys')
    ctx.traces_validated += 1
    bad = False
    if kind != 'ok' or got != exp:
        bad = True
        f = triage(case, kind, got)
        what = (f'materialization failed: {got}' if kind != 'ok' else
                f'statements differ from the inner equi-join computed from the raw tables: missing {[x for x in exp if x not in got][:3]}, '
                f'extra {[x for x in got if x not in exp][:3]}')
        ctx.violation(what, case, finding=f)
    # (b) the parent reading a copy of the source: no elimination possible
    if case['kind'] in SAME and kind == 'ok' and not bad:
        cfg2, _, _ = build(case, d + '_copy', parent_copy=True)
        k2, got2 = cg.run_engine(cfg2)
        ctx.bump('copied-parent comparisons')
        if k2 != 'ok' or got2 != got:
            # the copy cannot be eliminated: a prefix clash (C07_F3) shows there although the original run was rewritten
            f3 = scope_F3(case) and k2 == 'exc' and (got2.startswith('ValueError: columns overlap') or got2.startswith('KeyError'))
            ctx.violation(f'the same mapping with the parent reading a copy of the source gives a different result: {str(got2)[:200]} vs {str(got)[:200]}',
                          case, finding='C07_F3' if f3 else None)
    if not drv:
        return
    # scope predicates: Python definitions vs Lean definitions
    for g in variants(case):
        sc = drv.call('c07_scopes', rules=rules_json_for_scopes(case, g), index=0)
        if sc is not None:
            py = {'tests_found': elim_tests_found(case), 'tests_repaired': elim_tests_repaired(case), 'F1': scope_F1(case),
                  'F2': scope_F2_rule(case, g)}
            if any(sc[k] != v for k, v in py.items()):
                ctx.disagree('scope predicates (Python vs Model.scope_C07_F1/F2, elimTests)', case, {k: sc[k] for k in py}, py)
    if kind != 'ok' or rules is None or scope_F3(case) or scope_F6(case):
        # (inside C07_F6 the normaliser model of the whole document gives the parent's term type, the engine the default)
        return
    modelled = case['kind'] != 'json_iter'
    if modelled:
        # I7: the materializer model on the REAL rule table
        m = drv.call('eval', rules=rules, tables=tables, fmt=case['fmt'])
        if 'ok' not in m or sorted(m['ok']) != got:
            ctx.disagree('I7 materialize_set vs Model.evalAll(real rules)', case, str(m)[:300], got[:6])
        # … and the line-by-line referencing branch with both code paths of _merge_data
        for i, r in enumerate(rules):
            if r.get('object_map_type') == 'parentTM' and r.get('object_join'):
                a = drv.call('c07_eval_ref', rules=rules, tables=tables, fmt=case['fmt'], index=i)
                b = drv.call('eval_rule', rules=rules, tables=tables, fmt=case['fmt'], index=i)
                if 'ok' not in a or 'ok' not in b or a['ok'] != b['ok']:
                    ctx.disagree('Model.evalRefRule (generated shapes) vs Model.evalRule', case, str(a)[:300], str(b)[:300])
        # I6: the normaliser with the generated elimination tests vs the real rule table
        nm = canon_rules(drv.call('c07_normalize', doc=cg.doc_for_driver(doc)))
        rr = canon_rules(rules)
        if nm != rr:
            ctx.disagree('I6 rule table vs Model.normalizeDocG Gen.elimShape', case, [x for x in nm if x not in rr][:2], [x for x in rr if x not in nm][:2])
        # the specification in Lean (Spec.evalDoc) against the Python oracle
        sp = sorted(drv.call('spec_eval', doc=cg.doc_for_driver(doc), tables=tables, fmt=case['fmt'], safe=''))
        if sp != exp:
            ctx.disagree('Spec.evalDoc vs the nested-loop oracle in Python', case, sp[:6], exp[:6])


# ----------------------------------------------------------------------------------------------------
# I4: _merge_data vs Model.mergeFrames
# ----------------------------------------------------------------------------------------------------

def i4_gen(rng):
    ccols = rng.sample(['a', 'b', 'k', 'id', 'parent_k', 'parent_a'], rng.randrange(1, 5))
    pcols = rng.sample(['a', 'b', 'k', 'id', 'j'], rng.randrange(1, 4))
    nc = rng.choice([0, 1, 1, 1, 2, 2, 3])
    conds = []
    for _ in range(nc):
        c = rng.choice(ccols) if rng.random() < 0.95 else 'zz'
        p = rng.choice(pcols) if rng.random() < 0.95 else 'zz'
        conds.append([c, p])
    vals = ['x', 'y', 'z'][:rng.choice([1, 2, 3])]
    if nc >= 2 and rng.random() < 0.5:
        vals = GLUE_VALS[rng.choice('_-.~|,;: /#')]
    data = [[[c, rng.choice(vals)] for c in ccols] for _ in range(rng.randrange(0, 5))]
    par = [[[c, rng.choice(vals)] for c in pcols] for _ in range(rng.randrange(0, 5))]
    return {'i4': True, 'ccols': ccols, 'pcols': pcols, 'data': data, 'parent': par, 'conds': conds}


def i4_one(ctx, drv, inp):
    import pandas as pd
    from morph_kgc import materializer
    ccols, pcols, data, par, conds = inp['ccols'], inp['pcols'], inp['data'], inp['parent'], inp['conds']
    nc = len(conds)
    jc = {f'c{i}': {'child_value': c, 'parent_value': p} for i, (c, p) in enumerate(conds)}
    rule = {'object_join_conditions': str(jc) if conds else ''}
    df = pd.DataFrame([[v for _, v in r] for r in data], columns=ccols, dtype=str)
    pdf = pd.DataFrame([[v for _, v in r] for r in par], columns=pcols, dtype=str)
    try:
        res = materializer._merge_data(df, pdf, rule, 'object_join_conditions')
        cols = [str(c) for c in res.columns]
        impl = {'cols': cols, 'rows': sorted(json.dumps([[c, (v if isinstance(v, str) else f'<{v!r}>')] for c, v in zip(cols, row)])
                                            for row in res.values.tolist())}
    except KeyError:
        impl = 'KeyError'
    except IndexError:
        impl = 'badkeys'
    except ValueError as e:
        impl = 'overlap' if 'columns overlap' in str(e) else 'badkeys'
    except Exception as e:  # noqa
        impl = type(e).__name__
    clash = any(c == 'parent_' + p for c in ccols for p in pcols)
    ctx.case(inp, nontrivial=isinstance(impl, dict) and bool(impl['rows']),
             kind='I4 _merge_data ' + ('index' if nc == 1 else 'merge' if nc else 'no-condition') + (' clash' if clash else ''))
    if isinstance(impl, dict) and not clash and all(c in ccols and p in pcols for c, p in conds) and conds:
        # DIRECT: the nested-loop join of the two frames, independent of the model
        rows = sorted(json.dumps(a + [['parent_' + c, v] for c, v in b]) for a in data
                      for b in par if all(dict(map(tuple, a))[c] == dict(map(tuple, b))[p] for c, p in conds))
        if rows != impl['rows']:
            ctx.violation(f'_merge_data is not the inner equi-join of the two frames: {impl["rows"][:3]} vs {rows[:3]}', inp, finding=None)
    elif not isinstance(impl, dict) and not clash and all(c in ccols and p in pcols for c, p in conds) and conds:
        ctx.violation(f'_merge_data raises on two frames that have the join columns and no clashing labels: {impl}', inp, finding=None)
    if not drv:
        return
    m = drv.call('c07_merge', data={'cols': ccols, 'rows': data}, parent={'cols': pcols, 'rows': par}, conds=conds)
    if 'ok' in m:
        mo = {'cols': m['ok']['cols'], 'rows': sorted(json.dumps(r) for r in m['ok']['rows'])}
    elif 'keyerror' in m:
        mo = 'KeyError'
    elif 'overlap' in m:
        mo = 'overlap'
    elif 'badkeys' in m:
        mo = 'badkeys'
    else:
        ctx.bump('I4 skipped: generated shape has no executable model')
        return
    if mo != impl:
        ctx.disagree('I4 _merge_data vs Model.mergeFrames Gen.mergeShape', inp, mo, impl)
    if isinstance(impl, dict) and not clash and all(c in ccols and p in pcols for c, p in conds) and conds:
        pairs = drv.call('c07_spec_join', data={'cols': ccols, 'rows': data}, parent={'cols': pcols, 'rows': par}, conds=conds)
        if len(pairs) != len(impl['rows']):
            ctx.disagree('Spec.innerJoin vs _merge_data (pair count)', inp, len(pairs), len(impl['rows']))


def i4_glue_inputs():
    """two / three join conditions whose key tuples differ but coincide when glued with a separator (or with none)"""
    out = []
    for sep in ['', '_', '-', '.', '~', '|', ',', ';', ':', ' ', '/', '#', '\t', '\x1f', '\x00']:
        for (ca, cb), (pa, pb) in ((('a' + sep + 'b', 'c'), ('a', 'b' + sep + 'c')), (('a' + sep, 'b'), ('a', sep + 'b')),
                                   (('ab', 'c'), ('a', 'bc'))):
            if (ca, cb) == (pa, pb):
                continue
            out.append({'i4': True, 'ccols': ['k', 'k2', 'id'], 'pcols': ['k', 'j'],
                        'data': [[['k', ca], ['k2', cb], ['id', '1']], [['k', pa], ['k2', pb], ['id', '2']]],
                        'parent': [[['k', pa], ['j', pb]]], 'conds': [['k', 'k'], ['k2', 'j']]})
    return out


def i4_merge(ctx, drv, n):
    for inp in i4_glue_inputs():
        i4_one(ctx, drv, inp)
    for _ in range(n):
        i4_one(ctx, drv, i4_gen(ctx.rng))


# ----------------------------------------------------------------------------------------------------
# C07_F4: a predicate-object map with a term-valued AND a referencing object map
# ----------------------------------------------------------------------------------------------------

def mixed_pom_probe(ctx, d):
    os.makedirs(d, exist_ok=True)
    a, b = os.path.join(d, 'a.csv'), os.path.join(d, 'b.csv')
    open(a, 'w').write('id,k,v\n1,x,p\n2,y,q\n')
    open(b, 'w').write('id,k\n7,x\n8,z\n')
    ttl = PREFIX + f'''<http://ex.org/tm/C> a rr:TriplesMap ; rml:logicalSource [ rml:source "{a}" ; rml:referenceFormulation ql:CSV ] ;
  rr:subjectMap [ rr:template "http://ex.org/C/{{id}}" ] ;
  rr:predicateObjectMap [ rr:predicate <http://ex.org/p> ; rr:objectMap [ rml:reference "v" ] ;
     rr:objectMap [ rr:parentTriplesMap <http://ex.org/tm/P> ; rr:joinCondition [ rr:child "k" ; rr:parent "k" ] ] ] .
<http://ex.org/tm/P> a rr:TriplesMap ; rml:logicalSource [ rml:source "{b}" ; rml:referenceFormulation ql:CSV ] ;
  rr:subjectMap [ rr:template "http://ex.org/P/{{id}}" ] .
'''
    mp = os.path.join(d, 'm.ttl')
    open(mp, 'w').write(ttl)
    kind, got = cg.run_engine(cg.config_text(mp))
    exp = sorted(['<http://ex.org/C/1> <http://ex.org/p> "p"', '<http://ex.org/C/2> <http://ex.org/p> "q"',
                  '<http://ex.org/C/1> <http://ex.org/p> <http://ex.org/P/7>'])
    inp = {'probe': 'mixed_pom'}
    ctx.case(inp, nontrivial=True, kind='probe: term-valued + referencing object map in one predicate-object map')
    if kind != 'ok' or got != exp:
        lost = kind == 'ok' and got == [x for x in exp if '/P/' not in x]
        ctx.violation(f'predicate-object map with a term-valued and a referencing object map: got {got}, expected {exp}', inp,
                      finding='C07_F4' if lost else None)
    return kind, got, exp


# ----------------------------------------------------------------------------------------------------

FIXED = [
    # C07_F1: many-to-many self-join, parent subject from a non-join column
    {'kind': 'csv_same', 'ccols': ['id', 'k'], 'pcols': ['id', 'k'],
     'crows': [{'id': '1', 'k': 'a'}, {'id': '2', 'k': 'a'}, {'id': '3', 'k': 'b'}],
     'csubj': {'kind': 'template', 'tpl': {'pre': 'http://ex.org/C/', 'parts': [['id', '']]}, 'value': 'http://ex.org/C/{id}', 'termtype': 'iri'},
     'psubj': {'kind': 'template', 'tpl': {'pre': 'http://ex.org/P/', 'parts': [['id', '']]}, 'value': 'http://ex.org/P/{id}', 'termtype': 'iri'},
     'pred': 'http://ex.org/p/a', 'conds': [['k', 'k']], 'graphs': [], 'fmt': 'N-TRIPLES', 'cpom': None, 'ppom': None, 'parent_first': False},
    # C07_F2: NULL in a join column that is referenced nowhere else
    {'kind': 'csv_same', 'ccols': ['id', 'k', 'v'], 'pcols': ['id', 'k', 'v'],
     'crows': [{'id': '1', 'k': 'a', 'v': 'p1'}, {'id': '2', 'k': 'b', 'v': ''}],
     'csubj': {'kind': 'template', 'tpl': {'pre': 'http://ex.org/C/', 'parts': [['id', '']]}, 'value': 'http://ex.org/C/{id}', 'termtype': 'iri'},
     'psubj': {'kind': 'template', 'tpl': {'pre': 'http://ex.org/P/', 'parts': [['k', '']]}, 'value': 'http://ex.org/P/{k}', 'termtype': 'iri'},
     'pred': 'http://ex.org/p/a', 'conds': [['k', 'k'], ['v', 'v']], 'graphs': [], 'fmt': 'N-TRIPLES', 'cpom': None, 'ppom': None, 'parent_first': False},
    # C07_F3: child column parent_k, index path
    {'kind': 'csv_diff', 'ccols': ['id', 'parent_k'], 'pcols': ['id', 'k'],
     'crows': [{'id': '1', 'parent_k': 'a'}], 'prows': [{'id': '7', 'k': 'a'}],
     'csubj': {'kind': 'template', 'tpl': {'pre': 'http://ex.org/C/', 'parts': [['id', '']]}, 'value': 'http://ex.org/C/{id}', 'termtype': 'iri'},
     'psubj': {'kind': 'template', 'tpl': {'pre': 'http://ex.org/P/', 'parts': [['id', '']]}, 'value': 'http://ex.org/P/{id}', 'termtype': 'iri'},
     'pred': 'http://ex.org/p/a', 'conds': [['parent_k', 'k']], 'graphs': [], 'fmt': 'N-TRIPLES', 'cpom': None, 'ppom': None, 'parent_first': False},
    # a hierarchy in ONE source (`boss = id`, not an identity join): the root has a NULL in the child join column, so it yields no link
    # as a child, but it IS the parent of the others (the parent side must be read on its own, not derived from the child rows)
    {'kind': 'csv_same', 'ccols': ['id', 'boss'], 'pcols': ['id', 'boss'],
     'crows': [{'id': '1', 'boss': ''}, {'id': '2', 'boss': '1'}, {'id': '3', 'boss': '1'}, {'id': '4', 'boss': '3'}],
     'csubj': {'kind': 'template', 'tpl': {'pre': 'http://ex.org/E/', 'parts': [['id', '']]}, 'value': 'http://ex.org/E/{id}', 'termtype': 'iri'},
     'psubj': {'kind': 'template', 'tpl': {'pre': 'http://ex.org/E/', 'parts': [['id', '']]}, 'value': 'http://ex.org/E/{id}', 'termtype': 'iri'},
     'pred': 'http://ex.org/p/boss', 'conds': [['boss', 'id']], 'graphs': [], 'fmt': 'N-TRIPLES', 'cpom': None, 'ppom': None, 'parent_first': False},
]
for _c in FIXED:
    _c.setdefault('prows', _c['crows'])

# C07_F5: two configuration sections with their own SQLite database, both with a table `t`; join on `k`, parent subject over `k`:
# a join between two different tables (one pair), not a self-join (the row `y` of section A has no partner in section B)
XSEC_FIXED = {'kind': 'sql_xsec', 'ccols': ['k'], 'pcols': ['k'], 'crows': [{'k': 'x'}, {'k': 'y'}], 'prows': [{'k': 'x'}],
              'csubj': {'kind': 'template', 'tpl': {'pre': 'http://ex.org/C/', 'parts': [['k', '']]}, 'value': 'http://ex.org/C/{k}', 'termtype': 'iri'},
              'psubj': {'kind': 'template', 'tpl': {'pre': 'http://ex.org/P/', 'parts': [['k', '']]}, 'value': 'http://ex.org/P/{k}', 'termtype': 'iri'},
              'pred': 'http://ex.org/p/a', 'conds': [['k', 'k']], 'graphs': [], 'fmt': 'N-TRIPLES', 'cpom': None,
              'ppom': {'pred': 'http://ex.org/q/p', 'ref': 'k'}, 'parent_first': False}
FIXED.insert(0, XSEC_FIXED)
# C07_F6 (open): the same two sections with a BLANK-NODE parent subject: the object must be `_:Px`, the engine writes `<Px>`
XSEC_BNODE = dict(copy.deepcopy(XSEC_FIXED),
                  psubj={'kind': 'template', 'tpl': {'pre': 'P', 'parts': [['k', '']]}, 'value': 'P{k}', 'termtype': 'bnode'})
FIXED.insert(1, XSEC_BNODE)


def norm_case(case):
    case = copy.deepcopy(case)
    if case['kind'] in SAME or case['kind'] == 'json_iter':
        case['prows'] = case['crows']
        case['pcols'] = case['ccols']
    return case


def run(ctx, lean, findings):
    rng = ctx.rng
    drv = ctx.get_driver() if ctx.model_available else None
    mult = 3 if ctx.escalate else 1
    if drv:
        sh = drv.call('c07_shapes')
        ctx.notes.append(f'generated shapes: {sh}')
    # the replay inputs of the findings and fixed cases first (the cross-section case of C07_F5 is the very first one)
    for i, case in enumerate(FIXED):
        one_case(ctx, drv, norm_case(case), os.path.join(ctx.tmp, f'fx{i}'))
    i4_merge(ctx, drv, ctx.budget(200, 6000) * mult)
    mixed_pom_probe(ctx, os.path.join(ctx.tmp, 'mixed'))
    n = ctx.budget(150, 5000) * mult
    limit = (70 if ctx.tier == 'quick' else 800) * (2 if ctx.escalate else 1)
    for it in range(n):
        kind = KINDS[it % len(KINDS)] if it < 3 * len(KINDS) else None
        case = gen_case(rng, kind=kind, clash=(rng.random() < 0.04))
        one_case(ctx, drv, case, os.path.join(ctx.tmp, f'c{it}'))
        shutil.rmtree(os.path.join(ctx.tmp, f'c{it}'), ignore_errors=True)
        shutil.rmtree(os.path.join(ctx.tmp, f'c{it}_copy'), ignore_errors=True)
        if ctx.elapsed() > limit:
            break


def replay(ctx, data):
    inp = data['input']
    before = len(ctx.violations)
    drv = None
    try:
        drv = ctx.get_driver()
    except Exception:  # noqa
        drv = None
    if isinstance(inp, dict) and inp.get('probe') == 'mixed_pom':
        mixed_pom_probe(ctx, os.path.join(ctx.tmp, 'mixed'))
    elif isinstance(inp, dict) and inp.get('i4'):
        i4_one(ctx, drv, inp)
        return len(ctx.violations) > before or bool(ctx.disagreements)
    else:
        # an end-to-end case; `kind == 'sql_xsec'` (two sections, finding C07_F5) is rendered by `build_xsec`
        one_case(ctx, drv, norm_case(inp), os.path.join(ctx.tmp, 'rp'))
    return len(ctx.violations) > before
