"""C17 — output files hold exactly the current run's statements (sequences of real command-line runs)."""
import concurrent.futures
import json
import os
import shutil
import subprocess
import sys
import time
from pathlib import PurePosixPath

import vlib

PROP = 'C17'
LEAN_TARGETS = ['MorphKgc.Props.C17']
GEN_KEYS = ['output']
M = 'MorphKgc.Props.C17'
THEOREMS = [{'name': f'Props.C17.{n}', 'module': M} for n in [
    'C17_run', 'C17_history', 'C17_history_independent', 'C17_frame', 'C17_rejected_file_mode_untouched',
    'C17_extension', 'C17_one_file_per_group', 'C17_group_file_contents', 'C17_dirs_created_file_mode',
    'C17_dirs_created_dir_mode', 'C17_parent_dir_exists_dir_mode', 'C17_dir_union_partial', 'C17_F1_stale_group_file', 'C17_F1_union_fails',
    'C17_group_names_with_dots_collide', 'C17_default_name_absent', 'C17_default_name_empty',
    'C17_F3_leading_space_directory', 'C17_generated_shape']]
RULE = ('one case = one real command-line run inside a seeded sequence of 2-5 runs over one output_file / output_dir '
        '(mappings A-D with different partition labels incl. a non-asserted triples map, N-TRIPLES/N-QUADS, partitioning '
        'NO/PARTIAL-AGGREGATIONS/MAXIMAL, 1-2 processes, relative/absolute paths, pre-existing junk targets, unrelated files, '
        'other extensions, missing nested directories, output_file spellings with/without suffix, dots, hidden names, '
        'sub-directories). After every run the directory tree (listing + contents as line multisets) is compared with '
        'Model.cliRun and the direct oracle is applied. non-trivial = the run wrote at least one statement and something '
        'existed in the tree before it (earlier run or pre-existing file); distinct = (sequence spec prefix). '
        'Plus: Py.withSuffix/mkPath/dirname/strip vs pathlib/os.path on generated names (non-trivial = name contains a dot, '
        'a slash or is an error case) and Config.get_output_file_path vs Gen.getOutputFilePath on generated option values.')
TRUSTED_BASE = [
    'os.remove / os.makedirs / open(path, "a") semantics on a local POSIX file system as modelled in Model/FS.lean '
    '(files = lists of newline-terminated lines keyed by normalised path string; no "..", symlinks, permission or '
    'is-a-directory errors)',
    'pathlib.PurePosixPath (CPython 3.12) parsing, with_suffix, as_posix and os.path.dirname, str.strip as modelled in '
    'Py/Path.lean (validated on every run by the correspondence I9p on generated names including the error cases)',
    'the reading "targeted files = the files the run writes" (DESIGN.md section 5, C17); the stronger reading '
    '"everything in output_dir" is stated separately (C17_dir_union_partial, finding C17_F1)',
    'the statements of a run are an input of Model.cliRun (their generation is the subject of C01-C16); the set order of '
    'Python is abstracted to a list, contents are compared as multisets',
]
ASSUMPTIONS = ['all runs of one history name files either by relative or by absolute paths (no aliasing of one file by two strings)',
               'small ASCII statements: every group is written by one buffered write (< 8 KiB) so parallel appends do not interleave']

EXT = {'N-TRIPLES': '.nt', 'N-QUADS': '.nq'}      # specification side: documented extension per format
DEFAULT_STEM = 'knowledge-graph'                   # documented default output file name

PEOPLE = 'id,name,age\n1,Ann,30\n2,Bob,41\n3,Cy,30\n'
CITIES = 'cid,cname\n10,Rome\n20,Oslo\n'
PFX = ('@prefix rr: <http://www.w3.org/ns/r2rml#> .\n@prefix rml: <http://semweb.mmlab.be/ns/rml#> .\n'
       '@prefix ql: <http://semweb.mmlab.be/ns/ql#> .\n@prefix ex: <http://ex/> .\n')
LS_P = 'rml:logicalSource [ rml:source "in/people.csv"; rml:referenceFormulation ql:CSV ]'
LS_C = 'rml:logicalSource [ rml:source "in/cities.csv"; rml:referenceFormulation ql:CSV ]'
MAPPINGS = {
    'A': PFX + f'''<#P> a rr:TriplesMap; {LS_P};
  rr:subjectMap [ rr:template "http://ex/p/{{id}}" ];
  rr:predicateObjectMap [ rr:predicate ex:name ; rr:objectMap [ rml:reference "name" ] ];
  rr:predicateObjectMap [ rr:predicate ex:age ; rr:objectMap [ rml:reference "age" ] ; rr:graph ex:g1 ] .
<#C> a rr:TriplesMap; {LS_C};
  rr:subjectMap [ rr:template "http://ex/c/{{cid}}" ];
  rr:predicateObjectMap [ rr:predicate ex:name ; rr:objectMap [ rml:reference "cname" ] ] .
''',
    'B': '''@prefix rml: <http://w3id.org/rml/> .
@prefix ex: <http://ex/> .
@base <http://example.org/> .
<#Inner> a rml:NonAssertedTriplesMap ;
  rml:logicalSource [ rml:source "in/people.csv"; rml:referenceFormulation rml:CSV ];
  rml:subjectMap [ rml:template "http://ex/q/{id}" ];
  rml:predicateObjectMap [ rml:predicate ex:age ; rml:objectMap [ rml:reference "age" ] ] .
<#Outer> a rml:AssertedTriplesMap ;
  rml:logicalSource [ rml:source "in/people.csv"; rml:referenceFormulation rml:CSV ];
  rml:subjectMap [ rml:quotedTriplesMap <#Inner> ];
  rml:predicateObjectMap [ rml:predicate ex:saidBy ; rml:objectMap [ rml:template "http://ex/p/{id}" ] ] .
<#City> a rml:TriplesMap ;
  rml:logicalSource [ rml:source "in/cities.csv"; rml:referenceFormulation rml:CSV ];
  rml:subjectMap [ rml:template "http://ex/c/{cid}" ];
  rml:predicateObjectMap [ rml:predicate ex:name ; rml:objectMap [ rml:reference "cname" ] ] .
''',
    'C': PFX + f'''<#P> a rr:TriplesMap; {LS_P};
  rr:subjectMap [ rr:template "http://ex/p/{{id}}" ];
  rr:predicateObjectMap [ rr:predicate ex:name ; rr:objectMap [ rml:reference "name" ; rr:language "en" ] ] .
''',
    'D': PFX + f'''<#C> a rr:TriplesMap; {LS_C};
  rr:subjectMap [ rr:template "http://ex/c/{{cid}}" ; rr:class ex:City ];
  rr:predicateObjectMap [ rr:predicate ex:label ; rr:objectMap [ rr:template "city {{cname}}" ; rr:termType rr:Literal ] ] .
<#P> a rr:TriplesMap; {LS_P};
  rr:subjectMap [ rr:template "http://ex/person/{{id}}" ; rr:termType rr:BlankNode ];
  rr:predicateObjectMap [ rr:predicate ex:knows ; rr:objectMap [ rr:template "http://ex/p/{{age}}" ] ; rr:graph ex:g2 ] .
''',
}
# a mapping one of whose groups yields no statement at all (its source has a header and no rows): nothing may be written for it
MAPPINGS['E'] = PFX + f'''<#P> a rr:TriplesMap; {LS_P};
  rr:subjectMap [ rr:template "http://ex/p/{{id}}" ];
  rr:predicateObjectMap [ rr:predicate ex:name ; rr:objectMap [ rml:reference "name" ] ] .
<#Nobody> a rr:TriplesMap; rml:logicalSource [ rml:source "in/empty.csv"; rml:referenceFormulation ql:CSV ];
  rr:subjectMap [ rr:template "http://other/e/{{eid}}" ];
  rr:predicateObjectMap [ rr:predicate ex:label ; rr:objectMap [ rml:reference "elabel" ] ; rr:graph ex:g9 ] .
'''
PARTS = ['NO', 'PARTIAL-AGGREGATIONS', 'MAXIMAL']
FILE_VALUES = ['kg', 'kg.nt', 'kg.ttl', 'kg.nq', 'res.tar.gz', 'sub/kg', 'a/b/c/kg.nt', './kg', 'kg.', '.hidden', '.hidden.nt',
               'o.d/kg', 'x y.nt', 'sub//kg.nt', 'sub/./kg', 'UPPER.NT', 'k-g_1', 'sub/.nt', 'é.nt', '..kg']
DIR_VALUES = ['out', 'out/', './out', 'deep/er/out', 'out//', 'o.d', 'out/.', 'a b/out', '.out']


# ----------------------------------------------------------------------------------------------------
# in-process facts about one (mapping, format, partitioning): groups, labels, whole result
# ----------------------------------------------------------------------------------------------------

class Facts:
    def __init__(self, ctx):
        self.ctx = ctx
        self.dir = os.path.join(ctx.tmp, 'facts')
        write_inputs(self.dir)
        self.cache = {}

    def get(self, mapping, fmt, part, nproc=1):
        # the labels of MAXIMAL partitioning depend on the number of processes (the permutations are evaluated by a pool
        # whose tasks share one DataFrame per chunk); everything else does not
        nproc = nproc if part == 'MAXIMAL' else 1
        key = (mapping, fmt, part, nproc)
        if key in self.cache:
            return self.cache[key]
        import morph_kgc
        from morph_kgc.args_parser import load_config_from_argument
        from morph_kgc.mapping.mapping_parser import retrieve_mappings
        from morph_kgc.materializer import _materialize_rml_rule
        from morph_kgc.constants import RML_TRIPLES_MAP_CLASS
        cfg = (f'[CONFIGURATION]\noutput_format={fmt}\nmapping_partitioning={part}\nnumber_of_processes={nproc}\n'
               f'logging_level=CRITICAL\n[DS]\nmappings=in/m{mapping}.ttl\n')
        cwd = os.getcwd()
        os.chdir(self.dir)
        try:
            result = sorted(morph_kgc.materialize_set(cfg))          # direct oracle: the result of the run
            config = load_config_from_argument(cfg)
            rml_df, fnml_df = retrieve_mappings(config)
            asserted = rml_df.loc[rml_df['triples_map_type'] == RML_TRIPLES_MAP_CLASS]
            groups = []
            for label, g in asserted.groupby(by='mapping_partition'):
                triples = set()
                for _, rule in g.iterrows():
                    triples.update(set(_materialize_rml_rule(rule, rml_df, fnml_df, config)['triple']))
                groups.append([str(label), sorted(triples)])
            other = sorted(set(map(str, rml_df['mapping_partition'])) - {g[0] for g in groups})
        finally:
            os.chdir(cwd)
        self.cache[key] = {'groups': groups, 'other': other, 'result': result}
        return self.cache[key]


def write_inputs(w):
    os.makedirs(os.path.join(w, 'in'), exist_ok=True)
    with open(os.path.join(w, 'in', 'people.csv'), 'w') as f:
        f.write(PEOPLE)
    with open(os.path.join(w, 'in', 'cities.csv'), 'w') as f:
        f.write(CITIES)
    with open(os.path.join(w, 'in', 'empty.csv'), 'w') as f:
        f.write('eid,elabel\n')
    for k, v in MAPPINGS.items():
        with open(os.path.join(w, 'in', f'm{k}.ttl'), 'w') as f:
            f.write(v)


# ----------------------------------------------------------------------------------------------------
# sequences
# ----------------------------------------------------------------------------------------------------

def gen_sequence(rng, facts, special=None):
    mode = rng.choice(['file', 'file', 'dir', 'dir', 'dir'])
    absolute = rng.random() < 0.2
    n = rng.randrange(2, 6)
    same_mapping = rng.random() < 0.3
    m0 = rng.choice('ABCDE')
    runs = []
    if mode == 'file':
        base = rng.choice(FILE_VALUES)
        alt = rng.choice([base, base, str(PurePosixPath(base).with_suffix('.ttl')), base + '.x', rng.choice(FILE_VALUES)])
    else:
        base = rng.choice(DIR_VALUES)
        alt = rng.choice([base, base, base.rstrip('/') + '/', rng.choice(DIR_VALUES)])
    for _ in range(n):
        fmt = rng.choice(['N-TRIPLES', 'N-TRIPLES', 'N-QUADS'])
        r = {'mapping': m0 if same_mapping else rng.choice('ABCDE'), 'format': fmt,
             'format_spelling': rng.choice([fmt, fmt.lower(), fmt.title()]),
             'partitioning': rng.choice(PARTS), 'nproc': 2 if rng.random() < 0.15 else 1,
             'output_dir': None, 'output_file': None}
        v = base if rng.random() < 0.7 else alt
        if mode == 'file':
            r['output_file'] = v
            if rng.random() < 0.15:
                r['output_dir'] = ''                 # present but empty: falls back to the default (no directory)
        else:
            r['output_dir'] = v
            if rng.random() < 0.3:
                r['output_file'] = rng.choice(['ignored.nt', '', 'out'])
        runs.append(r)
    if special == 'default':                        # output_file absent / empty
        for r in runs:
            r['output_dir'] = None
            r['output_file'] = None if rng.random() < 0.5 else ''
        mode = 'file'
    # ---- pre-existing tree
    fs0 = {'files': {}, 'dirs': []}
    junk = lambda: ''.join(f'<http://junk/{rng.randrange(1000)}> <http://junk/p> "old" .\n' for _ in range(rng.randrange(1, 4)))
    if mode == 'file':
        for r in runs[:2]:
            v = r['output_file']
            stems = [v] if v else ['output_file', DEFAULT_STEM]
            for st in stems:
                try:
                    p = PurePosixPath(st)
                    for ext in ('.nt', '.nq'):
                        if rng.random() < 0.5:
                            fs0['files'][p.with_suffix(ext).as_posix()] = junk()
                    if rng.random() < 0.4:
                        fs0['files'][(p.parent / 'unrelated.txt').as_posix()] = 'keep me\n'
                    if rng.random() < 0.4 and p.suffix not in ('.nt', '.nq', ''):
                        fs0['files'][p.as_posix()] = 'same name, other extension\n'
                    if rng.random() < 0.3 and str(p.parent) != '.':
                        fs0['dirs'].append(p.parent.as_posix())
                except ValueError:
                    pass
    else:
        labels = set()
        for r in runs:
            f = facts.get(r['mapping'], r['format'], r['partitioning'], r['nproc'])
            labels.update(g[0] for g in f['groups'])
            labels.update(f['other'])
        for r in runs[:2]:
            d = PurePosixPath(r['output_dir'])
            if rng.random() < 0.6:
                fs0['dirs'].append(d.as_posix())
                for lab in sorted(labels):
                    for ext in ('.nt', '.nq', '.ttl'):
                        if rng.random() < 0.25:
                            fs0['files'][(d / (lab + ext)).as_posix()] = junk()
                if rng.random() < 0.5:
                    fs0['files'][(d / 'readme.txt').as_posix()] = 'keep me\n'
                if rng.random() < 0.3:
                    fs0['files'][(d / 'notes.nt').as_posix()] = '<http://junk/n> <http://junk/p> "not a group file" .\n'
            elif rng.random() < 0.3 and str(d.parent) != '.':
                fs0['dirs'].append(d.parent.as_posix())
    # a path may not be both a file and a directory (or below a file)
    files = {}
    for p, c in fs0['files'].items():
        if p in ('.', '') or any(p == d or d.startswith(p + '/') for d in fs0['dirs']) or any(q != p and q.startswith(p + '/') for q in fs0['files']):
            continue
        files[p] = c
    fs0['files'] = files
    return {'mode': mode, 'absolute': absolute, 'fs0': fs0, 'runs': runs}


def conflict_free(seq):
    """reject sequences in which one path would have to be both a file and a directory (outside the model)"""
    files, dirs = set(seq['fs0']['files']), set(seq['fs0']['dirs'])
    for r in seq['runs']:
        ext = EXT[r['format']]
        try:
            if r['output_dir']:
                d = PurePosixPath(r['output_dir'])
                dirs.add(d.as_posix())
                files.add((d / ('0' + ext)).as_posix())
            else:
                p = PurePosixPath(r['output_file'] if r['output_file'] else ('output_file' if r['output_file'] == '' else DEFAULT_STEM))
                files.add(p.with_suffix(ext).as_posix())
                files.add(PurePosixPath(DEFAULT_STEM).with_suffix(ext).as_posix())
                dirs.add(p.parent.as_posix())
        except ValueError:
            pass
    alld = set()
    for d in dirs:
        q = PurePosixPath(d)
        while str(q) not in ('.', '/'):
            alld.add(q.as_posix())
            q = q.parent
    for f in files:
        if f in alld:
            return False
        q = PurePosixPath(f).parent
        while str(q) not in ('.', '/'):
            if q.as_posix() in files:
                return False
            q = q.parent
    return True


def config_text(r, w, absolute, idx):
    pre = (w + '/') if absolute else ''
    lines = ['[CONFIGURATION]']
    if r['output_dir'] is not None:
        lines.append('output_dir=' + (pre + r['output_dir'] if r['output_dir'] else ''))
    if r['output_file'] is not None:
        lines.append('output_file=' + (pre + r['output_file'] if (r['output_file'] and not r['output_dir']) else r['output_file']))
    lines += [f'output_format={r["format_spelling"]}', f'mapping_partitioning={r["partitioning"]}',
              f'number_of_processes={r["nproc"]}', 'logging_level=CRITICAL', '[DS]', f'mappings=in/m{r["mapping"]}.ttl', '']
    return '\n'.join(lines)


def snapshot(w):
    files, dirs = {}, set()
    for root, ds, fs in os.walk(w):
        rel = os.path.relpath(root, w)
        if rel == '.':
            ds[:] = [d for d in ds if d != 'in']
            rel = ''
        else:
            dirs.add(rel)
        for fn in fs:
            p = os.path.join(root, fn)
            st = os.stat(p)
            with open(p, 'rb') as f:
                raw = f.read()
            txt = raw.decode('utf-8', 'replace')
            lines = txt.split('\n')
            complete = lines[-1] == ''
            files[os.path.join(rel, fn) if rel else fn] = {'lines': lines[:-1] if complete else lines, 'complete': complete,
                                                           'id': (st.st_ino, st.st_mtime_ns, st.st_size)}
    return {'files': files, 'dirs': sorted(dirs)}


def execute(seq, w, repo):
    """runs the sequence for real; returns one record per run (rc, stderr tail, tree before/after)"""
    write_inputs(w)
    for d in seq['fs0']['dirs']:
        os.makedirs(os.path.join(w, d), exist_ok=True)
    for p, c in seq['fs0']['files'].items():
        os.makedirs(os.path.dirname(os.path.join(w, p)) or w, exist_ok=True)
        with open(os.path.join(w, p), 'w', encoding='utf-8') as f:
            f.write(c)
    env = dict(os.environ)
    env['PYTHONPATH'] = os.path.join(repo, 'src')
    env.pop('PYTHONSTARTUP', None)
    recs = []
    snap = snapshot(w)
    time.sleep(0.005)
    for i, r in enumerate(seq['runs']):
        cfg = os.path.join('in', f'cfg{i}.ini')
        with open(os.path.join(w, cfg), 'w', encoding='utf-8') as f:
            f.write(config_text(r, w, seq['absolute'], i))
        p = subprocess.run([sys.executable, '-m', 'morph_kgc', cfg], cwd=w, env=env, stdout=subprocess.PIPE,
                           stderr=subprocess.PIPE, text=True, timeout=300)
        after = snapshot(w)
        recs.append({'rc': p.returncode, 'stderr': p.stderr[-600:], 'before': snap, 'after': after})
        snap = after
    return recs


# ----------------------------------------------------------------------------------------------------
# evaluation of one executed sequence: model correspondence + direct oracle
# ----------------------------------------------------------------------------------------------------

def canon_lines(ls):
    return sorted(ls)


def evaluate(ctx, seq, recs, w, facts, drv, tag):
    absolute = seq['absolute']
    key = (lambda rel: w + '/' + rel) if absolute else (lambda rel: rel)
    unkey = (lambda k: k[len(w) + 1:] if k.startswith(w + '/') else k) if absolute else (lambda k: k)
    fx = [facts.get(r['mapping'], r['format'], r['partitioning'], r['nproc']) for r in seq['runs']]

    # ---- model side: the whole history in one call
    model = None
    if drv is not None:
        pre = (w + '/') if absolute else ''
        mruns = []
        for r, f in zip(seq['runs'], fx):
            od, of = r['output_dir'], r['output_file']
            mruns.append({'format': r['format'],
                          'output_dir': None if od is None else (pre + od if od else ''),
                          'output_file': None if of is None else (pre + of if (of and not od) else of),
                          'groups': f['groups'], 'other_groups': f['other']})
        probes = set()
        for rec in recs:
            probes.update(rec['after']['files'])
            probes.update(rec['after']['dirs'])
        s0 = recs[0]['before']
        fs0 = {'files': [[key(p), v['lines']] for p, v in sorted(s0['files'].items())],
               'dirs': [key(d) for d in s0['dirs']] + (ancestors_abs(w) if absolute else [])}
        model = drv.call('cli_history', fs0=fs0, runs=mruns, probes=sorted(key(p) for p in probes))

    earlier_written = set()          # files written by earlier runs of this history
    for k, (r, f, rec) in enumerate(zip(seq['runs'], fx, recs)):
        inp = {'sequence': {**seq, 'runs': seq['runs'][:k + 1]}, 'run_index': k, 'tag': tag}
        before, after = rec['before']['files'], rec['after']['files']
        touched = sorted(p for p, v in after.items() if p not in before or before[p]['id'] != v['id'])
        result_lines = canon_lines([t + ' .' for t in f['result']])
        nontrivial = bool(result_lines) and bool(before)
        ctx.case({'seq': seq['fs0'], 'runs': seq['runs'][:k + 1], 'abs': absolute}, nontrivial=nontrivial,
                 kind=f'{seq["mode"]}-mode run', sample={'run': r, 'rc': rec['rc'], 'written': touched,
                                                        'tree_before': sorted(before)[:6]} if k == 1 else None)
        ctx.bump(f'format {r["format"]}')
        ctx.bump(f'partitioning {r["partitioning"]}')
        ctx.bump(f'processes {r["nproc"]}')
        ctx.bump(f'groups written {len(f["groups"])}')
        if any(p in before for p in touched):
            ctx.bump('target existed before the run')
        ctx.traces_validated += 1

        # ---- correspondence with Model.cliRun
        if model is not None:
            m = model[k]
            m_files = {unkey(p): canon_lines(ls) for p, ls in m['files']}
            m_dirs = sorted(unkey(d) for d in m['dirs'] if not (absolute and (w == d or w.startswith(d + '/'))))
            r_files = {p: canon_lines(v['lines']) for p, v in after.items()}
            if (m['err'] is None) != (rec['rc'] == 0):
                ctx.disagree('I9 cli run outcome', inp, m['err'], {'rc': rec['rc'], 'stderr': rec['stderr'][-300:]})
            elif m_files != r_files:
                diff = sorted(set(m_files) ^ set(r_files)) or [p for p in m_files if m_files[p] != r_files[p]]
                ctx.disagree('I9 files after run', inp, {'differs_at': diff[:5], 'model': {p: m_files.get(p) for p in diff[:3]}},
                             {p: r_files.get(p) for p in diff[:3]})
            elif m_dirs != rec['after']['dirs']:
                ctx.disagree('I9 directories after run', inp, m_dirs, rec['after']['dirs'])
            elif m['err'] is None and sorted(unkey(t) for t in m['targets']) != touched:
                ctx.disagree('I9 targeted files', inp, sorted(unkey(t) for t in m['targets']), touched)

        # ---- direct oracle (does not use the model)
        ext = EXT[r['format']]
        dir_mode = bool(r['output_dir'])
        if dir_mode:
            d = PurePosixPath(r['output_dir'])
            expected = {(d / (g[0] + ext)).as_posix(): canon_lines([t + ' .' for t in g[1]]) for g in f['groups']}
        else:
            of = r['output_file']
            try:
                stem = of if of else DEFAULT_STEM
                expected = {PurePosixPath(stem).with_suffix(ext).as_posix(): result_lines}
            except ValueError:
                expected = None
        fid = None
        if expected is None:
            if rec['rc'] == 0:
                ctx.violation(f'output_file={r["output_file"]!r} cannot be given the extension {ext} yet the run succeeded', inp)
            continue
        if rec['rc'] != 0:
            what = f'run {k} of the history crashed: {rec["stderr"].strip().splitlines()[-1][:200] if rec["stderr"].strip() else rec["rc"]}'
            if not dir_mode and r['output_file'] and leading_space_dir(r['output_file']):
                fid = 'C17_F3'
            ctx.violation(what, inp, finding=fid)
            continue
        if not dir_mode and r['output_file'] == '' and touched == [PurePosixPath('output_file').with_suffix(ext).as_posix()]:
            ctx.violation(f'empty output_file: the result is written to {touched[0]!r}, the documented default is '
                          f'{DEFAULT_STEM + ext!r}', inp, finding='C17_F2')
            expected = {touched[0]: result_lines}      # the name is the finding; the content is still checked below
        bad = None
        if sorted(expected) != touched:
            bad = f'files written {touched} but expected {sorted(expected)} (one file per mapping group / extension {ext} of {r["format"]})'
        else:
            for p in touched:
                if not after[p]['complete']:
                    bad = f'{p} does not end with a newline'
                elif canon_lines(after[p]['lines']) != expected[p]:
                    got = canon_lines(after[p]['lines'])
                    extra = [x for x in got if x not in expected[p]][:3]
                    bad = (f'{p} does not hold exactly the statements of this run: {len(got)} lines, expected {len(expected[p])}; '
                           f'foreign lines {extra}')
                if bad:
                    break
            union = canon_lines([x for p in touched for x in after[p]['lines']])
            if not bad and union != result_lines:
                bad = 'the union of the written files differs from the result of materialize_set'
            if not bad and any(not p.endswith(ext) for p in touched):
                bad = f'a written file does not end with {ext}'
            if not bad and any(not os.path.isdir(os.path.join(w, os.path.dirname(p))) for p in touched):
                bad = 'parent directory of a written file does not exist'
        if bad:
            ctx.violation(f'run {k} ({seq["mode"]} mode): {bad}', inp)
        # untouched files must be exactly as they were, except group files removed by prepare (labels of this rule table)
        removable = set()
        if dir_mode:
            removable = {(PurePosixPath(r['output_dir']) / (lab + ext)).as_posix() for lab in f['other']}
        for p, v in before.items():
            if p in touched:
                continue
            if p not in after:
                if p not in removable:
                    ctx.violation(f'run {k} deleted {p}, a file it does not write', inp)
            elif after[p]['lines'] != v['lines']:
                ctx.violation(f'run {k} changed {p}, a file it does not target', inp)
        # stronger reading (finding C17_F1): group files of earlier runs left in the directory
        if dir_mode:
            stale = sorted(p for p in earlier_written if p in after and p not in touched
                           and os.path.dirname(p) == os.path.dirname(touched[0] if touched else p))
            if stale:
                ctx.violation(f'output_dir mode: group files of earlier runs remain next to the current result: {stale[:4]} '
                              '(the union of the group files in the directory is not the result)', inp, finding='C17_F1')
        earlier_written.update(touched)


def leading_space_dir(value):
    """scope of C17_F3: the normalised output path starts with white space and has a directory part"""
    try:
        p = PurePosixPath(value).with_suffix('.nt').as_posix()
    except ValueError:
        return False
    return p != p.strip() and p[:1].isspace() and os.path.dirname(p.strip()) != ''


def ancestors_abs(w):
    out, q = [], PurePosixPath(w)
    while str(q) != '/':
        out.append(q.as_posix())
        q = q.parent
    return out


# ----------------------------------------------------------------------------------------------------
# correspondences on the path primitives and on get_output_file_path
# ----------------------------------------------------------------------------------------------------

ALPH = ['a', 'b', 'kg', '.', '..', '/', '//', '-', '1', ' ', '.nt', '.nq', 'x.y', 'é', '.h', '\t', '1-2-1-1', 'out', '　', '.tar.gz']
SUFFIXES = ['.nt', '.nq', '', '.', 'nt', '.a/b', '..', '.n.t', ' .nt', '/', '.ttl']


def gen_name(rng):
    return ''.join(rng.choice(ALPH) for _ in range(rng.randrange(0, 6)))


def path_correspondence(ctx, drv, n):
    rng = ctx.rng
    for _ in range(n):
        k = rng.choice([1, 1, 2, 2, 3])
        segs = [gen_name(rng) for _ in range(k)]
        if rng.random() < 0.05:
            segs[rng.randrange(k)] = None
        suffix = rng.choice(SUFFIXES)
        try:
            p = PurePosixPath(*segs)
            real = {'ok': {'root': p.root, 'parts': list(p.parts[1:] if p.root else p.parts), 'str': p.as_posix(), 'name': p.name,
                           'suffix': p.suffix, 'parent': str(p.parent)}}
        except TypeError:
            p, real = None, {'exc': 'TypeError'}
        if p is None:
            ws = {'exc': 'TypeError'}
        else:
            try:
                ws = {'ok': p.with_suffix(suffix).as_posix()}
            except ValueError:
                ws = {'exc': 'ValueError'}
        nontriv = p is None or 'exc' in ws or any(c in (s or '') for s in segs for c in './')
        ctx.case(['path', segs, suffix], nontrivial=nontriv, kind='I9p with_suffix' + (' error' if 'exc' in ws else ''))
        m = drv.call('path_ops', segs=segs, suffix=suffix)
        if m['path'] != real or m['with_suffix'] != ws:
            ctx.disagree('I9p pathlib (Path, with_suffix, as_posix)', {'segs': segs, 'suffix': suffix}, m, {'path': real, 'with_suffix': ws})
        s = gen_name(rng) + rng.choice(['', ' ', '　', '\x1c', '\n'])
        m = drv.call('str_ops', s=s)
        ctx.case(['str', s], nontrivial='/' in s or s != s.strip(), kind='I9p dirname/strip')
        if m['dirname'] != os.path.dirname(s) or m['strip'] != s.strip():
            ctx.disagree('I9p os.path.dirname / str.strip', {'s': s}, m, {'dirname': os.path.dirname(s), 'strip': s.strip()})


def real_output_path(fmt_spelling, od, of, group):
    from morph_kgc.args_parser import load_config_from_argument
    lines = ['[CONFIGURATION]', 'logging_level=CRITICAL', f'output_format={fmt_spelling}']
    if od is not None:
        lines.append('output_dir=' + od)
    if of is not None:
        lines.append('output_file=' + of)
    config = load_config_from_argument('\n'.join(lines) + '\n[DS]\nmappings=x.ttl\n')
    try:
        return {'ok': config.get_output_file_path(group) if group is not None else config.get_output_file_path()}
    except (ValueError, TypeError, KeyError) as e:
        return {'exc': type(e).__name__}


def output_path_correspondence(ctx, drv, n):
    rng = ctx.rng
    clean = lambda s: s.strip().replace('$', 'S').replace('\n', '').replace('\t', ' ').strip()
    for _ in range(n):
        fmt = rng.choice(['N-TRIPLES', 'N-QUADS'])
        od = rng.choice([None, None, '', clean(gen_name(rng)), rng.choice(DIR_VALUES)])
        of = rng.choice([None, '', clean(gen_name(rng)), rng.choice(FILE_VALUES), '.', '/', 'a/..'])
        group = rng.choice([None, '1-2-1-1', '0-0-0-0', 'a.b', '', 'x/y'])
        real = real_output_path(rng.choice([fmt, fmt.lower()]), od, of, group)
        ctx.case(['output_path', fmt, od, of, group], nontrivial=True, kind='I8 get_output_file_path' + (' error' if 'exc' in real else ''))
        m = drv.call('output_path', format=fmt, output_dir=od, output_file=of, group=group)
        if m != real:
            ctx.disagree('I8 Config.get_output_file_path', {'format': fmt, 'output_dir': od, 'output_file': of, 'group': group}, m, real)


# ----------------------------------------------------------------------------------------------------

FIXED = [
    # C17_F1 witness: two runs over one output_dir whose group labels differ
    {'mode': 'dir', 'absolute': False, 'fs0': {'files': {}, 'dirs': []}, 'runs': [
        {'mapping': 'A', 'format': 'N-TRIPLES', 'format_spelling': 'N-TRIPLES', 'partitioning': 'MAXIMAL', 'nproc': 1, 'output_dir': 'out', 'output_file': None},
        {'mapping': 'A', 'format': 'N-TRIPLES', 'format_spelling': 'N-TRIPLES', 'partitioning': 'NO', 'nproc': 1, 'output_dir': 'out', 'output_file': None}]},
    # C17_F2 (= C19_F1) witness: output_file present but empty; then absent
    {'mode': 'file', 'absolute': False, 'fs0': {'files': {'output_file.nt': '<http://junk/1> <http://junk/p> "old" .\n',
                                                              'knowledge-graph.nt': '<http://junk/2> <http://junk/p> "old" .\n'}, 'dirs': []}, 'runs': [
        {'mapping': 'C', 'format': 'N-TRIPLES', 'format_spelling': 'N-TRIPLES', 'partitioning': 'NO', 'nproc': 1, 'output_dir': None, 'output_file': ''},
        {'mapping': 'C', 'format': 'N-TRIPLES', 'format_spelling': 'N-TRIPLES', 'partitioning': 'NO', 'nproc': 1, 'output_dir': None, 'output_file': None}]},
    # C17_F3 witness: the normalised output path starts with a space and has a directory part
    {'mode': 'file', 'absolute': False, 'fs0': {'files': {}, 'dirs': []}, 'runs': [
        {'mapping': 'C', 'format': 'N-TRIPLES', 'format_spelling': 'N-TRIPLES', 'partitioning': 'NO', 'nproc': 1, 'output_dir': None, 'output_file': './ d/kg'},
        {'mapping': 'C', 'format': 'N-TRIPLES', 'format_spelling': 'N-TRIPLES', 'partitioning': 'NO', 'nproc': 1, 'output_dir': None, 'output_file': 'd/kg'}]},
    # several groups into one file, existing target, missing nested directories, two processes
    {'mode': 'file', 'absolute': False, 'fs0': {'files': {'kg.nt': '<http://junk/3> <http://junk/p> "old" .\n'}, 'dirs': []}, 'runs': [
        {'mapping': 'A', 'format': 'N-TRIPLES', 'format_spelling': 'n-triples', 'partitioning': 'MAXIMAL', 'nproc': 1, 'output_dir': None, 'output_file': 'kg.ttl'},
        {'mapping': 'D', 'format': 'N-TRIPLES', 'format_spelling': 'N-TRIPLES', 'partitioning': 'MAXIMAL', 'nproc': 2, 'output_dir': None, 'output_file': 'kg'},
        {'mapping': 'A', 'format': 'N-QUADS', 'format_spelling': 'N-QUADS', 'partitioning': 'PARTIAL-AGGREGATIONS', 'nproc': 1, 'output_dir': None, 'output_file': 'a/b/c/kg.nt'},
        {'mapping': 'B', 'format': 'N-QUADS', 'format_spelling': 'N-QUADS', 'partitioning': 'MAXIMAL', 'nproc': 1, 'output_dir': None, 'output_file': 'a/b/c/kg'}]},
    # output_dir: a non-asserted label of the second run removes a group file of the first; same labels rewritten
    {'mode': 'dir', 'absolute': False, 'fs0': {'files': {'deep/out/1-1-1-1.nt': '<http://junk/4> <http://junk/p> "old" .\n',
                                                             'deep/out/readme.txt': 'keep me\n'}, 'dirs': ['deep/out']}, 'runs': [
        {'mapping': 'B', 'format': 'N-TRIPLES', 'format_spelling': 'N-TRIPLES', 'partitioning': 'MAXIMAL', 'nproc': 1, 'output_dir': 'deep/out', 'output_file': None},
        {'mapping': 'B', 'format': 'N-TRIPLES', 'format_spelling': 'N-TRIPLES', 'partitioning': 'MAXIMAL', 'nproc': 1, 'output_dir': 'deep/out/', 'output_file': 'ignored.nt'}]},
    # output_dir with several missing levels, absolute paths, then the other format into the same directory
    {'mode': 'dir', 'absolute': True, 'fs0': {'files': {}, 'dirs': []}, 'runs': [
        {'mapping': 'D', 'format': 'N-QUADS', 'format_spelling': 'N-QUADS', 'partitioning': 'PARTIAL-AGGREGATIONS', 'nproc': 1, 'output_dir': 'n1/n2/out', 'output_file': None},
        {'mapping': 'D', 'format': 'N-TRIPLES', 'format_spelling': 'N-TRIPLES', 'partitioning': 'PARTIAL-AGGREGATIONS', 'nproc': 1, 'output_dir': 'n1/n2/out', 'output_file': None}]},
]


def run_sequences(ctx, seqs, facts, drv, repo, workers):
    ws = []
    for i, s in enumerate(seqs):
        w = os.path.join(ctx.tmp, f'h{i}')
        os.makedirs(w)
        ws.append(w)
    with concurrent.futures.ThreadPoolExecutor(max_workers=workers) as ex:
        futs = [ex.submit(execute, s, w, repo) for s, w in zip(seqs, ws)]
        recs = [f.result() for f in futs]
    for i, (s, w, rc) in enumerate(zip(seqs, ws, recs)):
        evaluate(ctx, s, rc, w, facts, drv, tag=i)
        shutil.rmtree(w, ignore_errors=True)


def run(ctx, lean, findings):
    rng = ctx.rng
    drv = ctx.get_driver() if ctx.model_available else None
    if drv is None:
        ctx.notes.append('driver unavailable: model correspondence skipped, direct oracle only')
    repo = vlib.REPO
    facts = Facts(ctx)

    if drv is not None:
        path_correspondence(ctx, drv, ctx.budget(3000, 60000) * (3 if ctx.escalate else 1))
        output_path_correspondence(ctx, drv, ctx.budget(300, 4000))

    nseq = ctx.budget(16, 300)
    if ctx.escalate:
        nseq = ctx.budget(20, 400)
    seqs = list(FIXED)
    tries = 0
    while len(seqs) < len(FIXED) + nseq and tries < 50 * nseq:
        tries += 1
        s = gen_sequence(rng, facts, special='default' if rng.random() < 0.08 else None)
        if conflict_free(s):
            seqs.append(s)
    run_sequences(ctx, seqs, facts, drv, repo, workers=max(2, min(8, (os.cpu_count() or 4) // 2)))


def replay(ctx, data):
    inp = data.get('input')
    if not inp or 'sequence' not in inp:
        lean = vlib.lean_phase(ctx, sys.modules[__name__])
        return bool(lean['broken'])
    facts = Facts(ctx)
    seq = inp['sequence']
    w = os.path.join(ctx.tmp, 'replay')
    os.makedirs(w)
    recs = execute(seq, w, vlib.REPO)
    evaluate(ctx, seq, recs, w, facts, None, tag='replay')
    want = data.get('all', [{}])[0].get('finding') if data.get('all') else None
    return any(v['finding'] == want for v in ctx.violations)
