"""C18 — RDFLib graph and Oxigraph store hold exactly the generated statements."""
import csv
import hashlib
import io
import json
import os

PROP = 'C18'
LEAN_TARGETS = ['MorphKgc.Props.C18']
GEN_KEYS = ['loader']
M = 'MorphKgc.Props.C18'
THEOREMS = [{'name': f'Props.C18.{n}', 'module': M} for n in [
    'C18_gen_shapes', 'C18_framing_lines', 'C18_framing_lines_nth', 'C18_framing_lines_gen',
    'C18_framing_parse', 'C18_framing_parse_gen', 'C18_canonical_roundtrip',
    'C18_empty', 'C18_unguarded_counterwitness',
    'C18_exact_upto', 'C18_exact', 'C18_exact_partial', 'C18_exact_fails_if_normalising', 'C18_contract_inhabited',
    'C18_graph_object_view', 'C18_graph_object_view_counterwitness']]
RULE = ('case = (generated mapping, generated CSV / in-memory data, output format); the three entry points materialize_set / materialize / '
        'materialize_oxigraph are called with the same config string (and python_source), number_of_processes=1. '
        'Mapping shapes: IRI/blank-node subjects from templates, plain / typed / language-tagged / template literals over strings with quotes, '
        'backslashes, line breaks, tabs, other control and separator characters, non-ASCII and non-BMP characters, blank-node and '
        'percent-encoded IRI objects, rr:graph / rr:graphMap / rr:defaultGraph on subject and predicate-object maps, RDF-star '
        '(rml:quotedTriplesMap in subject and object position, nested, asserted and non-asserted), empty result, single statement. '
        'non-trivial = the result is empty (guard), has one statement (guard boundary) or has >= 2 statements (separator matters); '
        'distinct = sha256 of (format, sorted result strings). Oracle: expected quads = pyoxigraph.parse of the set under the check\'s own '
        'framing; observed = set(Store) and Dataset(store=graph.store).quads(); compared up to blank-node renaming (colour refinement) and '
        'language-tag case. Correspondence: text captured at Graph.parse / Store.bulk_load vs driver `frame`; driver `parse_doc` vs '
        'pyoxigraph.parse and rdflib nquads on the same text (plus damaged variants).')
TRUSTED_BASE = [
    'third-party contracts, validated by correspondence on every run, not verified: rdflib 7.x N-Quads parser (Graph.parse format=nquads) '
    'and pyoxigraph 0.3 Store.bulk_load(application/n-quads) agree with Spec.NQ.parseDoc on the emitted subset (hypothesis ParserContract of C18_exact)',
    'Spec/NQuads.lean: our reading of the W3C N-Triples / N-Quads grammar and of the RDF-star N-Triples-star extension',
    'pyoxigraph.parse(application/n-quads) as the direct oracle for the expected quads of each string',
    'blank nodes compared up to renaming by colour refinement (exact when the colouring is discrete, an isomorphism invariant otherwise)',
    'tools/gen/C18.py reads materialize / materialize_oxigraph by AST shape; str.encode() is UTF-8',
]
ASSUMPTIONS = [
    'observation of the rdflib result is at store level: rdflib.Dataset(store=graph.store).quads(); the view through the Graph object is finding C18_F1',
    'rdflib cannot parse << >>: RDF-star results are checked through Oxigraph only',
    'language tags are compared case-insensitively (Oxigraph lower-cases them, RDF 1.1 allows it)',
    'xsd:string typed literals are identified with simple literals (RDF 1.1)',
    'number_of_processes=1; only CSV files and in-memory DataFrames as sources',
]

XSD = 'http://www.w3.org/2001/XMLSchema#'
RDF_LANGSTRING = 'http://www.w3.org/1999/02/22-rdf-syntax-ns#langString'

# ----------------------------------------------------------------------------------------------------
# terms as comparable tuples:  ('I', iri) | ('B', label) | ('L', lex, lang|None, dt|None) | ('Q', s, p, o);  quad = (s, p, o, g|None)
# ----------------------------------------------------------------------------------------------------


def t_ox(t):
    import pyoxigraph as ox
    if isinstance(t, ox.NamedNode):
        return ('I', t.value)
    if isinstance(t, ox.BlankNode):
        return ('B', t.value)
    if isinstance(t, ox.Literal):
        if t.language:
            return ('L', t.value, t.language.lower(), None)
        dt = t.datatype.value if t.datatype is not None else None
        if dt in (XSD + 'string', RDF_LANGSTRING):
            dt = None
        return ('L', t.value, None, dt)
    if isinstance(t, ox.Triple):
        return ('Q', t_ox(t.subject), t_ox(t.predicate), t_ox(t.object))
    if isinstance(t, ox.DefaultGraph):
        return None
    raise TypeError(type(t))


def q_ox(q):
    return (t_ox(q.subject), t_ox(q.predicate), t_ox(q.object), t_ox(q.graph_name))


def t_rdflib(t, default_ids=()):
    import rdflib
    if isinstance(t, rdflib.URIRef):
        return ('I', str(t))
    if isinstance(t, rdflib.BNode):
        return ('B', str(t))
    if isinstance(t, rdflib.Literal):
        if t.language:
            return ('L', str(t), t.language.lower(), None)
        dt = str(t.datatype) if t.datatype is not None else None
        if dt == XSD + 'string':
            dt = None
        return ('L', str(t), None, dt)
    raise TypeError(type(t))


def t_lean(j):
    if j is None:
        return None
    k = j['k']
    if k == 'iri':
        return ('I', j['v'])
    if k == 'bnode':
        return ('B', j['v'])
    if k == 'lit':
        if j['lang'] is not None:
            return ('L', j['v'], j['lang'].lower(), None)
        dt = j['dt']
        if dt == XSD + 'string':
            dt = None
        return ('L', j['v'], None, dt)
    return ('Q', t_lean(j['s']), t_lean(j['p']), t_lean(j['o']))


def q_lean(j):
    return (t_lean(j['s']), t_lean(j['p']), t_lean(j['o']), t_lean(j['g']))


def map_term(t, f):
    """apply f to every leaf term"""
    if t is None:
        return None
    if t[0] == 'Q':
        return ('Q', map_term(t[1], f), map_term(t[2], f), map_term(t[3], f))
    return f(t)


def map_quads(qs, f):
    return {tuple(map_term(x, f) for x in q) for q in qs}


def bnodes_of(t, acc):
    if t is None:
        return
    if t[0] == 'B':
        acc.add(t[1])
    elif t[0] == 'Q':
        for x in t[1:]:
            bnodes_of(x, acc)


def canon(quads):
    """canonical form of a quad set up to blank-node renaming (colour refinement). -> (sorted list, discrete?)"""
    quads = set(quads)
    bn = set()
    for q in quads:
        for x in q:
            bnodes_of(x, bn)
    if not bn:
        return sorted(quads, key=repr), True
    col = {b: '' for b in bn}

    def h(x):
        return hashlib.sha256(repr(x).encode()).hexdigest()[:16]
    for _ in range(len(bn) + 2):
        new = {}
        for b in bn:
            sig = []
            for q in quads:
                acc = set()
                for x in q:
                    bnodes_of(x, acc)
                if b in acc:
                    sig.append(repr(tuple(map_term(x, lambda t: (('B', '@self') if t[1] == b else ('B', col[t[1]])) if t[0] == 'B' else t) for x in q)))
            new[b] = h(sorted(sig))
        if len(set(new.values())) == len(set(col.values())) and _ > 0:
            col = new
            break
        col = new
    discrete = len(set(col.values())) == len(bn)
    out = sorted(map_quads(quads, lambda t: ('B', col[t[1]]) if t[0] == 'B' else t), key=repr)
    return out, discrete


_ox_norm_cache = {}


def ox_store_norm(t):
    """what a fresh pyoxigraph Store returns for a literal put into it (third-party behaviour in isolation; scope of C18_F2)"""
    import pyoxigraph as ox
    if t[0] != 'L' or t[3] is None:
        return t
    if t not in _ox_norm_cache:
        st = ox.Store()
        st.add(ox.Quad(ox.NamedNode('http://x/s'), ox.NamedNode('http://x/p'), ox.Literal(t[1], datatype=ox.NamedNode(t[3]))))
        _ox_norm_cache[t] = t_ox(next(iter(st)).object)
    return _ox_norm_cache[t]


def rdflib_norm(t):
    """what rdflib.Literal keeps for a typed literal (normalisation of lexical forms; scope of C18_F3)"""
    import rdflib
    if t[0] != 'L' or t[3] is None:
        return t
    import logging
    lg = logging.getLogger('rdflib.term')
    old = lg.level
    lg.setLevel(logging.CRITICAL)
    try:
        return t_rdflib(rdflib.Literal(t[1], datatype=rdflib.URIRef(t[3])))
    finally:
        lg.setLevel(old)


def has_quoted(qs):
    return any(x is not None and x[0] == 'Q' for q in qs for x in q)


# ----------------------------------------------------------------------------------------------------
# generator of mappings + data
# ----------------------------------------------------------------------------------------------------

NASTY = ['plain', 'two words', 'quo"te', "apo'strophe", 'back\\slash', 'line\nbreak', 'tab\there', 'cr\rhere', 'crlf\r\nx',
         'ünï', 'mañana', '日本語', '😀 smile', 'a\x0bvt', 'ff\x0cfeed', 'bs\x08x', 'nel\x85x', 'ls\u2028x', 'ps\u2029x', 'fs\x1cx',
         'dot.', '.', ' lead', 'trail ', 'end.\n', '<angle>', '{brace}', '#hash', '@at', '^^caret', '_:b', '<< q >>', 'x .', '\\n', '\\',
         '"', '""', 'e\u0301', '\U0001F600', '%41', 'a&b=c', 'semi;colon', '100%']
CANON_DEC = ['1.5', '2.0', '-3.25', '0.0', '10.0']
NONCANON_DEC = ['1.50', '2', '+3.5', '007.10', '.5']
BOOLS_CANON = ['true', 'false']
BOOLS_NONCANON = ['1', '0', 'TRUE']


def gen_rows(rng, n, noncanon):
    rows = []
    for i in range(n):
        rows.append({
            'id': f'r{i}' + rng.choice(['', 'x', 'Y9']),
            's': rng.choice(NASTY) + (rng.choice(NASTY) if rng.random() < 0.3 else ''),
            't': rng.choice(NASTY),
            'g': rng.choice(['g1', 'g2', 'g3']),
            'n': str(rng.randrange(0, 1000)),
            'd': rng.choice(NONCANON_DEC if noncanon else CANON_DEC),
            'b': rng.choice(BOOLS_NONCANON if noncanon else BOOLS_CANON),
            'e': rng.choice(['', 'v', rng.choice(NASTY)]),           # sometimes NULL
        })
    # unique ids
    for i, r in enumerate(rows):
        r['id'] = f'{r["id"]}_{i}'
    return rows


COLS = ['id', 's', 't', 'g', 'n', 'd', 'b', 'e']

POMS = {
    'plain': 'rr:predicate ex:plain ; rr:objectMap [ rml:reference "s" ]',
    'tpllit': 'rr:predicate ex:tpllit ; rr:objectMap [ rr:template "pre {s} mid {t}." ; rr:termType rr:Literal ]',
    'lang': 'rr:predicate ex:lang ; rr:objectMap [ rml:reference "t" ; rr:language "en-US" ]',
    'int': 'rr:predicate ex:int ; rr:objectMap [ rml:reference "n" ; rr:datatype xsd:integer ]',
    'dec': 'rr:predicate ex:dec ; rr:objectMap [ rml:reference "d" ; rr:datatype xsd:decimal ]',
    'bool': 'rr:predicate ex:bool ; rr:objectMap [ rml:reference "b" ; rr:datatype xsd:boolean ]',
    'custom': 'rr:predicate ex:custom ; rr:objectMap [ rml:reference "s" ; rr:datatype ex:dt ]',
    'bnode': 'rr:predicate ex:bnode ; rr:objectMap [ rr:template "o{id}" ; rr:termType rr:BlankNode ]',
    'sharedbn': 'rr:predicate ex:shared ; rr:objectMap [ rr:template "sh{g}" ; rr:termType rr:BlankNode ]',
    'iri': 'rr:predicate ex:iri ; rr:objectMap [ rr:template "http://ex/o/{s}" ]',
    'const': 'rr:predicate ex:const ; rr:object ex:C',
    'nullable': 'rr:predicate ex:nullable ; rr:objectMap [ rml:reference "e" ]',
}
POM_GRAPHS = ['', '', ' ; rr:graph ex:PG', ' ; rr:graph rr:defaultGraph', ' ; rr:graphMap [ rr:template "http://ex/pg/{g}" ]']
SUBJ = {
    'iri': 'rr:template "http://ex/s/{id}"',
    'bnode': 'rr:template "s{id}" ; rr:termType rr:BlankNode',
    'iri_nasty': 'rr:template "http://ex/s/{id}/{t}"',
}
SUBJ_GRAPHS = ['', '', ' ; rr:graphMap [ rr:template "http://ex/g/{g}" ]', ' ; rr:graph ex:SG', ' ; rr:graph rr:defaultGraph',
               ' ; rr:graph ex:SG ; rr:graphMap [ rr:template "http://ex/g/{g}" ]']
PREFIXES = ('@prefix rr: <http://www.w3.org/ns/r2rml#> .\n@prefix rml: <http://w3id.org/rml/> .\n@prefix ex: <http://ex/> .\n'
            '@prefix xsd: <http://www.w3.org/2001/XMLSchema#> .\n')


def flat_mapping(source, subj, sgraph, poms):
    body = ''.join(f'  rr:predicateObjectMap [ {POMS[p]}{g} ];\n' for p, g in poms)
    return (PREFIXES + f'<http://ex/TM1> a rr:TriplesMap; rml:logicalSource [ rml:source "{source}"; rml:referenceFormulation rml:CSV ];\n'
            f'  rr:subjectMap [ {SUBJ[subj]}{sgraph} ];\n{body}  .\n').replace(';\n  .\n', '.\n')


def star_mapping(source, variant, graphs):
    """RDF-star mappings in the RML vocabulary of /repo/test/rml-star"""
    ls = f'rml:logicalSource [ rml:source "{source}"; rml:referenceFormulation rml:CSV ]'
    g1 = ' ; rml:graphMap [ rml:template "http://ex/g/{g}" ]' if graphs else ''
    g2 = ' ; rml:graph ex:PG' if graphs else ''
    p = ('@prefix rml: <http://w3id.org/rml/> .\n@prefix ex: <http://ex/> .\n@prefix xsd: <http://www.w3.org/2001/XMLSchema#> .\n'
         '@prefix : <http://ex/tm/> .\n')
    inner_kind = 'rml:AssertedTriplesMap' if variant in ('subj_asserted',) else 'rml:NonAssertedTriplesMap'
    inner = (f':inner a {inner_kind} ; {ls} ;\n  rml:subjectMap [ rml:template "b{{id}}" ; rml:termType rml:BlankNode ] ;\n'
             '  rml:predicateObjectMap [ rml:predicate ex:p1 ; rml:objectMap [ rml:reference "s" ; rml:language "en" ] ] .\n')
    if variant in ('subj', 'subj_asserted'):
        return p + inner + (f':outer a rml:AssertedTriplesMap ; {ls} ;\n  rml:subjectMap [ rml:quotedTriplesMap :inner{g1} ] ;\n'
                            f'  rml:predicateObjectMap [ rml:predicate ex:q ; rml:objectMap [ rml:reference "t" ]{g2} ] .\n')
    if variant == 'obj':
        return p + inner + (f':outer a rml:AssertedTriplesMap ; {ls} ;\n  rml:subjectMap [ rml:template "http://ex/s/{{id}}"{g1} ] ;\n'
                            f'  rml:predicateObjectMap [ rml:predicate ex:q ; rml:objectMap [ rml:quotedTriplesMap :inner ]{g2} ] .\n')
    # nested: << << inner >> q "d"^^decimal >> as object, and quoted on both sides
    mid = (f':mid a rml:NonAssertedTriplesMap ; {ls} ;\n  rml:subjectMap [ rml:quotedTriplesMap :inner ] ;\n'
           '  rml:predicateObjectMap [ rml:predicate ex:q ; rml:objectMap [ rml:reference "n" ; rml:datatype xsd:integer ] ] .\n')
    return p + inner + mid + (f':outer a rml:AssertedTriplesMap ; {ls} ;\n  rml:subjectMap [ rml:quotedTriplesMap :inner{g1} ] ;\n'
                              f'  rml:predicateObjectMap [ rml:predicate ex:r ; rml:objectMap [ rml:quotedTriplesMap :mid ]{g2} ] .\n')


def make_case(ctx, kind, idx):
    """-> dict(kind, mapping text, rows, in_memory)"""
    rng = ctx.rng
    noncanon = kind == 'noncanonical'
    n = {'empty': 0, 'single': 1}.get(kind, rng.randrange(2, 7))
    rows = gen_rows(rng, n, noncanon)
    in_memory = kind == 'inmemory'
    d = os.path.join(ctx.tmp, f'case{idx}')
    os.makedirs(d, exist_ok=True)
    source = '{df}' if in_memory else os.path.join(d, 'data.csv')
    if kind == 'star':
        mapping = star_mapping(source, rng.choice(['subj', 'subj_asserted', 'obj', 'nested']), rng.random() < 0.6)
    elif kind == 'single':
        mapping = flat_mapping(source, rng.choice(['iri', 'bnode']), rng.choice(SUBJ_GRAPHS),
                               [(rng.choice(['plain', 'lang', 'int', 'bnode', 'const']), '')])
    elif kind == 'repro':
        # minimal inputs of the recorded findings: named graph (F1), "1.50"^^xsd:decimal (F2), "1"^^xsd:boolean (F3)
        rows = [{'id': 'r0', 's': 'x', 't': 'y', 'g': 'g1', 'n': '7', 'd': '1.50', 'b': '1', 'e': ''}]
        mapping = flat_mapping(source, 'iri', ' ; rr:graph ex:SG', [('dec', ''), ('bool', '')])
    else:
        names = list(POMS)
        if noncanon:
            chosen = ['dec', 'bool'] + rng.sample(['plain', 'lang', 'int', 'bnode'], 2)
        elif kind == 'bnodes':
            chosen = ['bnode', 'sharedbn', 'plain'] + rng.sample(['lang', 'iri', 'const'], 1)
        elif kind == 'graphs':
            chosen = rng.sample([x for x in names if x not in ('dec', 'bool')], rng.randrange(2, 6))
        else:
            chosen = rng.sample([x for x in names if x not in ('dec', 'bool')] + (['dec', 'bool'] if kind == 'basic' else []), rng.randrange(2, 7))
        if kind in ('basic', 'bnodes') and rng.random() < 0.5:
            sg, pg = '', ['']
        else:
            sg, pg = rng.choice(SUBJ_GRAPHS), POM_GRAPHS
        subj = 'bnode' if kind == 'bnodes' else rng.choice(list(SUBJ))
        mapping = flat_mapping(source, subj, sg, [(c, rng.choice(pg)) for c in chosen])
    mp = os.path.join(d, 'm.ttl')
    with open(mp, 'w', encoding='utf-8') as f:
        f.write(mapping)
    if not in_memory:
        with open(os.path.join(d, 'data.csv'), 'w', encoding='utf-8', newline='') as f:
            w = csv.DictWriter(f, COLS, quoting=csv.QUOTE_ALL, lineterminator='\n')
            w.writeheader()
            for r in rows:
                w.writerow(r)
    return {'kind': kind, 'mapping': mapping, 'rows': rows, 'in_memory': in_memory, 'mapping_path': mp}


def config_for(case, fmt):
    return (f'[CONFIGURATION]\noutput_format={fmt}\nnumber_of_processes=1\nlogging_level=CRITICAL\n'
            f'[DS]\nmappings={case["mapping_path"]}\n')


def python_source_for(case):
    if not case['in_memory']:
        return None
    import pandas as pd
    rows = [{k: (v if v != '' else None) for k, v in r.items()} for r in case['rows']]
    return {'df': pd.DataFrame(rows, columns=COLS)}


# ----------------------------------------------------------------------------------------------------
# running the entry points with the parser calls captured
# ----------------------------------------------------------------------------------------------------

class StoreProxy:
    """stands in for pyoxigraph.Store inside morph_kgc: records what reaches bulk_load, delegates everything"""
    captured = []

    def __init__(self, *a, **kw):
        import pyoxigraph
        self._s = pyoxigraph.Store(*a, **kw)

    def bulk_load(self, input=None, mime_type=None, *a, **kw):   # noqa: A002
        data = input
        if hasattr(input, 'read'):
            data = input.read()
            input = io.BytesIO(data)   # noqa: A001
        StoreProxy.captured.append({'data': data, 'format': mime_type})
        return self._s.bulk_load(input, mime_type, *a, **kw)

    def load(self, input=None, mime_type=None, *a, **kw):   # noqa: A002
        data = input
        if hasattr(input, 'read'):
            data = input.read()
            input = io.BytesIO(data)   # noqa: A001
        StoreProxy.captured.append({'data': data, 'format': mime_type})
        return self._s.load(input, mime_type, *a, **kw)

    def __getattr__(self, n):
        return getattr(self._s, n)

    def __iter__(self):
        return iter(self._s)

    def __len__(self):
        return len(self._s)

    def __contains__(self, q):
        return q in self._s


def run_entry_points(cfg, python_source_factory):
    """-> dict with S, graph / store observations, captured parser inputs, exceptions (strings)"""
    import rdflib
    import morph_kgc
    out = {'errors': {}}
    try:
        out['S'] = set(morph_kgc.materialize_set(cfg, python_source_factory()))
    except Exception as e:   # noqa: BLE001
        out['errors']['materialize_set'] = f'{type(e).__name__}: {e}'[:300]
        return out
    # rdflib
    cap = []
    orig_parse = rdflib.Graph.parse

    def cap_parse(self, *a, **kw):
        if not getattr(cap_parse, 'busy', False):
            cap.append({'data': kw.get('data'), 'format': kw.get('format'), 'args': len(a)})
        cap_parse.busy = True
        try:
            return orig_parse(self, *a, **kw)
        finally:
            cap_parse.busy = False
    rdflib.Graph.parse = cap_parse
    try:
        cap.clear()                                        # the mapping files are parsed with Graph.parse as well
        g = None
        try:
            g = morph_kgc.materialize(cfg, python_source_factory())
        except Exception as e:   # noqa: BLE001
            out['errors']['materialize'] = f'{type(e).__name__}: {e}'[:300]
    finally:
        rdflib.Graph.parse = orig_parse
    out['rdflib_calls'] = [c for c in cap if c['format'] not in (None, 'turtle', 'ttl', 'n3') and c['data'] is not None]
    if g is not None:
        out['graph_type'] = type(g).__module__ + '.' + type(g).__name__
        ds = rdflib.Dataset(store=g.store)
        quads = []
        for s, p, o, c in ds.quads():
            cid = None if (c is None or c == g.identifier or str(c) == 'urn:x-rdflib:default') else t_rdflib(c)
            quads.append((t_rdflib(s), t_rdflib(p), t_rdflib(o), cid))
        out['rdflib_store'] = set(quads)
        out['rdflib_store_len'] = len(quads)
        out['rdflib_graph_api'] = {(t_rdflib(s), t_rdflib(p), t_rdflib(o), None) for s, p, o in g}
        out['rdflib_len'] = len(g)
    # oxigraph
    real_store = morph_kgc.Store
    StoreProxy.captured = []
    morph_kgc.Store = StoreProxy
    st = None
    try:
        try:
            st = morph_kgc.materialize_oxigraph(cfg, python_source_factory())
        except Exception as e:   # noqa: BLE001
            out['errors']['materialize_oxigraph'] = f'{type(e).__name__}: {e}'[:300]
    finally:
        morph_kgc.Store = real_store
    out['ox_calls'] = list(StoreProxy.captured)
    if st is not None:
        out['store_type'] = type(st).__name__
        out['ox_store'] = {q_ox(q) for q in st}
        out['ox_len'] = len(st)
    return out


def expected_quads(S):
    """direct oracle: every string alone is one statement; the set as a document under the check's own framing"""
    import pyoxigraph as ox
    bad = []
    for s in S:
        try:
            qs = list(ox.parse(io.BytesIO((s + ' .\n').encode('utf-8')), 'application/n-quads'))
            if len(qs) != 1:
                bad.append(s)
        except Exception:   # noqa: BLE001
            bad.append(s)
    if bad:
        return None, bad
    doc = ''.join(s + ' .\n' for s in sorted(S))
    return {q_ox(q) for q in ox.parse(io.BytesIO(doc.encode('utf-8')), 'application/n-quads')}, []


def short(x, n=400):
    s = x if isinstance(x, str) else json.dumps(x, ensure_ascii=True, default=str)
    return s[:n]


def compare(ctx, name, E, O, norm, finding, inp):
    """expected vs observed up to bnode renaming; residual differences explained by the loader's literal normalisation -> finding"""
    cE, dE = canon(E)
    cO, dO = canon(O)
    if not (dE and dO):
        ctx.bump('bnode colouring not discrete (compared by invariant)')
    if cE == cO:
        return True
    En = map_quads(E, norm)
    cEn, _ = canon(En)
    if cEn == cO and En != E:
        changed = sorted({repr(t) for q in E for t in q if t is not None and map_term(t, norm) != t})[:3]
        ctx.violation(f'{name}: typed literals are stored with a normalised lexical form, e.g. {changed}', inp, finding=finding)
        return True
    missing = [q for q in cEn if q not in cO][:3]
    extra = [q for q in cO if q not in cEn][:3]
    ctx.violation(f'{name} does not hold exactly the statements of materialize_set: expected {len(E)} got {len(O)}; '
                  f'missing {short(missing)} extra {short(extra)}', inp)
    return False


def check_case(ctx, drv, shapes, case, fmt, open_ids):
    cfg = config_for(case, fmt)
    inp = {'kind': case['kind'], 'format': fmt, 'mapping': case['mapping'], 'rows': case['rows'], 'in_memory': case['in_memory']}
    r = run_entry_points(cfg, lambda: python_source_for(case))
    if 'materialize_set' in r['errors']:
        ctx.bump('skipped: materialize_set raises')
        ctx.notes.append('materialize_set raised on a generated case: ' + r['errors']['materialize_set'][:200])
        return
    S = r['S']
    E, bad = expected_quads(S)
    key = {'format': fmt, 'S': hashlib.sha256('\x00'.join(sorted(S)).encode('utf-8', 'surrogatepass')).hexdigest()}
    if E is None:
        ctx.bump('skipped: a string of the set is not a valid statement (C05 scope)')
        ctx.case(key, nontrivial=False, kind='invalid-statement')
        return
    star = has_quoted(E)
    named = any(q[3] is not None for q in E)
    ctx.case(key, nontrivial=True, kind=f'{case["kind"]}/{fmt}' + ('/named-graphs' if named else '') + ('/star' if star else ''),
             sample={'kind': case['kind'], 'format': fmt, 'statements': len(S), 'first': sorted(S)[:2]})
    ctx.traces_validated += 1
    if len(E) != len(S):
        ctx.bump('distinct strings denote the same statement')

    # ---------------- direct oracle: Oxigraph --------------------------------------------------------
    if 'materialize_oxigraph' in r['errors']:
        ctx.violation(f'materialize_oxigraph raises {r["errors"]["materialize_oxigraph"]} where materialize_set returns {len(S)} statements', inp)
    else:
        if r.get('store_type') not in ('StoreProxy', 'Store'):
            ctx.violation(f'materialize_oxigraph returns a {r.get("store_type")}, not a pyoxigraph Store', inp)
        compare(ctx, 'Oxigraph store', E, r['ox_store'], ox_store_norm, 'C18_F2' if 'C18_F2' in open_ids else None, inp)
        if not S and (r['ox_len'] != 0 or r['ox_calls']):
            ctx.violation(f'empty result: store has {r["ox_len"]} quads, parser called {len(r["ox_calls"])} times', inp)

    # ---------------- direct oracle: rdflib ----------------------------------------------------------
    if star:
        ctx.bump('rdflib skipped: RDF-star (rdflib cannot parse << >>)')
        if 'materialize' not in r['errors']:
            ctx.notes.append('materialize() did not raise on an RDF-star result')
    elif 'materialize' in r['errors']:
        ctx.violation(f'materialize raises {r["errors"]["materialize"]} where materialize_set returns {len(S)} statements', inp)
    else:
        if r.get('graph_type') != 'rdflib.graph.Graph':
            ctx.violation(f'materialize returns a {r.get("graph_type")}, not an rdflib.Graph', inp)
        compare(ctx, 'rdflib graph (store level)', E, r['rdflib_store'], rdflib_norm, 'C18_F3' if 'C18_F3' in open_ids else None, inp)
        if not S and (r['rdflib_len'] != 0 or r['rdflib_store_len'] != 0 or r['rdflib_calls']):
            ctx.violation(f'empty result: graph has {r["rdflib_len"]} triples / {r["rdflib_store_len"]} quads, parser called '
                          f'{len(r["rdflib_calls"])} times', inp)
        # the other reading: what the returned Graph object itself shows
        En = map_quads(E, rdflib_norm)
        default_part, _ = canon({q for q in En if q[3] is None})
        api, _ = canon(r['rdflib_graph_api'])
        if named and fmt == 'N-QUADS':
            if api == default_part and len(api) < len(canon(En)[0]):
                ctx.violation(f'Graph object API shows {len(api)} of {len(En)} statements (named-graph quads only in graph.store)', inp,
                              finding='C18_F1' if 'C18_F1' in open_ids else None)
            elif api != canon({(q[0], q[1], q[2], None) for q in En})[0]:
                ctx.violation('Graph object API shows neither all statements nor exactly the default-graph ones', inp)
        elif api != default_part:
            ctx.violation(f'iterating the returned Graph gives {len(api)} triples, expected {len(default_part)}', inp)

    # ---------------- correspondence: framing -----------------------------------------------------------
    if drv is None:
        return
    for loader, calls, decode in (('rdflib', r.get('rdflib_calls'), lambda d: d if isinstance(d, str) else d.decode('utf-8')),
                                  ('oxigraph', r.get('ox_calls'), lambda d: d.decode('utf-8') if isinstance(d, (bytes, bytearray)) else d)):
        if calls is None or (loader == 'rdflib' and 'materialize' in r['errors'] and not star) or \
                (loader == 'oxigraph' and 'materialize_oxigraph' in r['errors']):
            continue
        sh = shapes[loader]
        model_empty = drv.call('frame', loader=loader, lines=[])
        if not S:
            impl = None if not calls else 'called'
            if (model_empty is None) != (impl is None):
                ctx.disagree(f'I18 frame/{loader}', {'lines': []}, model_empty, impl)
            continue
        if len(calls) != 1:
            ctx.disagree(f'I18 frame/{loader}', {'n': len(S)}, 'one parser call', f'{len(calls)} parser calls')
            continue
        try:
            text = decode(calls[0]['data'])
        except Exception as e:   # noqa: BLE001
            ctx.disagree(f'I18 frame/{loader}', {'n': len(S)}, 'utf-8 text', repr(e))
            continue
        # recover the iteration order of the set from the text with the *generated* separator / terminator
        sep, term = sh['sep'], sh['term']
        body = text[:-len(term)] if (term and text.endswith(term)) else text
        order = body.split(sep) if sep else [body]
        if sorted(order) != sorted(S):
            order = sorted(S)
        model = drv.call('frame', loader=loader, lines=order)
        impl = {'text': text, 'format': calls[0]['format']}
        if model != impl:
            ctx.disagree(f'I18 frame/{loader}', {'lines': order[:6], 'n': len(order)}, short(model), short(impl))
        ctx.bump(f'frame correspondence/{loader}')
        if loader == 'oxigraph' or not star:
            parser_correspondence(ctx, drv, text, loader, star)


def parser_correspondence(ctx, drv, text, loader, star):
    """driver parse_doc vs the third-party parsers on the same text, and on damaged variants"""
    import pyoxigraph as ox
    import rdflib
    variants = [('as-is', text)]
    if loader == 'oxigraph':
        lines = text.split('\n')
        variants += [('no-final-dot', text[:-1] if text.endswith('.') else text + 'x'),
                     ('sep-without-dot', text.replace('.\n', '\n')),
                     ('with-final-eol', text + '\n'),
                     ('crlf', text.replace('\n', '\r\n')),
                     ('blank-lines', text.replace('\n', '\n\n')),
                     ('dot-only', '.'),
                     ('merged-lines', ' '.join(lines)),
                     ('canonical', ''.join(ln[:-1] + ' .\n' for ln in lines if ln.endswith('.')))]
    for vname, doc in variants:
        m = drv.call('parse_doc', text=doc)
        mq = None if m is None else canon({q_lean(x) for x in m})[0]
        mcount = None if m is None else len(m)
        try:
            oq_list = [q_ox(q) for q in ox.parse(io.BytesIO(doc.encode('utf-8')), 'application/n-quads')]
            oq, ocount = canon(set(oq_list))[0], len(oq_list)
        except Exception:   # noqa: BLE001
            oq, ocount = None, None
        ctx.bump(f'parse_doc vs pyoxigraph/{vname}')
        if mq != oq or mcount != ocount:
            ctx.disagree('I18 parse_doc vs pyoxigraph.parse', {'variant': vname, 'text': doc[:600]}, short(mq), short(oq))
        if not star and vname in ('as-is', 'no-final-dot', 'sep-without-dot', 'dot-only', 'canonical', 'with-final-eol'):
            try:
                import logging
                logging.getLogger('rdflib.term').setLevel(logging.CRITICAL)
                ds = rdflib.Dataset()
                ds.parse(data=doc, format='nquads')
                rq_list = [(t_rdflib(s), t_rdflib(p), t_rdflib(o),
                            None if (c is None or c == ds.default_context.identifier or str(c) == 'urn:x-rdflib:default') else t_rdflib(c))
                           for s, p, o, c in ds.quads()]
                rq = canon(set(rq_list))[0]
            except Exception:   # noqa: BLE001
                rq = None
            ctx.bump(f'parse_doc vs rdflib/{vname}')
            mqn = None if m is None else canon(map_quads({q_lean(x) for x in m}, rdflib_norm))[0]
            if mqn != rq:
                ctx.disagree('I18 parse_doc vs rdflib nquads', {'variant': vname, 'text': doc[:600]}, short(mqn), short(rq))


KINDS = ['repro', 'empty', 'single', 'basic', 'graphs', 'star', 'bnodes', 'inmemory', 'noncanonical', 'star', 'graphs', 'basic']


def large_bnode_case(ctx):
    """A result far larger than any plausible loading batch (15 600 statements) whose blank nodes each occur in three statements:
    however the loaders are fed (one document, chunks, streams), a blank node of the set must stay ONE node of the graph / store."""
    import rdflib
    import morph_kgc
    n = 5200
    d = os.path.join(ctx.tmp, 'large')
    os.makedirs(d, exist_ok=True)
    with open(os.path.join(d, 'data.csv'), 'w', encoding='utf-8') as f:
        f.write('id,a,b\n' + ''.join(f'{i},a{i},b{i % 7}\n' for i in range(n)))
    mp = os.path.join(d, 'm.ttl')
    with open(mp, 'w', encoding='utf-8') as f:
        f.write(f'''@prefix rr: <http://www.w3.org/ns/r2rml#> . @prefix rml: <http://semweb.mmlab.be/ns/rml#> . @prefix ql: <http://semweb.mmlab.be/ns/ql#> .
<http://ex/TM> rml:logicalSource [ rml:source "{os.path.join(d, 'data.csv')}"; rml:referenceFormulation ql:CSV ];
  rr:subjectMap [ rr:template "n{{id}}"; rr:termType rr:BlankNode ];
  rr:predicateObjectMap [ rr:predicate <http://ex/a>; rr:objectMap [ rml:reference "a" ] ];
  rr:predicateObjectMap [ rr:predicate <http://ex/b>; rr:objectMap [ rml:reference "b" ] ];
  rr:predicateObjectMap [ rr:predicate <http://ex/t>; rr:object <http://ex/T> ] .
''')
    cfg = f'[CONFIGURATION]\nnumber_of_processes=1\nlogging_level=CRITICAL\n[DS]\nmappings={mp}\n'
    inp = {'kind': 'large-bnodes', 'rows': n}
    ctx.case(inp, nontrivial=True, kind='large result with shared blank nodes')
    for name, run_ in (('materialize', lambda: morph_kgc.materialize(cfg)), ('materialize_oxigraph', lambda: morph_kgc.materialize_oxigraph(cfg))):
        try:
            g = run_()
        except Exception as e:   # noqa: BLE001
            ctx.violation(f'{name} fails on a {3 * n}-statement result: {type(e).__name__}: {str(e)[:200]}', inp)
            continue
        per_subject = {}
        if name == 'materialize':
            for s_, p_, o_ in g:
                per_subject.setdefault(s_, set()).add((p_, o_))
        else:
            for q in g:
                per_subject.setdefault(q.subject, set()).add((q.predicate, q.object))
        total = sum(len(v) for v in per_subject.values())
        if total != 3 * n or len(per_subject) != n or any(len(v) != 3 for v in per_subject.values()):
            ctx.violation(f'{name}: {3 * n} statements about {n} blank nodes (three each) are loaded as {total} statements about '
                          f'{len(per_subject)} subjects (blank nodes of the set split or merged by the loader)', inp)


def run(ctx, lean, findings):
    drv = ctx.get_driver() if ctx.model_available else None
    open_ids = {f['id'] for f in findings if f.get('status') == 'open'}
    gen = lean['gen'].get('loader', {}).get('shapes', {})
    shapes = {'rdflib': gen.get('materialize', {}), 'oxigraph': gen.get('materialize_oxigraph', {})}
    if drv:
        ms = drv.call('loader_shapes')
        for k in ('rdflib', 'oxigraph'):
            for f in ('sep', 'term', 'format'):
                if (shapes[k].get(f) or '') != ms[k][f]:
                    ctx.disagree('I18 generated shape', {'loader': k, 'field': f}, ms[k][f], shapes[k].get(f))
    else:
        ctx.notes.append('driver unavailable: framing / parser correspondence skipped, direct oracle only')
    budget = ctx.budget(42, 520) * (2 if (ctx.escalate and ctx.tier == 'quick') else 1)
    t0 = ctx.elapsed()
    idx = 0
    while True:
        kind = KINDS[idx] if idx < len(KINDS) else ctx.rng.choice(['basic', 'graphs', 'star', 'bnodes', 'single', 'empty', 'noncanonical', 'inmemory'])
        case = make_case(ctx, kind, idx)
        for fmt in (('N-QUADS', 'N-TRIPLES') if idx % 2 == 0 else ('N-TRIPLES', 'N-QUADS')):
            check_case(ctx, drv, shapes, case, fmt, open_ids)
        idx += 1
        # the first eight kinds are always run; afterwards until the budget is used
        if idx >= 8 and ctx.elapsed() - t0 > budget:
            break
        if idx >= ctx.budget(200, 4000):
            break
    ctx.notes.append(f'{idx} generated cases x 2 formats')
    large_bnode_case(ctx)


def replay(ctx, data):
    """re-run the recorded case on the current tree: still failing = the direct oracle reports a non-listed violation"""
    inp = data['input']
    if inp.get('kind') == 'large-bnodes':
        before = len(ctx.violations)
        large_bnode_case(ctx)
        return len(ctx.violations) > before
    if 'mapping' not in inp:
        return True
    d = os.path.join(ctx.tmp, 'replay')
    os.makedirs(d, exist_ok=True)
    mapping = inp['mapping']
    old_csv = None
    for tok in mapping.split('"'):
        if tok.endswith('data.csv'):
            old_csv = tok
    if old_csv:
        mapping = mapping.replace(old_csv, os.path.join(d, 'data.csv'))
    mp = os.path.join(d, 'm.ttl')
    with open(mp, 'w', encoding='utf-8') as f:
        f.write(mapping)
    with open(os.path.join(d, 'data.csv'), 'w', encoding='utf-8', newline='') as f:
        w = csv.DictWriter(f, COLS, quoting=csv.QUOTE_ALL, lineterminator='\n')
        w.writeheader()
        for r in inp['rows']:
            w.writerow(r)
    case = {'kind': inp.get('kind', 'replay'), 'mapping': mapping, 'rows': inp['rows'], 'in_memory': inp.get('in_memory', False), 'mapping_path': mp}
    from vlib import load_known_findings
    open_ids = {f['id'] for f in load_known_findings(PROP) if f.get('status') == 'open'}
    check_case(ctx, None, {}, case, inp['format'], open_ids)
    return any(not v['finding'] for v in ctx.violations)
