"""C13 — RDF-star statements quote exactly the triples their quoted maps generate."""
import json
import os
import subprocess
import sys

import coregen as cg
import stargen as sg

PROP = 'C13'
LEAN_TARGETS = ['MorphKgc.Props.C13', 'MorphKgc.Props.C13Now', 'MorphKgc.Props.C13Fix', 'MorphKgc.Props.C13Doc']
GEN_KEYS = ['star', 'escape']
M = 'MorphKgc.Props.C13'
THEOREMS = [{'name': f'Props.C13.{n}', 'module': M} for n in [
    'gen_shape', 'C13_quoted_partial', 'C13_fuel_sufficient', 'C13_quoted_embeds_quoted_map_triple', 'C13_nonasserted',
    'C13_asserted_both', 'C13_partition_independent', 'C13_any_labelling', 'C13_spec_depth_stable', 'C13_expand_step',
    'C13_expand_one_rule_per_quoted_rule', 'C13_expand_one_rule_per_quoted_object', 'C13_expand_one_rule_per_pair',
    'C13_expand_fixpoint', 'C13_F1_placeholder_frame_replaces_rows', 'C13_F1_fixed', 'C13_F1_spec', 'C13_F1_outside_hypotheses',
    'C13_F2_second_merge_overlaps', 'C13_F2_spec', 'C13_F3_index_name_ambiguous', 'C13_F2_F3_fixed', 'C13_F2_F3_outside_hypotheses']] + [
    {'name': 'Model.Star.fresh_all', 'module': 'MorphKgc.Lemmas.StarInduction'},
    {'name': 'Model.Star.line_refines', 'module': 'MorphKgc.Lemmas.StarLine'},
    {'name': 'Model.Star.flatAt_nil_of_null', 'module': 'MorphKgc.Lemmas.StarNull'},
    {'name': 'Model.Star.quotedStep_post', 'module': 'MorphKgc.Lemmas.StarStep'},
    {'name': 'Model.Star.expandStep_fixpoint', 'module': 'MorphKgc.Lemmas.StarExpand'},
    {'name': 'Model.Star.evalStar_relabel', 'module': 'MorphKgc.Lemmas.StarRelabel'}]
# hypothesis-free theorems of the repaired shapes the translator reads from /repo now (Props/C13Now.lean)
THEOREMS += [{'name': f'Props.C13.{n}', 'module': 'MorphKgc.Props.C13Now'} for n in ['C13_current_all_const', 'C13_F1_current', 'C13_F4_no_reference_no_rows', 'C13_F4_fixed', 'C13_F4_spec', 'C13_current_no_ref_placeholder', 'C13_F4_current']]
THEOREMS += [{'name': f'Props.C13Fix.{n}', 'module': 'MorphKgc.Props.C13Fix'} for n in ['mem_step', 'C13_expand_measure', 'settled_fixpoint', 'C13_expand_terminates', 'C13_expand_result', 'C13_normalizeDocStar_terminates', 'C13_cyclic_outside_hypotheses', 'C13_cyclic_grows', 'C13_cyclic_no_fixpoint']]
THEOREMS += [{'name': f'Props.C13Doc.{n}', 'module': 'MorphKgc.Props.C13DocLemmas'} for n in ['C13_flatLines_of_tree', 'C13_stmtsOf_of_trees', 'C13_spec_flat_eq_doc']]
THEOREMS += [{'name': f'Props.C13Doc.{n}', 'module': 'MorphKgc.Props.C13Doc'} for n in ['C13_doc_conditions', 'C13_doc_terminates', 'C13_doc_dup_names_counter', 'C13_document_spec_partial', 'C13_document_level_partial']]
RULE = ('abstract RML-star documents (1-3 elementary triples maps with 0-3 predicate-object maps, classes, graph maps; 1-3 quoting maps: quoted '
        'subject, quoted object, both; with 0, 1 or 2 join conditions; quoting depth up to 3; asserted / non-asserted / untyped maps) x CSV '
        'tables of 0-6 rows with duplicate and NULL join keys and NULLs in every column, plus 12 fixed documents covering each nesting '
        'shape; every case is evaluated by the real engine under a partitioning mode and output format drawn per case and compared with '
        '(oracle 1) an independent Python reading of the generation rules (nested loops over rows and joined rows), (oracle 2, a third of '
        'the cases) pyoxigraph parsing of every emitted line: every embedded triple must be a statement of the same document materialised '
        'with every map asserted, every line a line of that run, (oracle 3, a quarter) the other two partitioning modes; (I7) Model.Star.evalAllStar on the REAL '
        'rule table, (command line) python -m morph_kgc on fixed documents, output file vs oracle 1, (I6) Model.Star.normalizeDocStar vs the real rule table up to numbering, (I6x) Model.Star.expandStep vs every real call '
        'of _expand_rml_star exactly (ids and order), Spec.Star.evalDoc vs the Python reading. '
        'non-trivial = the result contains at least one quoted triple; distinct = hash of (document, tables, format, mode).')
TRUSTED_BASE = [
    'modelled, not verified: rdflib Turtle parser and SPARQL engine behind RML_PARSING_QUERY (I6 compares the rule table), pandas '
    'set_index/join/merge/add_prefix/drop/concat/drop_duplicates as transcribed in Model/Star.lean and Model/StarNormalize.lean (I6x, I7 compare)',
    'Spec/Star.lean: reading of the RML-star generation rules (quoted triples maps, join conditions, non-asserted maps); '
    'tools/stargen.py:PySpec as the second, independent reading used by the direct oracle',
    'pyoxigraph N-Quads-star parser (oracle 2)',
]
ASSUMPTIONS = ['source column names are disjoint from the scratch column names of the engine (subject, predicate, object, triple, graph, '
               'reference_results, lang_datatype, keep_subject<n>, placeholder) and do not start with parent_',
               'a quoted map without join condition has the logical source of the quoting map (RML-star requires a join condition otherwise)',
               'quoting cycles are outside the property (RML-star forbids them); the real normaliser is run on one under a timeout and the outcome noted',
               'term maps are drawn so that findings of C01/C05 (escaped braces, reference-valued IRIs with reserved characters) are out of reach']

MODES = ['NO', 'PARTIAL-AGGREGATIONS', 'MAXIMAL']
FMTS = ['N-TRIPLES', 'N-QUADS']


# ----------------------------------------------------------------------------------------------------------------------
# capture of every real `_expand_rml_star` call (before / after), for the exact correspondence I6x
# ----------------------------------------------------------------------------------------------------------------------

EXPAND_CALLS = []


def install_expand_capture():
    from morph_kgc.mapping import mapping_parser as mpm
    cls = mpm.MappingParser
    if getattr(cls, '_verif_c13', False):
        return
    orig = cls._expand_rml_star

    def wrapper(self):
        before = self.rml_df.copy()
        orig(self)
        EXPAND_CALLS.append((before, self.rml_df.copy()))
    cls._expand_rml_star = wrapper
    cls._verif_c13 = True


def triage(doc, kind, res):
    if kind == 'exc':
        if res.startswith('KeyError') and sg.scope_F1(doc):
            return 'C13_F1'
        if res.startswith('ValueError') and 'columns overlap but no suffix specified' in res and sg.scope_F2(doc):
            return 'C13_F2'
        if res.startswith('ValueError') and 'is both an index level and a column label' in res and sg.scope_F3(doc):
            return 'C13_F3'
    return None


def canon_rules(rules):
    """the rule table up to the `#TM<i>` numbering: a quoted reference is replaced by the canonical form of the rule it names"""
    by = {}
    for r in rules:
        by.setdefault(r['triples_map_id'], r)

    def c(r, depth=0):
        d = {k: v for k, v in r.items() if k not in ('triples_map_id', 'mapping_partition', 'source_type', 'logical_source_type', 'iterator')}
        for pos in ('subject', 'object'):
            if r.get(f'{pos}_map_type') == 'quoted':
                q = by.get(r[f'{pos}_map_value'])
                d[f'{pos}_map_value'] = c(q, depth + 1) if q is not None and depth < 10 else '?'
            d[f'{pos}_join'] = sorted(map(tuple, d.get(f'{pos}_join') or []))
        for k in ('lang_datatype', 'lang_datatype_map_type'):
            d.setdefault(k, None)
        return json.dumps(d, sort_keys=True, ensure_ascii=True)
    # as a set: two textually identical object maps (distinct blank nodes) give two rows in the real table that differ only in the
    # blank-node label inside the join-condition dictionary
    return sorted({c(r) for r in rules})


def embedded_triples(term, ox):
    """all triples embedded (at any depth) in a pyoxigraph term"""
    out = []
    if isinstance(term, ox.Triple):
        out.append(term)
        out += embedded_triples(term.subject, ox)
        out += embedded_triples(term.object, ox)
    return out


def oracle_parsed(ctx, case, fmt, mode, res, inp):
    """oracle 2: parse every line with pyoxigraph; every embedded triple must be a statement of the document materialised with
    EVERY map asserted (the quoted maps materialised as asserted maps on the same data), and every line a line of that run"""
    import pyoxigraph as ox
    allp = case.write(all_asserted=True, path=os.path.join(case.dir, 'm_all.ttl'))
    k2, r2 = cg.run_engine(cg.config_text(allp, fmt=fmt, partitioning=mode))
    ctx.traces_validated += 1
    if k2 != 'ok':
        ctx.bump('oracle 2 skipped: the all-asserted run failed')
        return
    text = ''.join(l + ' .\n' for l in res + r2)
    try:
        quads = list(ox.parse(text.encode('utf-8'), 'application/n-quads'))
    except Exception as e:  # noqa
        ctx.violation(f'an emitted line is not N-Quads-star: {str(e)[:160]}', inp, finding=None)
        return
    if len(quads) != len(res) + len(r2):
        ctx.violation('pyoxigraph did not read one statement per emitted line', inp, finding=None)
        return
    own, alls = quads[:len(res)], quads[len(res):]
    asserted = {(str(q.subject), str(q.predicate), str(q.object)) for q in alls}
    for line, q in zip(res, own):
        for t in embedded_triples(q.subject, ox) + embedded_triples(q.object, ox):
            if (str(t.subject), str(t.predicate), str(t.object)) not in asserted:
                ctx.violation(f'the quoted triple {t} of line {line!r} is not generated by any triples map of the document '
                              'materialised as an asserted map on the same data', inp, finding=None)
                return
    extra = [l for l in res if l not in set(r2)]
    if extra:
        ctx.violation(f'line {extra[0]!r} is not a line of the all-asserted run', inp, finding=None)


def one_case(ctx, drv, case, fmt, mode, do_parsed=False, do_modes=False, kind_label='random'):
    EXPAND_CALLS.clear()
    kind, res = cg.run_engine(cg.config_text(case.mapping, fmt=fmt, partitioning=mode))
    inp = case.input(fmt=fmt, mode=mode)
    if kind == 'nonstr':
        # a float nan (or another non-string) in the result set: a statement was assembled from a missing cell
        ctx.case(case.key() + [fmt, mode], nontrivial=True, kind=f'{kind_label} {fmt} {mode}')
        ctx.violation(f'materialize_set returned a non-string statement: {[x for x in res if "<<" not in x or "nan" in x][:3]!r}', inp, finding=None)
        return
    exp = sg.PySpec(case.doc, case.tables).lines(fmt)
    feats = sg.features(case.doc)
    ctx.case(case.key() + [fmt, mode], nontrivial=(kind == 'ok' and any('<<' in x for x in res)), kind=f'{kind_label} {fmt} {mode}',
             sample={'name': case.name, 'features': feats, 'fmt': fmt, 'mode': mode, 'lines': (res[:2] if kind == 'ok' else res)})
    for f in feats:
        ctx.bump('feature ' + f)
    ctx.traces_validated += 1
    tj = case.tables_json()
    ddoc = sg.doc_for_driver(case.doc)
    in_f2 = sg.scope_F2(case.doc) or sg.scope_F3(case.doc)
    in_f3 = sg.scope_F3(case.doc)
    if drv:
        # the Lean specification vs the independent Python reading
        sp = sorted(drv.call('c13_spec', doc=ddoc, tables=tj, fmt=fmt, safe=''))
        if sp != exp:
            ctx.disagree('Spec.Star.evalDoc vs the independent Python reading of the generation rules', inp,
                         [x for x in sp if x not in exp][:3], [x for x in exp if x not in sp][:3])
        if 'rml_df' in cg.LAST_RULES:
            rules = cg.rules_to_json(cg.LAST_RULES['rml_df'])
            # I6: normaliser model vs the real rule table, up to numbering
            nm = drv.call('c13_normalize', doc=ddoc)
            if 'ok' not in nm:
                ctx.disagree('I6 retrieve_mappings vs Model.Star.normalizeDocStar', inp, nm, f'{len(rules)} rules')
            else:
                a, b = canon_rules(nm['ok']), canon_rules(rules)
                if a != b:
                    ctx.disagree('I6 retrieve_mappings vs Model.Star.normalizeDocStar', inp, [x for x in a if x not in b][:2], [x for x in b if x not in a][:2])
            # I6x: every real call of _expand_rml_star, exactly
            for before, after in EXPAND_CALLS[:6]:
                bj, aj = cg.rules_to_json(before), cg.rules_to_json(after)
                m = drv.call('c13_expand', rules=bj)
                want = drv.call('c13_echo', rules=aj)
                if m.get('ok') != want:
                    ctx.disagree('I6x _expand_rml_star vs Model.Star.expandStep', {'before': bj}, str(m)[:300], str(want)[:300])
                    break
                ctx.bump('I6x expand calls compared')
            # I7: materializer model on the real rule table
            m = drv.call('c13_eval', rules=rules, tables=tj, fmt=fmt, safe='', grouped=(mode != 'NO'))
            if kind == 'ok':
                if in_f3 and m.get('err') == 'ambiguous':
                    ctx.bump('I7 skipped: row-dependent index name (scope of C13_F3)')
                elif 'ok' not in m or sorted(m['ok']) != res:
                    ctx.disagree('I7 materialize_set vs Model.Star.evalAllStar(real rules)', inp, str(m)[:300], res[:3])
            else:
                cls = res.split(':')[0]
                want = {'keyerror': 'KeyError', 'overlap': 'ValueError', 'ambiguous': 'ValueError', 'norule': 'IndexError'}
                if 'err' not in m:
                    # the index name an inner join leaves is row-dependent in pandas: outside the model inside the scope of C13_F2
                    if not (in_f3 and 'is both an index level' in res):
                        ctx.disagree('I7 materialize_set raises where Model.Star.evalAllStar does not', inp, 'ok', res)
                elif want.get(m['err']) != cls and not in_f2:
                    ctx.disagree('I7 exception class', inp, m, res)
        elif kind == 'exc' and not triage(case.doc, kind, res):
            ctx.bump('no rule table captured')
    # oracle 1: the generation rules
    if kind != 'ok':
        ctx.violation(f'materialization of a legal RML-star mapping failed: {res}', inp, finding=triage(case.doc, kind, res))
        return
    if res != exp:
        missing = [x for x in exp if x not in res][:3]
        extra = [x for x in res if x not in exp][:3]
        ctx.violation(f'result differs from the RML-star generation rules: missing {missing!r}, extra {extra!r}', inp, finding=None)
        return
    if do_parsed and any('<<' in x for x in res):
        oracle_parsed(ctx, case, fmt, mode, res, inp)
    if do_modes:
        for m2 in MODES:
            if m2 != mode:
                k2, r2 = cg.run_engine(cg.config_text(case.mapping, fmt=fmt, partitioning=m2))
                ctx.traces_validated += 1
                if (k2, r2) != (kind, res):
                    ctx.violation(f'result under mapping_partitioning={m2} differs from {mode}: '
                                  f'{[x for x in res if x not in r2][:2] if k2 == "ok" else r2!r} / {[x for x in r2 if x not in res][:2] if k2 == "ok" else ""}',
                                  case.input(fmt=fmt, mode=m2, other_mode=mode), finding=None)
                    break


def cli_case(ctx, case, fmt, mode):
    """the command line (`python -m morph_kgc`): `__main__` has its own copy of the asserted filter and grouping"""
    out = os.path.join(case.dir, 'out_cli.' + ('nq' if fmt == 'N-QUADS' else 'nt'))
    if os.path.exists(out):
        os.remove(out)
    cfgp = os.path.join(case.dir, 'cli.ini')
    with open(cfgp, 'w', encoding='utf-8') as f:
        f.write(cg.config_text(case.mapping, fmt=fmt, partitioning=mode, extra=f'output_file={out}'))
    env = dict(os.environ, PYTHONPATH=os.path.join(os.environ.get('VERIF_REPO', '/repo'), 'src'))
    inp = case.input(fmt=fmt, mode=mode, cli=True)
    exp = sg.PySpec(case.doc, case.tables).lines(fmt)
    try:
        pr = subprocess.run([sys.executable, '-m', 'morph_kgc', cfgp], env=env, stdout=subprocess.PIPE, stderr=subprocess.PIPE, text=True, timeout=180)
    except subprocess.TimeoutExpired:
        ctx.violation('the command line run did not end within 180 s', inp, finding=None)
        return
    ctx.case(case.key() + [fmt, mode, 'cli'], nontrivial=any('<<' in x for x in exp), kind=f'cli {fmt} {mode}')
    ctx.traces_validated += 1
    if pr.returncode != 0:
        err = (pr.stderr.strip().split('\n') or [''])[-1][:200]
        ctx.violation(f'the command line run failed: {err}', inp, finding=triage(case.doc, 'exc', err))
        return
    lines = []
    if os.path.exists(out):
        with open(out, encoding='utf-8') as f:
            lines = [l[:-1][:-2] if l.endswith(' .\n') else l for l in f]
    got = sorted(set(lines))
    if got != exp:
        ctx.violation(f'command line output differs from the RML-star generation rules: missing {[x for x in exp if x not in got][:3]!r}, '
                      f'extra {[x for x in got if x not in exp][:3]!r}', inp, finding=None)


CYCLE_SCRIPT = r'''
import sys, json
sys.path.insert(0, sys.argv[1])
import morph_kgc
from morph_kgc.args_parser import load_config_from_argument
from morph_kgc.mapping.mapping_parser import MappingParser
config = load_config_from_argument(sys.argv[2])
mp = MappingParser(config)
mp._get_from_r2_rml()
mp.rml_df = mp.rml_df.drop_duplicates()
mp._complete_rml_source_with_config_file_paths()
mp._complete_source_types()
mp._remove_delimiters_from_mappings()
sizes = [len(mp.rml_df)]
orig = MappingParser._expand_rml_star
def w(self):
    orig(self)
    sizes.append(len(self.rml_df))
    print(json.dumps(sizes), flush=True)
MappingParser._expand_rml_star = w
mp._normalize_rml_star()
print('DONE ' + json.dumps(sizes), flush=True)
'''


def cyclic_note(ctx):
    d = os.path.join(ctx.tmp, 'cyc')
    os.makedirs(d, exist_ok=True)
    p = os.path.join(d, 't0.csv')
    cg.write_csv(p, sg.T0_COLS, sg.T0_ROWS)
    mp = os.path.join(d, 'm.ttl')
    with open(mp, 'w') as f:
        f.write(sg.render_star_doc(sg.cyclic_doc(p)))
    sp = os.path.join(d, 'cyc.py')
    with open(sp, 'w') as f:
        f.write(CYCLE_SCRIPT)
    repo_src = os.path.join(os.environ.get('VERIF_REPO', '/repo'), 'src')
    try:
        pr = subprocess.run([sys.executable, sp, repo_src, cg.config_text(mp)], stdout=subprocess.PIPE, stderr=subprocess.STDOUT, text=True, timeout=6)
        last = [l for l in pr.stdout.strip().split('\n') if l][-1:] or ['']
        ctx.notes.append('cyclic quoting (two maps quoting each other, excluded point): _normalize_rml_star ended: ' + last[0][:160])
    except subprocess.TimeoutExpired as e:
        out = (e.stdout or b'')
        out = out.decode() if isinstance(out, bytes) else out
        last = [l for l in out.strip().split('\n') if l][-1:] or ['']
        ctx.notes.append('cyclic quoting (two maps quoting each other, excluded point): _normalize_rml_star did not end within 6 s; '
                         'rule counts after successive expansions: ' + last[0][:160])


def extra_type_case(ctx):
    """Non-asserted triples maps that carry a further rdf:type (any class of another vocabulary), or are typed with the legacy
    namespace: they are quoted by an asserted map and contribute NO statement of their own — through `materialize_set` and through
    the command line (each has its own asserted filter)."""
    import subprocess
    d = os.path.join(ctx.tmp, 'extratype')
    os.makedirs(d, exist_ok=True)
    with open(os.path.join(d, 't.csv'), 'w') as f:
        f.write('k\nx\ny\n')
    src = f'rml:logicalSource [ rml:source "{os.path.join(d, "t.csv")}" ; rml:referenceFormulation rml:CSV ]'
    mp = os.path.join(d, 'm.ttl')
    with open(mp, 'w') as f:
        f.write('@prefix rml: <http://w3id.org/rml/> . @prefix ex: <http://ex.org/> .\n'
                f'ex:A a rml:NonAssertedTriplesMap, ex:Helper ; {src} ; rml:subjectMap [ rml:template "http://ex.org/s/{{k}}" ] ;\n'
                '  rml:predicateObjectMap [ rml:predicate ex:p ; rml:objectMap [ rml:reference "k" ] ] .\n'
                f'ex:L a <http://semweb.mmlab.be/ns/rml#NonAssertedTriplesMap> ; {src} ; rml:subjectMap [ rml:template "http://ex.org/l/{{k}}" ] ;\n'
                '  rml:predicateObjectMap [ rml:predicate ex:p2 ; rml:objectMap [ rml:reference "k" ] ] .\n'
                f'ex:C a rml:TriplesMap ; {src} ; rml:subjectMap [ rml:quotedTriplesMap ex:A ] ;\n'
                '  rml:predicateObjectMap [ rml:predicate ex:r ; rml:objectMap [ rml:quotedTriplesMap ex:L ] ] .\n')
    exp = sorted(f'<< <http://ex.org/s/{k}> <http://ex.org/p> "{k}" >> <http://ex.org/r> << <http://ex.org/l/{k}> <http://ex.org/p2> "{k}" >>'
                 for k in 'xy')
    inp = {'kind': 'extra-type'}
    ctx.case(['extra-type'], nontrivial=True, kind='non-asserted maps with a further rdf:type / legacy namespace')
    ctx.traces_validated += 1
    got = cg.run_engine(cg.config_text(mp, fmt='N-TRIPLES', partitioning='PARTIAL-AGGREGATIONS'))
    if got != ('ok', exp):
        ctx.violation('non-asserted triples maps (one with a further rdf:type, one typed in the legacy namespace) quoted by an asserted map: '
                      f'materialize_set gives {str(got)[:300]} instead of the two quoting statements', inp)
        return
    out = os.path.join(d, 'out.nt')
    cp = os.path.join(d, 'config.ini')
    with open(cp, 'w') as f:
        f.write(f'[CONFIGURATION]\noutput_format=N-TRIPLES\nnumber_of_processes=1\nlogging_level=CRITICAL\noutput_file={out}\n[DS]\nmappings={mp}\n')
    env = dict(os.environ, PYTHONPATH=os.path.join(os.environ.get('VERIF_REPO', '/repo'), 'src'))
    p = subprocess.run([sys.executable, '-m', 'morph_kgc', cp], cwd=d, env=env, stdout=subprocess.PIPE, stderr=subprocess.STDOUT, text=True, timeout=300)
    lines = sorted(l[:-2] if l.endswith(' .') else l for l in open(out, encoding='utf-8').read().split('\n') if l) if os.path.exists(out) else None
    if p.returncode != 0 or lines != exp:
        ctx.violation(f'the same mapping through the command line: exit {p.returncode}, lines {str(lines)[:300]} instead of the two quoting statements', inp)


def run(ctx, lean, findings):
    rng = ctx.rng
    drv = ctx.get_driver() if ctx.model_available else None
    if not drv:
        ctx.notes.append('driver unavailable: only the direct oracles are exercised')
    install_expand_capture()
    cap = (70 if ctx.tier == 'quick' else 800)
    # fixed documents: every nesting shape, both formats and all modes over the list
    extra_type_case(ctx)
    crafted = sg.crafted_cases(os.path.join(ctx.tmp, 'crafted'))
    for i, case in enumerate(crafted):
        fmt = FMTS[(i + ctx.seed) % 2]
        mode = MODES[(i + ctx.seed) % 3]
        one_case(ctx, drv, case, fmt, mode, do_parsed=(ctx.tier == 'thorough' or ctx.escalate or i % 4 == ctx.seed % 4),
                 do_modes=(ctx.tier == 'thorough' or (ctx.escalate and i % 3 == 0)), kind_label='fixed')
        if ctx.tier == 'thorough' or ctx.escalate:
            one_case(ctx, drv, case, FMTS[(i + ctx.seed + 1) % 2], MODES[(i + ctx.seed + 1) % 3], kind_label='fixed')
    # the command line on fixed documents (its own asserted filter): two in the quick tier, all when thorough / escalated
    for i, case in enumerate(crafted):
        if ctx.tier == 'thorough' or ctx.escalate or i in (0, 5 + ctx.seed % 7):
            cli_case(ctx, case, FMTS[(i + ctx.seed + 1) % 2], MODES[(i + ctx.seed + 2) % 3])
    n = ctx.budget(32, 700) * (3 if ctx.escalate else 1)
    for it in range(n):
        if not ctx.escalate and ctx.elapsed() > cap:
            ctx.notes.append(f'time cap reached after {it} generated cases')
            break
        case = sg.make_case(rng, os.path.join(ctx.tmp, f'c{it}'), max_rules=(40 if ctx.tier == 'quick' else 70))
        one_case(ctx, drv, case, rng.choice(FMTS), rng.choice(MODES), do_parsed=(rng.random() < 0.33), do_modes=(rng.random() < 0.25))
    cyclic_note(ctx)
    for f in findings:
        if f.get('property') == PROP and f.get('status') == 'open' and f.get('replay'):
            if replay_input(ctx, f['replay'], os.path.join(ctx.tmp, 'kf_' + f['id'])):
                ctx.known(f['id'], f['what'])
            else:
                ctx.notes.append(f'finding {f["id"]} no longer reproduces')
    # the inputs of repaired findings run on every check (a `fixed` entry suppresses nothing)
    for f in findings:
        if f.get('property') == PROP and f.get('status') == 'fixed' and isinstance(f.get('replay'), dict) and f['replay'].get('doc'):
            ctx.case(['fixed-corpus', f['id']], nontrivial=True, kind='corpus of repaired findings')
            if replay_input(ctx, f['replay'], os.path.join(ctx.tmp, 'fx_' + f['id'])):
                ctx.violation(f'the input of the repaired finding {f["id"]} fails again: the engine raises or its result differs from the '
                              'RML-star generation rules', f['replay'], finding=None)


def replay_input(ctx, inp, d):
    """True iff the engine still fails on the input or its result differs from the generation rules / between the modes"""
    case = sg.build_case(d, inp)
    fmt = inp.get('fmt', 'N-QUADS')
    mode = inp.get('mode', 'NO')
    if inp.get('cli'):
        class _C:
            violations = []
            traces_validated = 0
            def violation(self, what, i, finding=None):
                self.violations.append(what)
            def case(self, *a, **k):
                pass
        c = _C()
        cli_case(c, case, fmt, mode)
        return bool(c.violations)
    kind, res = cg.run_engine(cg.config_text(case.mapping, fmt=fmt, partitioning=mode))
    if kind != 'ok':
        return True
    if res != sg.PySpec(case.doc, case.tables).lines(fmt):
        return True
    if inp.get('other_mode'):
        return cg.run_engine(cg.config_text(case.mapping, fmt=fmt, partitioning=inp['other_mode'])) != (kind, res)
    return False


def replay(ctx, data):
    if isinstance(data.get('input'), dict) and data['input'].get('kind') == 'extra-type':
        before = len(ctx.violations)
        extra_type_case(ctx)
        return len(ctx.violations) > before
    return replay_input(ctx, data['input'], os.path.join(ctx.tmp, 'rp'))
