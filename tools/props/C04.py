"""C04 — the result is independent of the process count and of worker scheduling.

Lean side (Props/C04.lean): the io layers never split a line (for the generated writer shape), any interleaving
of atomic appends of whole-line payloads gives a permutation of the lines, set union is order independent.
This check ties the model to the engine and evaluates the property itself on the real engine:

* I9  CLI under `strace -f -y -xx -e trace=write,openat,fsync` for several process counts: per worker and per
      `triples_to_file` call the payloads written to the output file are recovered; every payload must be whole
      lines (direct oracle); the payload-length sequence must equal `Model.Writer.rawLens` on the lines recovered
      from the worker's own payloads (correspondence); the file must be an interleaving of the workers' payload
      sequences, must not contain stale content, every line must be a statement, and the multiset of lines must
      equal that of the single-process run and the result of `materialize_set` (direct oracle).
* forced schedules: a wrapper (runpy + monkeypatch of morph_kgc.materializer.triples_to_file, inherited over
      fork) holds every worker just before it writes; a controller releases them one at a time in a seeded order,
      or all at once (barrier), optionally with strace delay injection on write.
* io layers in process: the real `utils.triples_to_file` with `open` replaced by the same io classes with other
      chunk/buffer sizes and a recording raw file, against the model (lengths, and exact payload text).
* library path: `materialize_set` with number_of_processes 1, 2, 4 compared as sets.
"""
import collections
import concurrent.futures
import hashlib
import io
import json
import os
import random
import re
import subprocess
import sys
import time

PROP = 'C04'
LEAN_TARGETS = ['MorphKgc.Props.C04']
GEN_KEYS = ['writer']
M = 'MorphKgc.Props.C04'
# composition theorem (CLI run end to end = C01 + C02 + C03 + C04 + C05); informational, see vlib.lean_phase
INFO_TARGETS = ['MorphKgc.Props.Pipeline']
INFO_THEOREMS = [{'name': f'Props.Pipeline.{n}', 'module': 'MorphKgc.Props.Pipeline'} for n in ('cli_nquads', 'cli_nquads_syntactic', 'cli_set')]
THEOREMS = [{'name': f'Props.C04.{n}', 'module': M} for n in [
    'writerShape_ok', 'mainShape_ok', 'libShape_ok', 'translated',
    'C04_chunks_whole_lines', 'C04_chunks_whole_statements', 'C04_rawLens_are_payload_sizes', 'C04_two_calls_counterwitness',
    'C04_interleaving', 'C04_interleaving_lines', 'C04_cli_any_schedule', 'C04_cli_equals_single_process',
    'C04_union_order', 'C04_union_grouping', 'C04_library_nproc']]
RULE = ('CLI case = one run of `python -m morph_kgc` on a generated data set (CSV sources, >= 8 mapping groups whose outputs range '
        'from a few lines to far above the buffer, lines longer than the buffer, multi-byte text) for one (number_of_processes, '
        'schedule mode, schedule seed, output_file|output_dir); non-trivial = at least 2 mapping groups wrote to the output and at '
        'least one triples_to_file call issued more than one raw write; distinct = (data set seed/scale, process count, mode, '
        'schedule seed, variant). io case = one call of the real triples_to_file on generated statements with given chunk/buffer '
        'sizes; non-trivial = more than one raw write. library case = materialize_set with one process count; non-trivial = '
        'at least 2 mapping groups.')
TRUSTED_BASE = [
    'kernel: one write(2) on a local regular file opened with O_APPEND appends its whole payload atomically at the end of file '
    '(POSIX; holds on local Linux file systems, NOT on NFS); short writes do not occur on regular files below 2 GiB (every traced '
    'write is checked to return its full length)',
    'multiprocessing.Pool.starmap runs every task exactly once and returns all results (CPython); start method fork',
    'CPython io layers as modelled by Model.Writer.rawWrites (TextIOWrapper pending-chunk rule, BufferedWriter copy/flush/direct '
    'rule, one raw write per buffer flush): transcribed from textio.c/bufferedio.c of 3.12, validated on every run against '
    'strace of the real CLI and against the real io classes with other chunk/buffer sizes',
    'the mp.Lock() created inside triples_to_file is a fresh lock per call and excludes nobody: the schedule of the workers is '
    'arbitrary, which is what the theorems quantify over (Interleaving); no mutual exclusion is assumed anywhere',
    'statements contain no raw newline (C05 territory); C04_chunks_whole_statements does not need this',
]
ASSUMPTIONS = ['local file system under the temporary directory (not NFS)', 'Linux, fork start method, strace with ptrace permission',
               'generated data sets never produce the same statement in two mapping groups (duplicate lines across groups are C03)']

LINE_RE = re.compile(
    r'^(<[^<>"{}|^`\\\x00-\x20]*>|_:[^\s]+) <[^<>"{}|^`\\\x00-\x20]*> '
    r'(<[^<>"{}|^`\\\x00-\x20]*>|_:[^\s]+|"(?:[^"\\\n\r]|\\.)*"(?:@[a-zA-Z]+(?:-[a-zA-Z0-9]+)*|\^\^<[^<>"{}|^`\\\x00-\x20]*>)?)'
    r'(?: <[^<>"{}|^`\\\x00-\x20]*>)? \.$')
STALE = '<http://stale.example/s> <http://stale.example/p> "left over from an earlier run" .\n'


def repo():
    return os.environ.get('VERIF_REPO', '/repo')


def child_env():
    env = dict(os.environ)
    env['PYTHONPATH'] = os.path.join(repo(), 'src')
    env['PYTHONDONTWRITEBYTECODE'] = '1'
    return env


def io_sizes(d):
    """(text chunk size, buffer size) that open(path, 'a') uses for a file in directory d, by CPython's own rule"""
    p = os.path.join(d, '.probe')
    with open(p, 'a', encoding='utf-8') as f:
        chunk = f._CHUNK_SIZE
        blk = getattr(os.fstat(f.fileno()), 'st_blksize', 0)
    os.remove(p)
    if sys.version_info >= (3, 13):
        buf = max(min(blk, 8192 * 1024), io.DEFAULT_BUFFER_SIZE) if blk > 1 else io.DEFAULT_BUFFER_SIZE
    else:
        buf = blk if blk > 1 else io.DEFAULT_BUFFER_SIZE
    return chunk, buf


# ----------------------------------------------------------------------------------------------------
# data sets
# ----------------------------------------------------------------------------------------------------

ALPHA = 'abcdefghijklmnopqrstuvwxyzABCDEFGHIJ0123456789'
WIDE = ALPHA + ' ' * 6 + 'éßñ漢字Ω' + '\U0001F600'


def make_dataset(root, seed, scale):
    """Deterministic from (seed, scale). Each triples map has its own CSV source and subject prefix, two predicates:
    >= 2 mapping groups per triples map, no statement shared between groups."""
    rng = random.Random(seed * 7919 + 13)
    d = os.path.join(root, f'ds_{seed}_{scale}')
    if os.path.exists(os.path.join(d, 'm.ttl')):
        with open(os.path.join(d, 'spec.json')) as f:
            return json.load(f)
    os.makedirs(d, exist_ok=True)
    big = {1: 900, 2: 4000, 3: 30000}[scale]
    specs = [  # rows, value length range, alphabet
        (rng.randrange(1, 5), (1, 12), ALPHA),                      # a few lines: far below the buffer
        (rng.randrange(30, 70), (30, 80), WIDE),                    # some KiB: around the buffer size
        (big + rng.randrange(0, 200), (10, 160), WIDE),             # far above
        (rng.randrange(8, 25), (3000, 14000), WIDE),                # lines longer than buffer and chunk
        (rng.randrange(150, 400), (1, 300), ALPHA),                 # mixed
    ]
    if scale >= 2:
        specs.append((big // 2, (1, 60), ALPHA))
    ttl = ['@prefix rr: <http://www.w3.org/ns/r2rml#> .', '@prefix rml: <http://semweb.mmlab.be/ns/rml#> .',
           '@prefix ql: <http://semweb.mmlab.be/ns/ql#> .', '@prefix ex: <http://ex.org/> .']
    for k, (n, (a, b), alpha) in enumerate(specs):
        csvp = os.path.join(d, f'd{k}.csv')
        with open(csvp, 'w', encoding='utf-8') as f:
            f.write('id,v,w\n')
            for i in range(n):
                v = 'v' + ''.join(rng.choice(alpha) for _ in range(rng.randrange(a, b + 1))) + 'e'
                w = ''.join(rng.choice(ALPHA) for _ in range(rng.randrange(1, 20)))
                f.write(f'r{i},{v},w{i}x{w}\n')
        ttl.append(f'''<http://ex.org/TM{k}> rml:logicalSource [ rml:source "{csvp}"; rml:referenceFormulation ql:CSV ];
  rr:subjectMap [ rr:template "http://ex.org/g{k}/{{id}}" ];
  rr:predicateObjectMap [ rr:predicate ex:p{k}a; rr:objectMap [ rml:reference "v" ] ];
  rr:predicateObjectMap [ rr:predicate ex:p{k}b; rr:objectMap [ rr:template "http://ex.org/o{k}/{{w}}"; rr:termType rr:IRI ] ] .''')
    with open(os.path.join(d, 'm.ttl'), 'w', encoding='utf-8') as f:
        f.write('\n'.join(ttl) + '\n')
    spec = {'dir': d, 'mapping': os.path.join(d, 'm.ttl'), 'seed': seed, 'scale': scale, 'rows': [s[0] for s in specs]}
    with open(os.path.join(d, 'spec.json'), 'w') as f:
        json.dump(spec, f)
    return spec


def write_cfg(ds, rundir, nproc, variant):
    os.makedirs(rundir, exist_ok=True)
    out = os.path.join(rundir, 'outdir') if variant == 'dir' else os.path.join(rundir, 'out.nt')
    key = 'output_dir' if variant == 'dir' else 'output_file'
    cfg = os.path.join(rundir, 'c.ini')
    with open(cfg, 'w') as f:
        f.write(f'[CONFIGURATION]\n{key}={out}\nnumber_of_processes={nproc}\nlogging_level=CRITICAL\n[DS]\nmappings={ds["mapping"]}\n')
    return cfg, out


# ----------------------------------------------------------------------------------------------------
# wrapper scripts run in the child
# ----------------------------------------------------------------------------------------------------

WRAPPER = r'''
import hashlib, os, runpy, sys, time
gate, cfg = sys.argv[1], sys.argv[2]
import morph_kgc.materializer as M
_orig = M.triples_to_file
def _gated(triples, config, mapping_group=None):
    key = hashlib.md5(str(mapping_group).encode()).hexdigest()[:12]
    open(os.path.join(gate, 'arr_' + key), 'w').close()
    t0 = time.time()
    go = os.path.join(gate, 'go_' + key)
    while not os.path.exists(go):
        if time.time() - t0 > 60:
            open(os.path.join(gate, 'timeout_' + key), 'w').close()
            break
        time.sleep(0.001)
    try:
        return _orig(triples, config, mapping_group)
    finally:
        open(os.path.join(gate, 'done_' + key), 'w').close()
M.triples_to_file = _gated
sys.argv = ['morph_kgc', cfg]
runpy.run_module('morph_kgc', run_name='__main__', alter_sys=True)
'''

LIBRUN = r'''
import json, sys
import morph_kgc
res = morph_kgc.materialize_set(sys.argv[1])
json.dump(sorted(res), open(sys.argv[2], 'w'))
'''


def ensure_scripts(ctx):
    w = os.path.join(ctx.tmp, 'sched_wrap.py')
    l = os.path.join(ctx.tmp, 'librun.py')
    if not os.path.exists(w):
        with open(w, 'w') as f:
            f.write(WRAPPER)
        with open(l, 'w') as f:
            f.write(LIBRUN)
    return w, l


def lib_run(ctx, ds, nproc, tag):
    """materialize_set in a child; returns sorted list of statements or raises"""
    _, l = ensure_scripts(ctx)
    rd = os.path.join(ctx.tmp, f'lib_{tag}_{nproc}')
    os.makedirs(rd, exist_ok=True)
    cfg = os.path.join(rd, 'c.ini')
    with open(cfg, 'w') as f:
        f.write(f'[CONFIGURATION]\nnumber_of_processes={nproc}\nlogging_level=CRITICAL\n[DS]\nmappings={ds["mapping"]}\n')
    out = os.path.join(rd, 'res.json')
    p = subprocess.run([sys.executable, l, cfg, out], env=child_env(), cwd=rd, capture_output=True, text=True, timeout=900)
    if p.returncode != 0 or not os.path.exists(out):
        return None, (p.stderr or '')[-800:]
    with open(out) as f:
        return json.load(f), ''


# ----------------------------------------------------------------------------------------------------
# one CLI run under strace (optionally with forced schedule)
# ----------------------------------------------------------------------------------------------------

def controller(p, gate, nproc, G, mode, rng, deadline):
    released, order = set(), []
    last_change, last_waiting = time.time(), None
    while p.poll() is None and time.time() < deadline:
        try:
            names = os.listdir(gate)
        except OSError:
            break
        arrived = {n[4:] for n in names if n.startswith('arr_')}
        done = {n[5:] for n in names if n.startswith('done_')}
        waiting = sorted(arrived - released)
        if waiting != last_waiting:
            last_waiting, last_change = waiting, time.time()
        in_flight = released - done
        if waiting and not in_flight:
            expected = max(1, min(nproc, G - len(done)))
            if len(waiting) >= expected or time.time() - last_change > 0.5:
                batch = [rng.choice(waiting)] if mode == 'ordered' else waiting
                for k in batch:
                    open(os.path.join(gate, 'go_' + k), 'w').close()
                    released.add(k)
                    order.append(k)
        time.sleep(0.002)
    # never leave a worker waiting
    try:
        for n in os.listdir(gate):
            if n.startswith('arr_') and n[4:] not in released:
                open(os.path.join(gate, 'go_' + n[4:]), 'w').close()
    except OSError:
        pass
    return order


def run_cli(ctx, ds, spec):
    """spec: {nproc, mode: None|'ordered'|'barrier', sched_seed, variant: 'file'|'dir', inject: bool, G, tag}"""
    wrapper, _ = ensure_scripts(ctx)
    rd = os.path.join(ctx.tmp, 'run_' + spec['tag'])
    cfg, out = write_cfg(ds, rd, spec['nproc'], spec['variant'])
    # stale content from "an earlier run": prepare_output_files must remove it
    if spec['variant'] == 'file':
        with open(out, 'w', encoding='utf-8') as f:
            f.write(STALE)
    else:
        os.makedirs(out, exist_ok=True)
    trace = os.path.join(rd, 'trace.txt')
    cmd = ['strace', '--seccomp-bpf', '-f', '-y', '-xx', '-s', '4000000', '-e', 'trace=write,openat,fsync', '-o', trace]
    if spec.get('inject'):
        cmd += ['--inject=write:delay_exit=150']
    gate = None
    if spec['mode']:
        gate = os.path.join(rd, 'gate')
        os.makedirs(gate, exist_ok=True)
        cmd += [sys.executable, wrapper, gate, cfg]
    else:
        cmd += [sys.executable, '-m', 'morph_kgc', cfg]
    t0 = time.time()
    p = subprocess.Popen(cmd, env=child_env(), cwd=rd, stdout=subprocess.PIPE, stderr=subprocess.PIPE, text=True)
    order = []
    try:
        if gate:
            order = controller(p, gate, spec['nproc'], spec.get('G') or 2, spec['mode'],
                               random.Random(spec.get('sched_seed', 0)), time.time() + 600)
        so, se = p.communicate(timeout=900)
    except subprocess.TimeoutExpired:
        p.kill()
        so, se = p.communicate()
        se = (se or '') + '\nTIMEOUT'
    timeouts = [n for n in os.listdir(gate)] if gate else []
    return {'spec': spec, 'rc': p.returncode, 'stderr': (se or '')[-1500:], 'out': out, 'trace': trace, 'wall': time.time() - t0,
            'release_order': order, 'gate_timeouts': sum(1 for n in timeouts if n.startswith('timeout_'))}


HEX = r'(?:\\x[0-9a-f]{2})*'
RE_WRITE = re.compile(r'^(\d+)\s+write\((\d+)<(' + HEX + r')(?: \(deleted\))?>, "(' + HEX + r')"(\.\.\.)?, (\d+)(?:\)\s+= (-?\d+).*| <unfinished \.\.\.>)$')
RE_OPEN = re.compile(r'^(\d+)\s+openat\([^,]*, "(' + HEX + r')", ([A-Z_|0-9x]+)')
RE_FSYNC = re.compile(r'^(\d+)\s+fsync\((\d+)<(' + HEX + r')>')
RE_RESUMED = re.compile(r'^(\d+)\s+<\.\.\. (\w+) resumed>.*?\)\s+= (-?\d+)')


def unhex(s):
    return bytes.fromhex(s.replace('\\x', ''))


def parse_trace(path, is_out):
    """events per pid, in trace order: ('open', path, flags) | ('write', path, data, ret) | ('fsync', path)"""
    per = collections.OrderedDict()
    pending = {}
    truncated = 0
    with open(path, encoding='ascii', errors='replace') as f:
        for line in f:
            line = line.rstrip('\n')
            if ' write(' in line[:24]:
                m = RE_WRITE.match(line)
                if not m:
                    continue
                fp = unhex(m.group(3)).decode('utf-8', 'replace')
                if not is_out(fp):
                    continue
                if m.group(5):
                    truncated += 1
                ev = ['write', fp, unhex(m.group(4)), int(m.group(7)) if m.group(7) is not None else None, int(m.group(6))]
                per.setdefault(m.group(1), []).append(ev)
                if m.group(7) is None:
                    pending[m.group(1)] = ev
            elif ' openat(' in line[:24]:
                m = RE_OPEN.match(line)
                if m:
                    fp = unhex(m.group(2)).decode('utf-8', 'replace')
                    if is_out(fp):
                        per.setdefault(m.group(1), []).append(['open', fp, m.group(3)])
            elif ' fsync(' in line[:24]:
                m = RE_FSYNC.match(line)
                if m:
                    fp = unhex(m.group(3)).decode('utf-8', 'replace')
                    if is_out(fp):
                        per.setdefault(m.group(1), []).append(['fsync', fp])
            elif 'resumed>' in line[:40]:
                m = RE_RESUMED.match(line)
                if m and m.group(2) == 'write' and m.group(1) in pending:
                    pending.pop(m.group(1))[3] = int(m.group(3))
    return per, truncated


def analyse(run, ds, expected, chunk, buf, shape_info):
    """Direct oracle + data for the correspondence. Returns dict(violations=[str], calls=[...], stats={...})."""
    spec, out = run['spec'], run['out']
    v = []
    res = {'violations': v, 'calls': [], 'stats': {}, 'sched': None}
    if run['rc'] != 0:
        v.append(f'the command line run failed (exit {run["rc"]}): {run["stderr"][-300:]}')
        return res
    if spec['variant'] == 'dir':
        files = sorted(os.path.join(out, f) for f in os.listdir(out)) if os.path.isdir(out) else []
    else:
        files = [out] if os.path.exists(out) else []
    if not files:
        v.append('no output file exists after the run')
        return res
    outset = set(os.path.realpath(f) for f in files)
    outroot = os.path.realpath(out)

    def is_out(p):
        return p in outset or os.path.realpath(p) in outset or (spec['variant'] == 'dir' and p.startswith(outroot + os.sep))
    per, truncated = parse_trace(run['trace'], is_out)
    if truncated:
        raise RuntimeError('strace truncated a payload (-s too small)')
    # ---- per worker / per triples_to_file call -------------------------------------------------------
    workers = {}           # (pid, file) -> list of payloads in order
    n_payloads = 0
    for pid, evs in per.items():
        cur = {}
        for ev in evs:
            if ev[0] == 'open':
                c = {'pid': pid, 'file': ev[1], 'flags': ev[2], 'payloads': []}
                cur[ev[1]] = c
                res['calls'].append(c)
                if 'O_WRONLY' in ev[2] or 'O_RDWR' in ev[2]:
                    if 'O_APPEND' not in ev[2]:
                        c['no_append'] = True
            elif ev[0] == 'write':
                _, fp, data, ret, count = ev
                n_payloads += 1
                if fp not in cur:
                    cur[fp] = {'pid': pid, 'file': fp, 'flags': '?', 'payloads': []}
                    res['calls'].append(cur[fp])
                cur[fp]['payloads'].append(data)
                workers.setdefault((pid, fp), []).append(data)
                if ret != len(data) or count != len(data):
                    v.append(f'short or failed write: pid {pid} wrote {ret} of {len(data)} bytes')
                if not data.endswith(b'\n'):
                    v.append(f'a raw write of worker {pid} does not consist of whole lines: {len(data)} bytes ending in '
                             f'{data[-40:]!r}')
    res['calls'] = [c for c in res['calls'] if c['payloads'] or 'O_WRONLY' in c['flags'] or 'O_RDWR' in c['flags']]
    multi = sum(1 for c in res['calls'] if len(c['payloads']) > 1)
    res['stats'] = {'calls': len(res['calls']), 'payloads': n_payloads, 'calls_with_several_payloads': multi,
                    'worker_pids': len({c['pid'] for c in res['calls']}),
                    'max_payload': max([len(p) for c in res['calls'] for p in c['payloads']] or [0]),
                    'min_call_bytes': min([sum(map(len, c['payloads'])) for c in res['calls']] or [0]),
                    'max_call_bytes': max([sum(map(len, c['payloads'])) for c in res['calls']] or [0])}
    # ---- the files -------------------------------------------------------------------------------------
    all_lines = collections.Counter()
    switches = 0
    for fpath in files:
        with open(fpath, 'rb') as f:
            content = f.read()
        if content and not content.endswith(b'\n'):
            v.append(f'{os.path.basename(fpath)} does not end with a newline: ...{content[-60:]!r}')
        if STALE.encode() in content:
            v.append('content of an earlier run is still in the output file (the file was not removed before the workers started)')
        # the file must be an interleaving of the workers' payload sequences (atomic appends, nothing lost)
        rp = os.path.realpath(fpath)
        ws = [[pid, list(pl), 0] for (pid, fp), pl in workers.items() if os.path.realpath(fp) == rp]
        off, last, sched, ok = 0, None, [], True
        total = sum(len(p) for w in ws for p in w[1])
        while off < len(content):
            hit = None
            for w in ws:
                if w[2] < len(w[1]) and content.startswith(w[1][w[2]], off) and len(w[1][w[2]]) > 0:
                    hit = w
                    break
            if hit is None:
                ok = False
                break
            if last is not None and last != hit[0]:
                switches += 1
            last = hit[0]
            sched.append(hit[1][hit[2]])
            off += len(hit[1][hit[2]])
            hit[2] += 1
        if not ok or any(w[2] < len(w[1]) for w in ws):
            v.append(f'{os.path.basename(fpath)} ({len(content)} bytes) is not an interleaving of the payloads the workers wrote '
                     f'({total} bytes in {sum(len(w[1]) for w in ws)} writes): mismatch at offset {off}')
        elif len(files) == 1:
            res['sched'] = sched
        try:
            text = content.decode('utf-8')
        except UnicodeDecodeError as e:
            v.append(f'{os.path.basename(fpath)} is not valid UTF-8: {e}')
            text = content.decode('utf-8', 'replace')
        lines = text.split('\n')
        if lines and lines[-1] == '':
            lines.pop()
        bad = [ln for ln in lines if not LINE_RE.match(ln)]
        if bad:
            v.append(f'{len(bad)} line(s) of {os.path.basename(fpath)} are not statements, e.g. {bad[0][:160]!r}')
        all_lines.update(lines)
    res['lines'] = all_lines
    res['stats']['pid_switches_in_file'] = switches
    res['stats']['lines'] = sum(all_lines.values())
    if expected is not None:
        exp = collections.Counter(expected)
        if all_lines != exp:
            lost = exp - all_lines
            extra = all_lines - exp
            v.append(f'the lines of the output differ from the expected statements: {sum(lost.values())} lost, '
                     f'{sum(extra.values())} duplicated or foreign; e.g. lost {[x[:100] for x in list(lost)[:2]]} '
                     f'extra {[x[:100] for x in list(extra)[:2]]}')
    return res


# ----------------------------------------------------------------------------------------------------
# in-process: the real triples_to_file on the real io classes with chosen sizes
# ----------------------------------------------------------------------------------------------------

class RecFileIO(io.FileIO):
    def __init__(self, *a, **k):
        super().__init__(*a, **k)
        self.log = []

    def write(self, b):
        n = super().write(b)
        self.log.append(bytes(b))
        if n != len(b):
            raise RuntimeError('short write')
        return n


def real_writer_io(path, triples, chunk, buf):
    """run morph_kgc.utils.triples_to_file with `open` rebuilt from the same io classes (recording raw file)"""
    from morph_kgc import utils as U
    raws = []

    def fake_open(p, mode='r', encoding=None, **kw):
        raw = RecFileIO(p, mode)
        raws.append(raw)
        t = io.TextIOWrapper(io.BufferedWriter(raw, buffer_size=buf), encoding=encoding)
        t._CHUNK_SIZE = chunk
        t.mode = mode
        return t

    class Cfg:
        def get_output_file_path(self, mapping_group=None):
            return path
    U.open = fake_open
    try:
        U.triples_to_file(triples, Cfg(), 'g')
    finally:
        del U.open
    return [p for r in raws for p in r.log]


def gen_triples(rng, n, maxlen, wide):
    alpha = WIDE if wide else ALPHA
    out = []
    for i in range(n):
        k = rng.randrange(0, maxlen + 1)
        out.append(f'<http://e/{i}> <http://e/p> "' + ''.join(rng.choice(alpha) for _ in range(k)) + '"')
    return out


def io_case(ctx, drv, seed, n, maxlen, chunk, buf, wide, real_sizes, shape_info):
    rng = random.Random(seed)
    triples = gen_triples(rng, n, maxlen, wide)
    path = os.path.join(ctx.tmp, 'io_case.nt')
    if os.path.exists(path):
        os.remove(path)
    payloads = real_writer_io(path, triples, chunk, buf)
    inp = {'kind': 'io', 'seed': seed, 'n': n, 'maxlen': maxlen, 'chunk': chunk, 'buf': buf, 'wide': wide}
    ctx.case(inp, nontrivial=len(payloads) > 1, kind='io:real-sizes' if real_sizes else 'io:other-sizes',
             sample={'input': inp, 'payload_lengths': [len(p) for p in payloads][:12]} if getattr(ctx, '_io_sampled', 0) < 2 else None)
    ctx._io_sampled = getattr(ctx, '_io_sampled', 0) + 1
    with open(path, 'rb') as f:
        content = f.read()
    want = ''.join(t + ' .\n' for t in triples).encode('utf-8')
    if real_sizes:
        bad = [p for p in payloads if not p.endswith(b'\n')]
        if bad:
            ctx.violation(f'triples_to_file issues a raw write that is not whole lines ({len(bad[0])} bytes ending in {bad[0][-30:]!r}) '
                          f'with the sizes open() uses here (chunk {chunk}, buffer {buf})', inp)
        if content != want:
            ctx.violation('triples_to_file does not write exactly one line `<statement> .` per statement', inp)
    if drv:
        lens = [len(t.encode('utf-8')) for t in triples]
        mod = drv.call('raw_writes', lens=lens, chunk=chunk, buf=buf)
        if mod != [len(p) for p in payloads]:
            ctx.disagree('I9 raw write lengths (in-process io classes)', inp, mod[:40], [len(p) for p in payloads][:40])
        elif n <= 60 and maxlen <= 400:
            mt = drv.call('raw_writes_text', triples=triples, chunk=chunk, buf=buf)
            impl = [p.decode('utf-8') for p in payloads]
            if mt['payloads'] != impl:
                ctx.disagree('I9 raw write payloads (in-process io classes)', inp, mt['payloads'][:6], impl[:6])
        ctx.traces_validated += 1


# ----------------------------------------------------------------------------------------------------
# reporting of one analysed CLI run
# ----------------------------------------------------------------------------------------------------

def shape_from_gen(lean):
    w = (lean.get('gen') or {}).get('writer') or {}
    calls = (w.get('shape') or {}).get('calls')
    if not calls or w.get('failures'):
        calls = [[['triple'], ['lit', ' .\n']]]
    lit = sum(len(p[1].encode('utf-8')) for c in calls for p in c if p[0] == 'lit')
    ntr = sum(1 for c in calls for p in c if p[0] == 'triple') or 1
    return {'lit_total': lit, 'n_triple': ntr}


def report_run(ctx, drv, run, res, ds, chunk, buf, shape_info, G):
    spec = run['spec']
    key = {'ds': [ds['seed'], ds['scale']], 'nproc': spec['nproc'], 'mode': spec['mode'], 'sched_seed': spec.get('sched_seed'),
           'variant': spec['variant'], 'inject': bool(spec.get('inject'))}
    st = res['stats']
    groups_written = len([c for c in res['calls'] if c['payloads']])
    nontriv = groups_written >= 2 and st.get('calls_with_several_payloads', 0) >= 1
    ctx.case(key, nontrivial=nontriv, kind=f'cli:{spec["variant"]}:nproc={spec["nproc"]}:{spec["mode"] or "free"}',
             sample={'run': key, 'stats': st, 'wall_s': round(run['wall'], 1)})
    ctx.bump('raw writes observed', st.get('payloads', 0))
    ctx.bump('triples_to_file calls observed', st.get('calls', 0))
    ctx.bump('calls with more than one raw write', st.get('calls_with_several_payloads', 0))
    ctx.bump('calls below 1 KiB', sum(1 for c in res['calls'] if 0 < sum(map(len, c['payloads'])) < 1024))
    ctx.bump('calls above 64 KiB', sum(1 for c in res['calls'] if sum(map(len, c['payloads'])) > 65536))
    ctx.bump('payloads longer than the buffer', sum(1 for c in res['calls'] for p in c['payloads'] if len(p) > buf))
    ctx.bump('lines longer than the chunk size', sum(1 for c in res['calls'] for p in c['payloads']
                                                       for ln in p.split(b'\n') if len(ln) + 1 > chunk))
    ctx.bump('runs with payloads of different workers interleaved in the file', 1 if st.get('pid_switches_in_file', 0) > st.get('worker_pids', 1) else 0)
    if run.get('gate_timeouts'):
        ctx.notes.append(f'gate timeout in run {key}')
    inp = {'kind': 'cli', 'ds_seed': ds['seed'], 'ds_scale': ds['scale'], **{k: spec.get(k) for k in
           ('nproc', 'mode', 'sched_seed', 'variant', 'inject')}, 'G': G}
    for what in res['violations'][:5]:
        ctx.violation(f'[nproc={spec["nproc"]} mode={spec["mode"]} {spec["variant"]}] ' + what, inp)
    # correspondence I9: payload lengths per call against the model
    if drv and run['rc'] == 0:
        for c in res['calls']:
            if c.get('no_append'):
                ctx.disagree('I9 open flags', inp, 'O_APPEND (model: atomic appends)', c['flags'])
            if not c['payloads']:
                continue
            joined = b''.join(c['payloads'])
            parts = joined.split(b'\n')
            if parts and parts[-1] == b'':
                parts.pop()
            lens = [max(0, (len(x) + 1 - shape_info['lit_total'])) // shape_info['n_triple'] for x in parts]
            mod = drv.call('raw_writes', lens=lens, chunk=chunk, buf=buf)
            impl = [len(p) for p in c['payloads']]
            ctx.traces_validated += 1
            if mod != impl:
                ctx.disagree('I9 raw write lengths (strace of the CLI)', {**inp, 'pid': c['pid'], 'lines': len(lens)}, mod[:40], impl[:40])
        # the abstract file on the observed schedule (small runs only)
        if res.get('sched') is not None and sum(len(p) for p in res['sched']) < 400000:
            try:
                sched = [p.decode('utf-8') for p in res['sched']]
                ml = drv.call('file_lines', sched=sched, old=STALE)
                fl = sorted(x + '\n' for x in res['lines'].elements())
                if sorted(ml) != fl:
                    ctx.disagree('I9 file lines on the observed schedule', inp, len(ml), len(fl))
            except UnicodeDecodeError:
                pass


def cli_batch(ctx, drv, ds, specs, expected, chunk, buf, shape_info, G, workers=3):
    for s in specs:
        s['G'] = G
    with concurrent.futures.ThreadPoolExecutor(max_workers=workers) as ex:
        runs = list(ex.map(lambda s: run_cli(ctx, ds, s), specs))
    out = []
    for run in runs:
        res = analyse(run, ds, expected, chunk, buf, shape_info)
        report_run(ctx, drv, run, res, ds, chunk, buf, shape_info, G)
        out.append((run, res))
        # keep the temporary directory small
        try:
            os.remove(run['trace'])
        except OSError:
            pass
    return out


def expected_from_lib(ctx, ds, procs):
    """library path: materialize_set with several process counts, compared as sets; returns expected file lines"""
    base = None
    tag = f'{ds["seed"]}_{ds["scale"]}'
    with concurrent.futures.ThreadPoolExecutor(max_workers=3) as ex:
        results = list(ex.map(lambda n: lib_run(ctx, ds, n, tag), procs))
    for n, (r, err) in zip(procs, results):
        inp = {'kind': 'lib', 'ds_seed': ds['seed'], 'ds_scale': ds['scale'], 'nproc': n}
        ctx.case(inp, nontrivial=True, kind=f'lib:nproc={n}', sample={'run': inp, 'statements': None if r is None else len(r)})
        if r is None:
            ctx.violation(f'materialize_set failed with number_of_processes={n}: {err[-300:]}', inp)
            continue
        if base is None:
            base = (n, r)
        elif r != base[1]:
            a, b = set(base[1]), set(r)
            ctx.violation(f'materialize_set with number_of_processes={n} returns a different set than with {base[0]}: '
                          f'{len(a - b)} lost, {len(b - a)} extra, e.g. {[x[:100] for x in list(a ^ b)[:2]]}', inp)
    if base is None:
        return None
    return [f'{t} .' for t in base[1]]


def multi_section_case(ctx, procs):
    """Several data source sections whose databases hold a table of the SAME name (and two CSV files of the same relative name
    in different working directories are not possible, so relational sources are used) with different rows, each section with its
    own mapping and predicate, hence its own mapping groups.  The expected result is computed from the inserted rows; every process
    count must give it (groups that happen to be handled by the same process must stay independent of each other)."""
    import sqlite3
    _, l = ensure_scripts(ctx)
    root = os.path.join(ctx.tmp, 'multi')
    os.makedirs(root, exist_ok=True)
    rng = random.Random(ctx.seed * 31 + 5)
    nsec = 3
    expected = set()
    cfg_sections = []
    for k in range(nsec):
        db = os.path.join(root, f'db{k}.sqlite')
        con = sqlite3.connect(db)
        con.execute('CREATE TABLE users (id TEXT, name TEXT)')
        for i in range(rng.randrange(2, 6)):
            ident, name = f'u{i}', f'n{k}_{i}_{rng.randrange(1000)}'
            con.execute('INSERT INTO users VALUES (?, ?)', (ident, name))
            expected.add(f'<http://ex.org/user/{ident}> <http://ex.org/name{k}> "{name}"')
        con.commit()
        con.close()
        mp = os.path.join(root, f'm{k}.ttl')
        with open(mp, 'w') as f:
            f.write(f'''@prefix rr: <http://www.w3.org/ns/r2rml#> .
<http://ex.org/TM{k}> rr:logicalTable [ rr:tableName "users" ];
  rr:subjectMap [ rr:template "http://ex.org/user/{{id}}" ];
  rr:predicateObjectMap [ rr:predicate <http://ex.org/name{k}>; rr:objectMap [ rr:column "name" ] ] .
''')
        cfg_sections.append(f'[DS{k}]\nmappings={mp}\ndb_url=sqlite:///{db}\n')
    for n in procs:
        rd = os.path.join(root, f'run{n}')
        os.makedirs(rd, exist_ok=True)
        cfg = os.path.join(rd, 'c.ini')
        with open(cfg, 'w') as f:
            f.write(f'[CONFIGURATION]\nnumber_of_processes={n}\nlogging_level=CRITICAL\n' + ''.join(cfg_sections))
        out = os.path.join(rd, 'res.json')
        p = subprocess.run([sys.executable, l, cfg, out], env=child_env(), cwd=rd, capture_output=True, text=True, timeout=600)
        inp = {'kind': 'multi-section', 'nproc': n, 'sections': nsec, 'seed': ctx.seed}
        ctx.case(inp, nontrivial=True, kind=f'lib multi-section:nproc={n}')
        if p.returncode != 0 or not os.path.exists(out):
            ctx.violation(f'materialize_set over {nsec} sections failed with number_of_processes={n}: {(p.stderr or "")[-300:]}', inp)
            continue
        with open(out) as f:
            got = {x.strip() for x in json.load(f)}
        if got != expected:
            ctx.violation(f'{nsec} data source sections with same-named tables, number_of_processes={n}: {len(expected - got)} statement(s) lost, '
                          f'{len(got - expected)} extra, e.g. {sorted(expected ^ got)[:2]}', inp)


def shared_statements_case(ctx, procs):
    """CLI runs over a mapping whose rules, inside ONE mapping group, generate identical statements (two triples maps with the same
    subject template and class over sources with overlapping rows; several rules per group under every partitioning mode because
    subjects, predicates and objects share their invariants).  The expected lines are computed from the data; every process count
    - in particular more processes than groups - must write each statement exactly once."""
    root = os.path.join(ctx.tmp, 'shared')
    os.makedirs(root, exist_ok=True)
    rng = random.Random(ctx.seed * 17 + 3)
    ids_a = [f'p{i}' for i in range(rng.randrange(4, 9))]
    ids_b = ids_a[len(ids_a) // 2:] + [f'q{i}' for i in range(rng.randrange(2, 5))]
    for name, ids in (('a.csv', ids_a), ('b.csv', ids_b)):
        with open(os.path.join(root, name), 'w') as f:
            f.write('id,team\n' + ''.join(f'{i},t{int(i[1:]) % 2}\n' for i in ids))
    mp = os.path.join(root, 'm.ttl')
    with open(mp, 'w') as f:
        f.write('@prefix rr: <http://www.w3.org/ns/r2rml#> .\n@prefix rml: <http://semweb.mmlab.be/ns/rml#> .\n@prefix ql: <http://semweb.mmlab.be/ns/ql#> .\n'
                + ''.join(f'''<http://ex.org/TM{k}> rml:logicalSource [ rml:source "{os.path.join(root, src)}"; rml:referenceFormulation ql:CSV ];
  rr:subjectMap [ rr:template "http://ex.org/person/{{id}}"; rr:class <http://ex.org/Person> ];
  rr:predicateObjectMap [ rr:predicate <http://ex.org/team>; rr:objectMap [ rr:template "http://ex.org/team/{{team}}" ] ] .
''' for k, src in enumerate(['a.csv', 'b.csv'])))
    expected = set()
    for i in set(ids_a) | set(ids_b):
        expected.add(f'<http://ex.org/person/{i}> <http://www.w3.org/1999/02/22-rdf-syntax-ns#type> <http://ex.org/Person>')
        expected.add(f'<http://ex.org/person/{i}> <http://ex.org/team> <http://ex.org/team/t{int(i[1:]) % 2}>')
    for mode in ('NO', 'PARTIAL-AGGREGATIONS'):
        for n in procs:
            rd = os.path.join(root, f'run_{mode}_{n}')
            os.makedirs(rd, exist_ok=True)
            out = os.path.join(rd, 'out.nt')
            cfg = os.path.join(rd, 'c.ini')
            with open(cfg, 'w') as f:
                f.write(f'[CONFIGURATION]\nnumber_of_processes={n}\nlogging_level=CRITICAL\nmapping_partitioning={mode}\noutput_file={out}\n[DS]\nmappings={mp}\n')
            p = subprocess.run([sys.executable, '-m', 'morph_kgc', cfg], env=child_env(), cwd=rd, capture_output=True, text=True, timeout=600)
            inp = {'kind': 'shared-statements', 'nproc': n, 'mode': mode, 'seed': ctx.seed}
            ctx.case(inp, nontrivial=True, kind=f'cli shared statements:{mode}:nproc={n}')
            if p.returncode != 0 or not os.path.exists(out):
                ctx.violation(f'CLI run failed with number_of_processes={n}, {mode}: {(p.stderr or "")[-300:]}', inp)
                continue
            with open(out, encoding='utf-8') as f:
                lines = [l[:-2] for l in f.read().split('\n') if l]
            if sorted(lines) != sorted(expected):
                dup = sorted({l for l in lines if lines.count(l) > 1})
                ctx.violation(f'number_of_processes={n}, {mode}: the file holds {len(lines)} lines for {len(expected)} statements '
                              f'({len(dup)} written more than once, e.g. {dup[:1]}; missing {sorted(expected - set(lines))[:1]})', inp)


def run(ctx, lean, findings):
    drv = ctx.get_driver() if ctx.model_available else None
    if not drv:
        ctx.notes.append('driver unavailable: correspondence with the model skipped, direct oracles only')
    shape_info = shape_from_gen(lean)
    chunk, buf = io_sizes(ctx.tmp)
    ctx.notes.append(f'open() here: text chunk {chunk}, buffer {buf}; cores {os.cpu_count()}')
    cores = os.cpu_count() or 4
    rng = ctx.rng
    big = ctx.tier == 'thorough' or ctx.escalate

    # ---- (1) io layers in process -------------------------------------------------------------------
    shapes = [(5, 150), (200, 20), (2000, 150), (6000, 150), (200, 3000), (60, 12000), (5, 9000), (300, 9000), (1, 0), (40000, 60)]
    for i in range(ctx.budget(8, 60)):
        n, ml = shapes[i % len(shapes)] if i < len(shapes) else rng.choice(shapes)
        io_case(ctx, drv, rng.randrange(10 ** 9), n, ml, chunk, buf, rng.random() < 0.5, True, shape_info)
    for i in range(ctx.budget(300, 6000)):
        c = rng.choice([1, 2, 3, 7, 16, 50, 64, 100, 256, 1000, 8192])
        b = rng.choice([1, 2, 5, 16, 33, 64, 128, 512, 4096, 8192, 20000])
        io_case(ctx, drv, rng.randrange(10 ** 9), rng.randrange(0, 40), rng.choice([0, 3, 30, c, 2 * max(c, b)]), c, b,
                rng.random() < 0.5, False, shape_info)

    # ---- (2) data set, library path, expected statements ---------------------------------------------
    ds = make_dataset(ctx.tmp, ctx.seed, 2 if big else 1)
    expected = expected_from_lib(ctx, ds, [1, 2, 4])

    multi_section_case(ctx, [1, 2, 8])
    shared_statements_case(ctx, [1, 2, 4, 8])

    # ---- (3) CLI: single process first (gives the number of groups), then the process counts ---------
    first = cli_batch(ctx, drv, ds, [{'nproc': 1, 'mode': None, 'variant': 'file', 'tag': 'p1'}], expected, chunk, buf, shape_info, None)
    G = max(2, len([c for c in first[0][1]['calls'] if c['payloads']]))
    ctx.notes.append(f'mapping groups writing to the output file: {G}')
    single = first[0][1].get('lines')
    if expected is None:
        expected = list(single.elements()) if single else None
    elif single is not None and first[0][0]['rc'] == 0 and single != collections.Counter(expected) and not first[0][1]['violations']:
        ctx.violation('the single-process file differs from materialize_set', {'kind': 'cli', 'ds_seed': ds['seed'], 'ds_scale': ds['scale'],
                                                                               'nproc': 1, 'mode': None, 'variant': 'file', 'G': G})
    specs = [{'nproc': n, 'mode': None, 'variant': 'file', 'tag': f'p{n}'} for n in sorted({2, 3, 8, 2 * cores})]
    specs.append({'nproc': 3, 'mode': None, 'variant': 'dir', 'tag': 'dir3'})
    cli_batch(ctx, drv, ds, specs, expected, chunk, buf, shape_info, G, workers=3)

    # ---- (4) forced schedules --------------------------------------------------------------------------
    nsched = ctx.budget(12, 200) * (3 if ctx.escalate and ctx.tier == 'quick' else 1)
    specs = []
    for i in range(nsched):
        mode = 'ordered' if i % 2 == 0 else 'barrier'
        specs.append({'nproc': rng.choice([2, 3, 4, G, G + 3]), 'mode': mode, 'sched_seed': rng.randrange(10 ** 6), 'variant': 'file',
                      'inject': mode == 'barrier' and i % 4 == 1, 'tag': f's{i}'})
    cli_batch(ctx, drv, ds, specs, expected, chunk, buf, shape_info, G, workers=4)

    # ---- (5) thorough: a second, larger data set with other seeds ----------------------------------------
    if ctx.tier == 'thorough':
        ds2 = make_dataset(ctx.tmp, ctx.seed + 1000, 3)
        exp2 = expected_from_lib(ctx, ds2, [1, 4])
        f2 = cli_batch(ctx, drv, ds2, [{'nproc': 1, 'mode': None, 'variant': 'file', 'tag': 'L1'}], exp2, chunk, buf, shape_info, None)
        G2 = max(2, len([c for c in f2[0][1]['calls'] if c['payloads']]))
        specs = [{'nproc': n, 'mode': None, 'variant': 'file', 'tag': f'L{n}'} for n in sorted({2, 8, 2 * cores})]
        specs += [{'nproc': rng.choice([2, 4, G2]), 'mode': 'barrier', 'sched_seed': rng.randrange(10 ** 6), 'variant': 'file',
                   'inject': i % 2 == 0, 'tag': f'Ls{i}'} for i in range(6)]
        cli_batch(ctx, drv, ds2, specs, exp2, chunk, buf, shape_info, G2, workers=3)


def replay(ctx, data):
    if data.get('input', {}).get('kind') == 'multi-section':
        before = len(ctx.violations)
        ctx.seed = data['input'].get('seed', 0)
        multi_section_case(ctx, [data['input']['nproc']])
        return len(ctx.violations) > before
    if data.get('input', {}).get('kind') == 'shared-statements':
        before = len(ctx.violations)
        ctx.seed = data['input'].get('seed', 0)
        shared_statements_case(ctx, [data['input']['nproc']])
        return len(ctx.violations) > before
    inp = data['input']
    chunk, buf = io_sizes(ctx.tmp)
    shape_info = {'lit_total': 3, 'n_triple': 1}
    if inp.get('kind') == 'io':
        io_case(ctx, None, inp['seed'], inp['n'], inp['maxlen'], inp['chunk'], inp['buf'], inp['wide'], True, shape_info)
        return bool(ctx.violations)
    ds = make_dataset(ctx.tmp, inp['ds_seed'], inp['ds_scale'])
    if inp.get('kind') == 'lib':
        expected_from_lib(ctx, ds, sorted({1, inp['nproc']}))
        return bool(ctx.violations)
    base, _ = lib_run(ctx, ds, 1, 'replay')
    expected = [f'{t} .' for t in base] if base is not None else None
    for attempt in range(3):        # scheduling dependent failures: three attempts
        spec = {'nproc': inp['nproc'], 'mode': inp.get('mode'), 'sched_seed': inp.get('sched_seed'), 'variant': inp.get('variant', 'file'),
                'inject': inp.get('inject'), 'G': inp.get('G'), 'tag': f'replay{attempt}'}
        r = run_cli(ctx, ds, spec)
        res = analyse(r, ds, expected, chunk, buf, shape_info)
        if res['violations']:
            print('REPLAY: ' + res['violations'][0][:300])
            return True
    return False
