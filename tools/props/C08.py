"""C08 — statements land in exactly the graphs their graph maps name."""
import os
import re

import coregen as cg
import corecases as cc

PROP = 'C08'
LEAN_TARGETS = ['MorphKgc.Props.C08', 'MorphKgc.Props.CoreFuncs']
GEN_KEYS = ['core']
M = 'MorphKgc.Props.C08'
THEOREMS = [{'name': f'Props.C08.{n}', 'module': M} for n in [
    'C08_graph_terms', 'C08_null_graph_places_nothing', 'C08_default_graph_iff', 'C08_projection_spec', 'C08_projection',
    'C08_class_gets_subject_graphs', 'C08_graph_terms_append', 'C08_graph_terms_one_side', 'C08_graph_terms_comm',
    'C08_graph_terms_congr', 'C08_graph_terms_length']]
# the triple assembly and graph-term code of `_materialize_rml_rule`, translated from /repo, is equal to Model.rowTriple
THEOREMS += [{'name': 'Props.CoreFuncs.rowTriple_eq', 'module': 'MorphKgc.Props.CoreFuncs'}]
RULE = ('documents with 0-2 constant / template / reference graph maps on subject maps and on predicate-object maps, rr:defaultGraph alone and '
        'among others, classes, NULL graph values x CSV tables; both formats are run: (a) the N-QUADS result against Spec.evalDoc (fourth '
        'component), (b) the N-TRIPLES result against the graph-less projection of the N-QUADS result, tokenised term by term, '
        '(c) model correspondences I6/I7 as in C01. non-trivial = at least one graph map and a non-empty result; distinct = hash of (document, tables).')
TRUSTED_BASE = [
    'C01_refinement_partial (engine model = generation rules) and its trusted base',
    'a regular-expression tokeniser for token-safe lines in the projection oracle',
]
ASSUMPTIONS = ['cell values are label/IRI-safe in the projection oracle (C05 findings would otherwise make lines unparsable)']


TERM = re.compile(r'<[^>]*>|_:[^\s]+|"(?:[^"\\]|\\.)*"(?:@[A-Za-z0-9-]+|\^\^<[^>]*>)?')


def terms_of(line):
    """the terms of one emitted statement (token-safe data: IRIs and labels without spaces)"""
    out, i = [], 0
    s = line.rstrip(' ')
    while i < len(s):
        m = TERM.match(s, i)
        if not m:
            return None
        out.append(m.group(0))
        i = m.end()
        if i < len(s):
            if s[i] != ' ':
                return None
            i += 1
    return out


def has_graph_maps(doc):
    return any(t['subject'].get('graphs') or any(p.get('graphs') for p in t['poms']) for t in doc['tms'])


def one_case(ctx, drv, case):
    kq, rq = cc.engine(case, fmt='N-QUADS')
    rules_q = cg.rules_to_json(cg.LAST_RULES['rml_df']) if 'rml_df' in cg.LAST_RULES else None
    kt, rt = cc.engine(case, fmt='N-TRIPLES')
    inp = {'doc': case.doc, 'tables': {os.path.basename(p): r for p, r in case.tables.items()},
           'columns': {os.path.basename(p): c for p, c in case.columns.items()}}
    ctx.case(case.key(), nontrivial=(kq == 'ok' and bool(rq) and has_graph_maps(case.doc)), kind='graphs',
             sample={'summary': case.summary(), 'nquads': rq[:2] if kq == 'ok' else rq})
    ctx.traces_validated += 1
    from props.C01 import triage
    if kq != 'ok' or kt != 'ok':
        ctx.violation(f'materialization failed: {rq if kq != "ok" else rt}', inp, finding=triage(case))
        return
    # (b) projection, independent of the model
    q = [terms_of(l) for l in rq]
    if any(x is None or len(x) not in (3, 4) for x in q):
        ctx.bump('untokenisable output (C05 domain)')
        q = None
    if q is not None:
        proj = {' '.join(x[:3]) for x in q}
        trip = set(rt)
        if proj != trip:
            ctx.violation(f'N-TRIPLES result is not the graph-less projection of the N-QUADS result: only in projection {sorted(proj - trip)[:2]}, '
                          f'only in N-TRIPLES {sorted(trip - proj)[:2]}', inp, finding=triage(case))
            return
    if drv:
        # (a) placement against the generation rules
        sp = cc.spec(drv, case, fmt='N-QUADS')
        if sp != rq:
            ctx.violation(f'graph placement differs from the generation rules: missing {[x for x in sp if x not in rq][:2]!r}, '
                          f'extra {[x for x in rq if x not in sp][:2]!r}', inp, finding=triage(case))
            return
        # (c) correspondences
        m = drv.call('eval', rules=rules_q, tables=case.tables_json(), fmt='N-QUADS')
        if 'ok' not in m or sorted(m['ok']) != rq:
            ctx.disagree('I7 N-QUADS', inp, str(m)[:300], rq[:5])
        nm = cc.canon_rules(cc.normalize_model(drv, case))
        rr = cc.canon_rules(rules_q)
        if nm != rr:
            ctx.disagree('I6 graph propagation in the rule table', inp, [x for x in nm if x not in rr][:2], [x for x in rr if x not in nm][:2])
        quads = drv.call('quads', doc=cg.doc_for_driver(case.doc), tables=case.tables_json())
        if sorted({a for a, _ in quads}) != rt:
            ctx.disagree('projection: N-TRIPLES result vs triple parts of Spec quads', inp, sorted({a for a, _ in quads})[:3], rt[:3])


def run(ctx, lean, findings):
    rng = ctx.rng
    drv = ctx.get_driver() if ctx.model_available else None
    n = ctx.budget(45, 1500) * (3 if ctx.escalate else 1)
    for it in range(n):
        case = cc.make_case(rng, os.path.join(ctx.tmp, f'c{it}'), value_kind='plain', graphs=True, null_rate=0.25, max_tms=3, max_poms=2)
        # make graph maps frequent
        for tm in case.doc['tms']:
            cols = case.columns[tm['source']]
            if rng.random() < 0.6:
                tm['subject']['graphs'] = [cg.gen_termmap(rng, cols, 'graph', 'plain') for _ in range(rng.randrange(1, 3))]
            for pom in tm['poms']:
                if rng.random() < 0.5:
                    pom['graphs'] = [cg.gen_termmap(rng, cols, 'graph', 'plain') for _ in range(rng.randrange(1, 3))]
        case.write_mapping()
        one_case(ctx, drv, case)
        if not ctx.escalate and ctx.elapsed() > (75 if ctx.tier == 'quick' else 780):
            break


def replay(ctx, data):
    from props.C01 import build_case
    case = build_case(os.path.join(ctx.tmp, 'rp'), data['input'])
    before = len(ctx.violations)
    one_case(ctx, ctx.get_driver(), case)
    return len(ctx.violations) > before
