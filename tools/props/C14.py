"""C14 — function-valued term maps yield the function applied to each row."""
import copy
import json
import math
import os
import re

import coregen as cg
import fnmlgen as fg

PROP = 'C14'
LEAN_TARGETS = ['MorphKgc.Props.C14', 'MorphKgc.Props.C14b', 'MorphKgc.Props.C14Now']
GEN_KEYS = ['fnml', 'canon', 'null']
M = 'MorphKgc.Props.C14'
MB = 'MorphKgc.Props.C14b'
THEOREMS = [{'name': f'Props.C14.{n}', 'module': M} for n in [
    'gen_ok', 'paramsDistinct_iff', 'C14_frame_is_rowwise', 'C14_apply', 'C14_apply_partial', 'C14_bind_by_iri', 'C14_nested', 'C14_nested_partial',
    'C14_leaf', 'C14_nested_one', 'C14_generated', 'C14_row_local', 'C14_row_local_rule', 'C14_other_rules_indep', 'C14_other_rules_indep_rule',
    'C14_partition_indep', 'C14_term', 'C14_F1_empty_list', 'C14_F1_list_with_none', 'C14_F1_iri_aborts', 'C14_F3_empty_frame',
    'C14_F4_language_map', 'C14_F5_non_str', 'C14_F6_parent_function_reads_child']] + [{'name': f'Props.C14.{n}', 'module': MB} for n in [
    'C14_builtin_registry', 'C14_builtin_replace', 'C14_builtin_replace_char', 'C14_builtin_split_explode', 'C14_builtin_split_char',
    'C14_builtin_concat', 'C14_builtin_trim', 'C14_builtin_reverse', 'C14_builtin_index_of', 'C14_builtin_array_get',
    'C14_builtin_array_slice', 'C14_builtin_if_cast', 'C14_builtin_if', 'C14_builtin_escape', 'C14_builtin_to_string',
    'C14_builtin_case', 'C14_builtin_hash', 'C14_builtin_round', 'C14_F2_hash_iri', 'C14_F7_upper_url']]
# hypothesis-free theorems of the repaired shapes the translator reads from /repo now (Props/C14Now.lean)
THEOREMS += [{'name': f'Props.C14.{n}', 'module': 'MorphKgc.Props.C14Now'} for n in ['C14_current_order', 'C14_apply_current', 'C14_current_assign', 'C14_current_lang_termtype', 'C14_F4_current', 'C14_F2_current']]
RULE = ('(I11) execute_fnml on a frame vs Model.Fnml.executeFnml: execution trees of depth 0-3 over built-ins and 19 seeded UDFs (results: str, '
        'None, NaN, NA token, list, tuple, empty list, list with None, int, float, bool, exception), arguments constant / reference / template / '
        'nested, the function table passed to the model as facts obtained by calling the Python function objects; row lists compared in order. '
        '(I7) materialize_set vs Model.Fnml.evalRuleF on the rule table of the real parser, functions in subject / predicate / object / graph / '
        'language / datatype position with term types IRI / blank node / literal. (oracle) the expected statements computed in Python by '
        'calling the function objects directly on each row; three partition modes; union with unrelated rules. (built-ins) every registered '
        'built-in against an independent Python contract and against the Lean shape semantics. non-trivial = at least one function call on a '
        'non-empty frame; distinct = hash of (execution table, frame) / (document, tables, format) / (function id, arguments).')
TRUSTED_BASE = [
    'modelled, not verified: pandas column assignment from a list (dtype inference), Series.replace(list, None), dropna(subset), DataFrame.explode '
    '(list-likes spread, empty list -> NaN, scalars kept), string concatenation of object columns (NaN propagates), the .str accessor; tied to the '
    'code by the translator (statement patterns of execute_fnml, call sites of _materialize_fnml_execution) and by the correspondences I11/I7',
    'Python library behaviour behind the abstract parameter PyLib (Unicode case mapping upper/lower/title, html.escape, datetime.strptime, eval, '
    'repr of a list, int(), round(float()), SHA-256, uuid4): covered by the direct contract oracle and by correspondence only',
    'a Python exception is modelled as a poisoned cell (same outcome as the immediate abort, up to which exception is reported)',
    'xsd:boolean canonicalisation (.str.lower()) has its ASCII meaning in the model (limit inherited from C15): end-to-end model comparisons '
    'over non-ASCII text under xsd:boolean are skipped and counted; the direct oracle covers them',
]
ASSUMPTIONS = ['mappings are well-formed: every execution names a registered function, gives each parameter at most once, references existing columns; '
               'execution ids are not column names; data columns are not named like the engine\'s working columns (subject, predicate, object, graph, '
               'triple, lang_datatype, aux_fnml_template_data, reference_results)',
               'only_printable_chars is left at its default',
               'uuid() is nondeterministic by contract: only the shape of its result is checked']

RML = cg.RML
VTYPE = {RML + 'constant': 'constant', RML + 'template': 'template', RML + 'reference': 'reference', RML + 'functionExecution': 'execution'}
VTYPE_INV = {v: k for k, v in VTYPE.items()}


# ----------------------------------------------------------------------------------------------------
# cells
# ----------------------------------------------------------------------------------------------------

OTHERS = {}


def enc_atom(v):
    import pandas as pd
    if isinstance(v, str):
        return {'s': v}
    if v is None:
        return {'n': 'None'}
    if isinstance(v, float) and math.isnan(v):
        return {'n': 'nan'}
    if v is pd.NA:
        return {'n': '<NA>'}
    OTHERS.setdefault(str(v), v)
    return {'o': str(v)}


def enc_val(v):
    if isinstance(v, (list, tuple)):
        return {'l': [enc_atom(x) for x in v]}
    return enc_atom(v)


def dec_atom(c):
    if 's' in c:
        return c['s']
    if 'n' in c:
        return None if c['n'] == 'None' else float('nan')
    if 'o' in c:
        return OTHERS[c['o']]
    raise ValueError('poisoned argument')


def has_surrogate(x):
    return cg_has_surrogate(json.dumps(x, ensure_ascii=False))


def cg_has_surrogate(s):
    return any(0xD800 <= ord(c) <= 0xDFFF for c in s)


# ----------------------------------------------------------------------------------------------------
# the function table as facts
# ----------------------------------------------------------------------------------------------------

class FunTable:
    def __init__(self, reg):
        self.reg = reg
        self.facts = {}

    def sigs(self):
        return [{'fn': f, 'params': [[k, v] for k, v in m['parameters'].items()]} for f, m in self.reg.items()]

    def add(self, fn, args):
        key = json.dumps([fn, args], sort_keys=True)
        if key in self.facts:
            return False
        try:
            kwargs = {k: dec_atom(c) for k, c in args}
            res = enc_val(self.reg[fn]['function'](**kwargs))
        except Exception as e:  # noqa
            res = {'x': type(e).__name__}
        self.facts[key] = {'fn': fn, 'args': args, 'res': res}
        return True

    def json(self):
        return list(self.facts.values())


NOFACT = 'NOFACT '


def missing_in(obj, acc):
    if isinstance(obj, dict):
        if 'x' in obj and isinstance(obj['x'], str) and obj['x'].startswith(NOFACT):
            acc.append(json.loads(obj['x'][len(NOFACT):]))
        for v in obj.values():
            missing_in(v, acc)
    elif isinstance(obj, list):
        for v in obj:
            missing_in(v, acc)
    elif isinstance(obj, str) and obj.startswith(NOFACT):
        acc.append(json.loads(obj[len(NOFACT):]))


def with_facts(ft, call):
    """repeat `call()` until the model asks for no further fact"""
    for _ in range(40):
        out = call()
        miss = []
        missing_in(out, miss)
        new = False
        for m in miss:
            new = ft.add(m['fn'], m['args']) or new
        if not new:
            return out
    raise RuntimeError('facts do not converge')


# ----------------------------------------------------------------------------------------------------
# I11: execute_fnml on a frame
# ----------------------------------------------------------------------------------------------------

def df_rows_of(e):
    rows = []
    for x in fg.execs_of(e):
        if not x['inputs']:
            rows.append({'exec': x['id'], 'fn': x['fn'], 'param': 'None', 'vtype': 'other', 'value': 'None'})
        for p, a in x['inputs']:
            vt = {'c': 'constant', 'r': 'reference', 't': 'template', 'f': 'execution'}[a['k']]
            rows.append({'exec': x['id'], 'fn': x['fn'], 'param': p, 'vtype': vt, 'value': a['exec']['id'] if a['k'] == 'f' else a['v']})
    seen, out = set(), []
    for r in rows:
        k = json.dumps(r, sort_keys=True)
        if k not in seen:
            seen.add(k)
            out.append(r)
    return out


def fnml_df_of(rows):
    import pandas as pd
    return pd.DataFrame([{'function_execution': r['exec'], 'function_map_value': r['fn'], 'parameter_map_value': r['param'],
                          'value_map_type': VTYPE_INV.get(r['vtype'], 'None'), 'value_map_value': r['value']} for r in rows],
                        columns=['function_execution', 'function_map_value', 'parameter_map_value', 'value_map_type', 'value_map_value'])


_cfg = {}


def config(udf_path):
    if udf_path not in _cfg:
        from morph_kgc.args_parser import load_config_from_argument
        _cfg[udf_path] = load_config_from_argument(f'[CONFIGURATION]\nlogging_level=CRITICAL\nudfs={udf_path}\n[DS]\nmappings=/nonexistent.ttl\n')
    return _cfg[udf_path]


AUX = ('aux_fnml_template_data', 'reference_results')


def real_execute(df_rows, frame, eid, udf_path, cols):
    import pandas as pd
    from morph_kgc.fnml.fnml_executer import execute_fnml
    data = pd.DataFrame([{c: r[c] for c in cols} for r in frame], columns=cols, dtype=object)
    try:
        out = execute_fnml(data, fnml_df_of(df_rows), eid, config(udf_path))
    except RecursionError:
        return 'exc', 'RecursionError'
    except Exception as e:  # noqa
        return 'exc', type(e).__name__
    rows = []
    for rec in out.to_dict(orient='records'):
        rows.append({c: enc_val(v) for c, v in rec.items() if c not in AUX})
    return 'ok', rows


def canon_frame(fr):
    return [{k: v for k, v in sorted(dict((c, a) for c, a in reversed(row)).items())} for row in fr]


def poison_of(fr):
    for row in fr:
        for _, c in row:
            if 'x' in c:
                return c['x']
    return None


def i11_oracle(ctx, e, frame, real, reg, inp):
    """the property at the level of execute_fnml, without the Lean model: for every input row (tagged by the column `_rid`) the values of the
    result column are the values of the execution computed by calling the Python function objects on that row"""
    def expected(asis):
        flags = fg.Flags()
        return [sorted(json.dumps(enc_atom(v), sort_keys=True) for v in fg.eval_exec(e, row, reg, fg.NA_DEFAULT, flags, asis)) for row in frame], flags
    exp, flags = expected(())

    def matches(exp, flags):
        if real[0] == 'exc':
            return flags.raised
        got = [[] for _ in frame]
        for r in real[1]:
            got[int(r['_rid']['s'])].append(json.dumps(r[e['id']], sort_keys=True))
        return [sorted(g) for g in got] == exp
    if matches(exp, flags):
        return
    fid = None
    if real[0] == 'exc' and flags.hash_iri and real[1] == 'NameError':
        fid = 'C14_F2'
    elif real[0] == 'exc' and flags.nonstr and real[1] == 'ValueError':
        fid = 'C14_F5'
    else:
        for f, on in (('F1', flags.badlist), ('F7', flags.url_scheme)):
            if on and matches(*expected((f,))):
                fid = 'C14_' + f
                break
        if fid is None and flags.badlist and flags.url_scheme and matches(*expected(('F1', 'F7'))):
            fid = 'C14_F1'
    what = (f'execute_fnml raises {real[1]}' if real[0] == 'exc' else 'the result column of execute_fnml does not hold, row by row, the values of the function')
    ctx.violation(what + f' (execution of {e["fn"]}, {len(frame)} row(s))', dict(inp, kind='frame'), finding=fid)


def i11_case(ctx, drv, ft, e, frame, udf_path, kind, columns):
    frame = [dict(r, _rid=str(i)) for i, r in enumerate(frame)]
    columns = list(columns) + ['_rid']
    df_rows = df_rows_of(e)
    inp = {'df': df_rows, 'frame': frame, 'id': e['id']}
    if cg_has_surrogate(json.dumps(inp, ensure_ascii=False)):
        ctx.bump('skipped: lone surrogate')
        return
    real = real_execute(df_rows, copy.deepcopy(frame), e['id'], udf_path, columns)
    ctx.case(['I11', df_rows, frame], nontrivial=len(frame) > 0, kind=kind,
             sample={'execution': e['fn'].rsplit('/', 1)[-1], 'depth': sum(1 for _ in fg.execs_of(e)), 'rows': len(frame),
                     'real': real[0], 'out_rows': len(real[1]) if real[0] == 'ok' else real[1]})
    ctx.traces_validated += 1
    i11_oracle(ctx, e, frame, real, ft.reg, dict(inp, exec=e, columns=columns))
    if not drv:
        return real, None
    fr_json = [[[c, {'s': v}] for c, v in row.items()] for row in frame]

    def call(spec=False):
        return drv.call('fnml_execute', df=df_rows, sigs=ft.sigs(), facts=ft.json(), id=e['id'], frame=fr_json, spec=spec)
    m = with_facts(ft, call)
    pz = poison_of(m['frame'])
    if real[0] == 'exc':
        if pz is None:
            ctx.disagree('I11 execute_fnml raises where the model does not', inp, 'ok', real[1])
        elif pz != real[1]:
            ctx.bump('I11 exception class differs (not compared)')
    else:
        mod = canon_frame(m['frame'])
        rl = [{k: v for k, v in sorted(r.items())} for r in real[1]]
        if pz is not None:
            ctx.disagree('I11 the model aborts where execute_fnml does not', inp, pz, 'ok')
        elif mod != rl:
            ctx.disagree('I11 execute_fnml frame', inp, mod[:6], rl[:6])
    # the Lean specification (per row) against the model when no call returns a bad list, and against the Python oracle
    if not m['scope_f1']:
        s = with_facts(ft, lambda: call(True))
        if canon_frame(s['frame']) != canon_frame(m['frame']):
            ctx.disagree('I11 Spec.execRow vs Model.executeFnml outside scope_C14_F1', inp, canon_frame(s['frame'])[:4], canon_frame(m['frame'])[:4])
    return real, m


def gen_frame(rng, columns):
    rows = []
    for i in range(rng.choice([0, 1, 1, 2, 3, 4])):
        r = {}
        for c in columns:
            v = fg.gen_value(rng)
            while v in ('', 'nan'):           # frames handed to execute_fnml have passed _preprocess_data
                v = fg.gen_value(rng)
            r[c] = v
        rows.append(r)
    if rows and rng.random() < 0.25:
        rows.append(dict(rows[0]))
    return rows


# ----------------------------------------------------------------------------------------------------
# I7 + oracle: end to end
# ----------------------------------------------------------------------------------------------------

def fnml_df_json(fnml_df):
    rows = []
    for _, r in fnml_df.iterrows():
        rows.append({'exec': str(r['function_execution']), 'fn': str(r['function_map_value']), 'param': str(r['parameter_map_value']),
                     'vtype': VTYPE.get(str(r['value_map_type']), 'other'), 'value': str(r['value_map_value'])})
    return rows


def model_run(drv, ft, rules, df_rows, tables_json, fmt, na=None):
    """union of Model.Fnml.evalRuleF over the asserted rules -> ('exc', name) | ('ok', set, has_nan)"""
    out, nan, abort = set(), False, None
    for i, r in enumerate(rules):
        if not r.get('asserted', True):
            continue
        kw = {}
        if na is not None:
            kw['na'] = na

        def call():
            return drv.call('fnml_rule', rules=rules, index=i, df=df_rows, sigs=ft.sigs(), facts=ft.json(), tables=tables_json, fmt=fmt, **kw)
        o = with_facts(ft, call)
        if 'abort' in o:
            abort = o['abort']
        else:
            for m in o['ok']:
                if m is None:
                    nan = True
                else:
                    out.add(m)
    if abort is not None:
        return 'exc', abort
    return 'ok', out, nan


ABORT_F5 = ('AttributeError', 'TypeError', 'UFuncTypeError', 'ValueError')


def exc_class(msg):
    return msg.split(':', 1)[0]


def real_strings(real):
    if real[0] == 'ok':
        return set(real[1]), False
    if real[0] == 'nonstr':
        return {x for x in real[1] if x not in ('nan', 'None', '<NA>')}, True
    return None, False


def compare_model(ctx, real, mod, inp):
    if mod[0] == 'exc':
        if real[0] == 'exc':
            return
        if mod[1] == 'nonStr' and real[0] == 'nonstr':
            return               # coarse inside scope_C14_F5: the model only says "defect"
        ctx.disagree('I7 the model aborts where materialize_set does not', inp, mod[1], real[0])
        return
    if real[0] == 'exc':
        ctx.disagree('I7 materialize_set raises where the model does not', inp, 'ok', real[1])
        return
    rs, rnan = real_strings(real)
    if rs != mod[1] or rnan != mod[2]:
        ctx.disagree('I7 materialize_set vs Model.Fnml.evalRuleF', inp,
                     {'only_model': sorted(mod[1] - rs)[:3], 'nan': mod[2]}, {'only_real': sorted(rs - mod[1])[:3], 'nan': rnan})


def agrees(real, exp):
    """the engine gives what the oracle expects; when a user function raised on some row, the run may also have aborted (whether the
    engine reaches that call depends on the unspecified order in which the inputs of an execution are evaluated)"""
    if exp[0] == 'ok' and real[0] == 'ok' and sorted(real[1]) == exp[1]:
        return True
    return exp[2].raised and real[0] == 'exc' and exp[0] == 'ok'


def sig_ok(name, msg):
    """does the exception the engine raised carry the signature of the mechanism that the as-is variant aborted with?"""
    cls = exc_class(msg)
    if name == 'emptyFrame':
        return 'Can only use .str accessor' in msg or 'float64' in msg
    if name == 'nonStr':
        return cls in ABORT_F5
    if name == 'AttributeError':
        return "has no attribute 'strip'" in msg
    return True


def variant_matches(real, var, subset):
    rs, rnan = real_strings(real)
    if var[0] == 'abort':
        if real[0] == 'exc':
            return sig_ok(var[1], real[1])
        return 'F5' in subset and real[0] == 'nonstr'
    if real[0] == 'exc':
        if 'F2' in subset and var[2].hash_iri and exc_class(real[1]) == 'NameError':
            return True
        if 'F6' in subset and (exc_class(real[1]) == 'KeyError' or 'F3' in subset and sig_ok('emptyFrame', real[1])):
            return True
        if 'F5' in subset and exc_class(real[1]) == 'ValueError' and 'substring not found' in real[1]:
            return True
        return var[2].raised and not any(f in subset for f in ('F2', 'F5', 'F6'))
    vs = set(var[1])
    if 'F6' in subset:
        if not (vs <= rs and all(' <http://ex.org/p/j> ' in x for x in rs - vs)):
            return False
    elif vs != rs:
        return False
    return not rnan or var[2].nan_member or 'F5' in subset


def attribute(real, case, exp, reg, open_ids=None):
    """which open finding, if any, explains the difference between the engine and the oracle: the finding's own defective behaviour, reproduced
    by the as-is variant of the oracle (for one flagged finding alone, or for all flagged ones together), must give what the engine gave"""
    fl = exp[2]
    flagged = [f for f, on in (('F2', fl.hash_iri), ('F3', fl.empty_frame), ('F1', fl.badlist), ('F4', fl.lang_fn), ('F5', fl.nonstr),
                               ('F6', fl.join_fn), ('F7', fl.url_scheme)) if on]
    if open_ids is not None:
        flagged = [f for f in flagged if 'C14_' + f in open_ids]
    if not flagged:
        return None
    subsets = [[f] for f in flagged] + ([flagged] if len(flagged) > 1 else [])
    for sub in subsets:
        var = fg.oracle(case['doc'], case['tables'], case['fmt'], reg=reg, asis=[f for f in sub if f != 'F6'], skip_join='F6' in sub)
        if variant_matches(real, var, sub):
            if len(sub) == 1:
                return 'C14_' + sub[0]
            # several defects together: name the first whose removal from the variant changes its outcome
            for f in sub:
                rest = [g for g in sub if g != f]
                v2 = fg.oracle(case['doc'], case['tables'], case['fmt'], reg=reg, asis=[g for g in rest if g != 'F6'], skip_join='F6' in rest)
                if (v2[0], v2[1]) != (var[0], var[1]):
                    return 'C14_' + f
            return 'C14_' + sub[0]
    return None


def e2e_case(ctx, drv, ft, reg, case, paths, d, kind, modes=False, union=None):
    mp, up = fg.materialise(case, d, paths)
    fmt = case['fmt']
    inp = {'kind': 'e2e', 'doc': case['doc'], 'tables': case['tables'], 'cols': case['cols'], 'fmt': fmt}
    if cg_has_surrogate(json.dumps(inp, ensure_ascii=False)):
        ctx.bump('skipped: lone surrogate')
        return None
    real = fg.run_engine(mp, up, fmt)
    exp = fg.oracle(case['doc'], case['tables'], fmt, reg=reg)
    ncalls = sum(1 for _ in fg.doc_execs(case['doc']))
    ctx.case(['e2e', case['doc'], case['tables'], fmt], nontrivial=ncalls > 0 and any(case['tables'].values()), kind=kind,
             sample={'tms': len(case['doc']['tms']), 'executions': ncalls, 'fmt': fmt, 'real': real[0],
                     'n': len(real[1]) if real[0] != 'exc' else real[1][:60], 'flags': exp[2].asdict()})
    ctx.traces_validated += 1
    # ---- direct oracle ---------------------------------------------------------------------------
    agree = agrees(real, exp)
    if not agree:
        fid = attribute(real, case, exp, reg, OPEN_IDS[0])
        if real[0] == 'exc':
            what = f'materialize_set aborts with {real[1][:100]}; expected {len(exp[1])} statement(s)'
        else:
            rs, rnan = real_strings(real)
            what = (f'statements differ from the function applied row by row: missing {sorted(set(exp[1]) - rs)[:2]!r}, unexpected '
                    f'{sorted(rs - set(exp[1]))[:2]!r}' + (', and a float nan in the result set' if rnan else ''))
        ctx.violation(what, inp, finding=fid)
    # ---- correspondence I7 ------------------------------------------------------------------------
    txt = json.dumps([case['doc'], case['tables']], ensure_ascii=False)
    if drv and (cg.XSD + 'boolean') in txt and not txt.isascii():
        # Model/Canon.lean gives `.str.lower()` its ASCII meaning only (stated limit of C15); the oracle above has no such limit
        ctx.bump('I7 skipped: xsd:boolean over non-ASCII text (ASCII-only lower-casing in the model)')
    elif drv and 'rml_df' in cg.LAST_RULES:
        rules = cg.rules_to_json(cg.LAST_RULES['rml_df'])
        df_rows = fnml_df_json(cg.LAST_RULES['fnml_df'])
        tables_json = [cg.table_json('DS', paths_of(d, case)[n], rows) for n, rows in case['tables'].items()]
        mod = model_run(drv, ft, rules, df_rows, tables_json, fmt)
        compare_model(ctx, real, mod, inp)
    # ---- the three partition modes ------------------------------------------------------------------
    if modes:
        for mode in ('PARTIAL-AGGREGATIONS', 'MAXIMAL'):
            other = fg.run_engine(mp, up, fmt, partitioning=mode)
            same = (other[0] == real[0]) and (other[0] == 'exc' or real_strings(other) == real_strings(real))
            ctx.case(['modes', case['doc'], case['tables'], fmt, mode], nontrivial=ncalls > 0, kind='oracle modes')
            if not same:
                ctx.violation(f'result under mapping_partitioning={mode} differs from the default: {other[0]} vs {real[0]}',
                              dict(inp, kind='modes', mode=mode), finding=None)
    return real


def paths_of(d, case):
    return {n: os.path.join(d, n + '.csv') for n in case['tables']}


def union_case(ctx, reg, rng, d, it):
    """adding unrelated rules / executions does not change a rule's statements: f(A ∪ B) = f(A) ∪ f(B)"""
    a, pa = fg.gen_case(rng, os.path.join(d, 'a'), kinds=['str', 'null', 'list'], allow_join=False, allow_langfn=False, max_tms=1)
    # B: other triples maps over the SAME tables, other execution ids, among them executions of the same functions with other arguments
    counter = [100]
    tms = []
    names = sorted(a['tables'])
    for i in range(rng.randrange(1, 3)):
        src = rng.choice(names)
        cols = a['cols'][src]
        fn = rng.choice([e['fn'] for e in fg.doc_execs(a['doc'])] or [fg.UDF + 'ident'])
        if fn in (fg.MK + 'hash_iri',):
            fn = fg.UDF + 'ident'
        e = fg.gen_exec(rng, cols, rng.randrange(0, 2), counter, kinds=['str', 'null', 'list'], fn=fn)
        tms.append({'id': f'http://ex.org/tm/B{i}', 'source': src, 'subject': {'kind': 'template', 'value': 'http://ex.org/b/{id}', 'termtype': 'iri'},
                    'poms': [{'predicate': {'kind': 'constant', 'value': 'http://ex.org/p/b', 'termtype': 'iri'},
                              'object': {'kind': 'function', 'exec': e, 'termtype': 'literal'}}]})
    b = {'doc': {'tms': tms}, 'tables': a['tables'], 'cols': a['cols'], 'fmt': a['fmt']}
    ab = {'doc': {'tms': a['doc']['tms'] + tms}, 'tables': a['tables'], 'cols': a['cols'], 'fmt': a['fmt']}
    if cg_has_surrogate(json.dumps(ab, ensure_ascii=False)):
        return
    res = {}
    for name, c in (('a', a), ('b', b), ('ab', ab)):
        mp, up = fg.materialise(c, os.path.join(d, name), pa)
        res[name] = fg.run_engine(mp, up, c['fmt'])
    ctx.case(['union', ab['doc'], ab['tables'], ab['fmt']], nontrivial=True, kind='oracle union with unrelated rules',
             sample={'a': res['a'][0], 'b': res['b'][0], 'ab': res['ab'][0]})
    inp = {'kind': 'union', 'a': a['doc'], 'b': b['doc'], 'tables': a['tables'], 'cols': a['cols'], 'fmt': a['fmt']}
    flags = fg.oracle(ab['doc'], ab['tables'], ab['fmt'], reg=reg)[2]
    known = 'C14_F2' if flags.hash_iri else ('C14_F3' if flags.empty_frame else ('C14_F7' if flags.url_scheme else None))
    if any(r[0] == 'exc' for r in res.values()):
        if res['ab'][0] != 'exc' or (res['a'][0] != 'exc' and res['b'][0] != 'exc'):
            ctx.violation(f'adding unrelated rules changes whether the run aborts: A {res["a"][0]}, B {res["b"][0]}, A+B {res["ab"][0]}', inp, finding=known)
        return
    sa, sb, sab = (real_strings(res[k])[0] for k in ('a', 'b', 'ab'))
    if sab != (sa | sb):
        ctx.violation('the statements of a mapping are not the union of the statements of its rules: '
                      f'lost {sorted((sa | sb) - sab)[:2]!r}, new {sorted(sab - (sa | sb))[:2]!r}', inp, finding=None)


# ----------------------------------------------------------------------------------------------------
# built-ins: independent contracts (Python) and the Lean shape semantics
# ----------------------------------------------------------------------------------------------------

def is_space(c):
    n = ord(c)
    return 9 <= n <= 13 or 28 <= n <= 32 or n in (0x85, 0xA0, 0x1680, 0x2028, 0x2029, 0x202F, 0x205F, 0x3000) or 0x2000 <= n <= 0x200A


def c_trim(s):
    i, j = 0, len(s)
    while i < j and is_space(s[i]):
        i += 1
    while j > i and is_space(s[j - 1]):
        j -= 1
    return s[i:j]


def c_replace(s, old, new):
    if old == '':
        return new + ''.join(c + new for c in s)
    out, i = [], 0
    while i < len(s):
        if s.startswith(old, i):
            out.append(new)
            i += len(old)
        else:
            out.append(s[i])
            i += 1
    return ''.join(out)


def c_split(s, sep):
    out, cur, i = [], [], 0
    while i < len(s):
        if s.startswith(sep, i):
            out.append(''.join(cur))
            cur = []
            i += len(sep)
        else:
            cur.append(s[i])
            i += 1
    out.append(''.join(cur))
    return out


def c_index(seq, i):
    n = len(seq)
    if i < 0:
        i += n
    if not 0 <= i < n:
        raise IndexError
    return seq[i]


def c_slice(seq, a, b):
    n = len(seq)

    def cl(i):
        return min(i, n) if i >= 0 else n - min(-i, n)
    a2 = cl(a)
    b2 = n if b is None else cl(b)
    return seq[a2:b2] if b2 > a2 else seq[:0]


G, MKN, IDL = fg.GREL, fg.MK, fg.IDLAB


def contract(fid, kw):
    """the documented result for keyword arguments `kw` (strings), computed without the function under test; raises for documented errors"""
    import hashlib
    import html
    s = kw.get('string')
    if fid == G + 'string_replace':
        return c_replace(s, kw['old_substring'], kw['new_substring'])
    if fid == G + 'string_trim':
        return c_trim(s)
    if fid == G + 'reverse':
        return ''.join(reversed(s))
    if fid == G + 'toUpperCase':
        return s.upper()
    if fid == G + 'toLowerCase':
        return s.lower()
    if fid == G + 'toTitleCase':
        return s.title()
    if fid == G + 'string_toString':
        return str(s)
    if fid == G + 'string_split':
        if kw['separator'] == '':
            raise ValueError
        return repr(c_split(s, kw['separator']))
    if fid == MKN + 'string_split_explode':
        if kw['separator'] == '':
            raise ValueError
        return c_split(s, kw['separator'])
    if fid == MKN + 'concat':
        return kw['string1'] + kw.get('separator', '') + kw['string2']
    if fid == G + 'escape':
        return html.escape(s) if kw['mode'] == 'html' else None
    if fid == MKN + 'hash':
        return hashlib.sha256(s.encode('utf-8')).hexdigest()
    if fid == MKN + 'hash_iri':
        return 'http://example.com/ns#' + hashlib.sha256(s.encode('utf-8')).hexdigest()
    if fid == MKN + 'controls_if_cast':
        return kw.get('value_false') if s.lower() in ('', 'false', 'no', 'off', '0') else kw['value_true']
    if fid == G + 'controls_if':
        return kw['value_true'] if eval(kw['boolean_expression']) else kw.get('value_false')
    if fid == G + 'string_indexOf':
        return s.find(kw['substring'])                      # GREL: -1 when absent
    if fid in (G + 'array_get', G + 'array_slice'):
        try:
            seq = eval(kw['string_list'])
        except Exception:  # noqa
            seq = kw['string_list']
        a = int(kw['start'])
        if kw.get('end'):
            r = c_slice(seq, a, int(kw['end']))
            return str(r)
        if fid == G + 'array_get':
            return c_index(seq, a)
        return str(c_slice(seq, a, None))
    if fid == G + 'math_round':
        n = kw['number']
        if ',' in n and '.' in n:
            n = n.replace(',', '')
        elif ',' in n:
            n = n.replace(',', '.')
        return str(round(float(n)))
    if fid == G + 'date_toDate':
        from datetime import datetime
        return str(datetime.strptime(s, kw['format_code']).date())
    if fid == IDL + 'toUpperCaseURL':
        from urllib.parse import quote
        u = kw['url']
        low = u.lower()
        for sch in ('https://', 'http://'):
            if low.startswith(sch):
                return sch + quote(u[len(sch):].upper(), safe='-._~')
        return 'http://' + quote(u.upper(), safe='-._~')
    return NotImplemented


STRS = ['', 'a', 'abc', 'aXbXc', 'aaa', 'abab', ' a ', '\ta\n', '\n', ' \x1c x\x85', ' pad　', 'a b', 'x|y|z', '||', 'a;b;;c', ';', 'no-sep',
        'ß', 'İ', 'ǆ', 'straße', 'ǅungla', 'ﬁn', 'HELLO world', "it's", 'q"r', '<a&b>', 'back\\slash', '.*', '(a)', '[a]', 'a.b', '$1', '\\1', '^a$',
        'http://ex.org/a b', 'https://Ex.org/Path?q=1', 'HTTP://X', 'ftp://x', 'www.ex.org/é', 'FALSE', 'False', 'no', 'OFF', '0', 'yes', 'true', '1',
        'İstanbul', 'ΑΣ', '\U0001F600x', '1,5', '4,894.57', '10.7', '2.5', '3.5', '-0.5', '1e3', '07/04/2024', '2024-02-30', 'é', 'ÀB']


def gen_builtin_args(rng, fid, names, lean=False):
    def s():
        return rng.choice(STRS) if rng.random() < 0.8 else cg.rand_value(rng, 'any', maxlen=6)
    kw = {}
    for k in names:
        if k in ('separator',):
            kw[k] = rng.choice([';', '|', ',', ' ', 'ab', 'a', 'X', '.', '||', ''])
        elif k == 'old_substring':
            kw[k] = rng.choice(['a', 'X', 'ab', 'aa', '.', '|', ' ', '', 'abc', '(', '\\', 'ß', 'zz'])
        elif k == 'new_substring':
            kw[k] = rng.choice(['', 'Z', 'aa', 'X', '\\1', '$&', 'ab'])
        elif k == 'substring':
            kw[k] = rng.choice(['a', 'b', 'X', 'ab', '', ' ', 'zz', '|'])
        elif k == 'mode':
            kw[k] = rng.choice(['html', 'html', 'xml', 'url', ''])
        elif k == 'string_list':
            base = c_split(rng.choice(['a;b;c', 'x', 'a;;b', "it's;q\"r;\\", 'é;ß;İ', ';', 'a b;c']), ';')
            kw[k] = rng.choice([repr(base), repr(base), str(base), 'abcdef', 'no list', '[]', "['a'", '12', "'quoted'", 'İß€x', ''])
        elif k in ('start', 'end'):
            kw[k] = rng.choice(['0', '1', '2', '-1', '-2', '5', '-7', '3']) if rng.random() < 0.9 else rng.choice(['x', '', '1.5', ' 1 '])
        elif k == 'boolean_expression':
            kw[k] = rng.choice(['True', 'False', '1 < 2', '2 < 1', '0', "''", "'a'", '[]', '1 +', 'undefined_name'])
        elif k == 'number':
            kw[k] = rng.choice(['1,5', '4,894.57', '10.7', '2.5', '3.5', '-0.5', '1e3', '7', 'abc', '', '1,2,3', 'nan', 'inf'])
        elif k == 'format_code':
            kw[k] = rng.choice(['%d/%m/%Y', '%Y-%m-%d', '%m/%d/%Y'])
        elif k in ('value_true', 'value_false', 'string1', 'string2', 'url', 'string'):
            kw[k] = s()
            if fid == G + 'date_toDate':
                kw[k] = rng.choice(['07/04/2024', '2024-02-29', '2024-02-30', '31/12/1999', 'x'])
        else:
            kw[k] = s()
    return kw


def lib_facts(kws):
    """Python library behaviour for the abstract parameter PyLib, for the strings of this call"""
    import hashlib
    import html
    strs = {v for v in kws.values() if isinstance(v, str)}
    n = kws.get('number')
    if isinstance(n, str):
        strs |= {n.replace(',', ''), n.replace(',', '.')}
    u = kws.get('url')
    if isinstance(u, str):
        strs |= {u[:8], u[8:], u[:7], u[7:]}
    lib = {k: [] for k in ('lower', 'upper', 'title', 'html', 'sha', 'strptime', 'repr', 'eval', 'int', 'truthy', 'round')}
    for x in strs:
        lib['lower'].append([x, x.lower()])
        lib['upper'].append([x, x.upper()])
        lib['title'].append([x, x.title()])
        lib['html'].append([x, html.escape(x)])
        lib['sha'].append([x, hashlib.sha256(x.encode('utf-8', 'surrogatepass')).hexdigest()])
        try:
            lib['int'].append([x, int(x)])
        except Exception:  # noqa
            lib['int'].append([x, None])
        try:
            lib['round'].append([x, {'s': str(round(float(x)))}])
        except Exception as e:  # noqa
            lib['round'].append([x, {'x': type(e).__name__}])
    if 'boolean_expression' in kws:
        try:
            lib['truthy'].append([kws['boolean_expression'], bool(eval(kws['boolean_expression']))])
        except Exception:  # noqa
            pass
    if 'format_code' in kws:
        from datetime import datetime
        try:
            lib['strptime'].append([kws['string'], kws['format_code'], {'s': str(datetime.strptime(kws['string'], kws['format_code']).date())}])
        except Exception as e:  # noqa
            lib['strptime'].append([kws['string'], kws['format_code'], {'x': type(e).__name__}])
    if 'string_list' in kws:
        sl = kws['string_list']
        try:
            v = eval(sl)
            if isinstance(v, list):
                lib['eval'].append([sl, [enc_atom(x) for x in v]])
                seqs = [v]
            elif isinstance(v, str):
                lib['eval'].append([sl, ['text', v]])
                seqs = []
            else:
                lib['eval'].append([sl, 'other'])
                seqs = []
        except Exception:  # noqa
            lib['eval'].append([sl, 'keep'])
            seqs = []
        for seq in seqs:
            for a in range(-len(seq) - 1, len(seq) + 2):
                for b in list(range(-len(seq) - 1, len(seq) + 2)) + [None]:
                    sub = seq[a:b]
                    lib['repr'].append([[enc_atom(x) for x in sub], str(sub)])
    if 'separator' in kws and isinstance(kws.get('string'), str) and kws['separator'] != '':
        parts = kws['string'].split(kws['separator'])
        lib['repr'].append([[enc_atom(x) for x in parts], str(parts)])
    return lib


def builtin_case(ctx, drv, reg, fid, kw, findings_open):
    meta = reg[fid]
    try:
        real = ('ok', meta['function'](**kw))
    except Exception as e:  # noqa
        real = ('exc', type(e).__name__)
    inp = {'kind': 'builtin', 'fn': fid, 'args': kw}
    ctx.case(['builtin', fid, kw], nontrivial=True, kind='built-in ' + fid.rsplit('#', 1)[-1].rsplit('/', 1)[-1],
             sample={'fn': fid.rsplit('#', 1)[-1], 'args': kw, 'result': repr(real[1])[:80]})
    # ---- the documented contract -----------------------------------------------------------------
    try:
        exp = ('ok', contract(fid, kw))
    except Exception as e:  # noqa
        exp = ('exc', type(e).__name__)
    if exp != ('ok', NotImplemented):
        same = exp[0] == real[0] and (exp[0] == 'exc' or (exp[1] == real[1] and type(exp[1]) is type(real[1])))
        if not same:
            fid_known = None
            if fid == MKN + 'hash_iri' and real == ('exc', 'NameError'):
                fid_known = 'C14_F2'
            elif fid == G + 'string_indexOf' and real == ('exc', 'ValueError') and exp == ('ok', -1):
                fid_known = 'C14_F5'
            elif fid == IDL + 'toUpperCaseURL' and kw['url'].lower().startswith(('http://', 'https://')):
                fid_known = 'C14_F7'
            ctx.violation(f'built-in {fid} on {kw!r}: {real!r}, documented: {exp!r}', inp, finding=fid_known)
    # ---- the Lean shape semantics ------------------------------------------------------------------
    if drv and not cg_has_surrogate(json.dumps(kw, ensure_ascii=False)):
        args = [[k, {'s': v}] for k, v in kw.items()]
        m = drv.call('fnml_builtin', fn=fid, args=args, lib=lib_facts(kw))
        if m is None:
            ctx.disagree('built-in registry: function not in Gen.builtins', inp, None, fid)
            return
        r = ('exc', None) if 'x' in m else ('ok', m)
        if real[0] == 'exc':
            if r[0] != 'exc':
                ctx.disagree('built-in raises where the Lean shape does not', inp, m, real[1])
        elif r[0] == 'exc':
            ctx.disagree('Lean shape raises where the built-in does not', inp, m, repr(real[1])[:80])
        elif enc_val(real[1]) != m:
            ctx.disagree('built-in result vs Lean shape', inp, m, enc_val(real[1]))


OPEN_IDS = [None]
UUID_RE = re.compile(r'^[0-9a-f]{8}-[0-9a-f]{4}-4[0-9a-f]{3}-[89ab][0-9a-f]{3}-[0-9a-f]{12}$')


# ----------------------------------------------------------------------------------------------------
# crafted cases: one per mechanism, so that every run meets them whatever the seed
# ----------------------------------------------------------------------------------------------------

def crafted_cases():
    U, Gp, Mk = fg.UDF, fg.GREL, fg.MK
    P = Gp + 'valueParam'

    def ex(i, fn, inputs):
        return {'id': f'http://ex.org/exec/C{i}', 'fn': fn, 'inputs': inputs}
    r = lambda c: {'k': 'r', 'v': c}
    c = lambda v: {'k': 'c', 'v': v}
    t = lambda v: {'k': 't', 'v': v}
    f = lambda e: {'k': 'f', 'exec': e}
    rows = [{'id': '1', 'v': 'a|b', 'w': 'x y'}, {'id': '2', 'v': 'n0', 'w': ' pad '}, {'id': '3', 'v': 'e|e', 'w': 'q"r\\s\'t'},
            {'id': '4', 'v': 'b', 'w': 'İß'}, {'id': '5', 'v': '', 'w': 'skipped'}]
    subj = {'kind': 'template', 'value': 'http://ex.org/s/{id}', 'termtype': 'iri'}
    pc = lambda x: {'kind': 'constant', 'value': 'http://ex.org/p/' + x, 'termtype': 'iri'}
    out = []

    def case(name, poms, subject=None, fmt='N-QUADS', rows_=None, extra_tms=(), tables=None):
        doc = {'tms': [{'id': 'http://ex.org/tm/T', 'source': 't0', 'subject': subject or subj, 'poms': poms}] + list(extra_tms)}
        tb = tables or {'t0': rows_ if rows_ is not None else rows}
        out.append((name, {'doc': doc, 'tables': tb, 'cols': {k: ['id', 'v', 'w'] for k in tb}, 'fmt': fmt}))
    fobj = lambda e, **kw: dict({'kind': 'function', 'exec': e, 'termtype': 'literal'}, **kw)
    # binding by parameter IRI: non-commutative, decorator order (b, a) / (z, x, y), inputs listed in another order
    case('bind sub', [{'predicate': pc('a'), 'object': fobj(ex(1, U + 'sub', [[U + 'pb', r('w')], [U + 'pa', r('v')]]))},
                      {'predicate': pc('b'), 'object': fobj(ex(2, U + 'pair', [[U + 'py', r('w')], [U + 'pz', c('+')], [U + 'px', r('v')]]))},
                      {'predicate': pc('c'), 'object': fobj(ex(3, Gp + 'string_replace', [[Gp + 'param_replace', c('Z')], [P, r('v')], [Gp + 'param_find', c('|')]]))}])
    # nesting: the inner list is spread first and each element meets only its own row
    inner = ex(4, U + 'bars', [[U + 'px', r('v')]])
    case('nested', [{'predicate': pc('a'), 'object': fobj(ex(5, Mk + 'concat', [[Gp + 'valueParam1', f(inner)], [Gp + 'valueParam2', t('<{id}>')]]))},
                    {'predicate': pc('b'), 'object': fobj(ex(6, U + 'dup', [[U + 'px', f(ex(7, U + 'bars', [[U + 'px', r('v')]]))]]))}])
    # two executions of the same function in one rule; function in subject, predicate, graph
    case('positions', [{'predicate': {'kind': 'function', 'exec': ex(8, Mk + 'concat', [[Gp + 'valueParam1', c('http://ex.org/p/')], [Gp + 'valueParam2', r('id')]]), 'termtype': 'iri', 'implicit_tt': True},
                        'object': fobj(ex(9, Mk + 'concat', [[Gp + 'valueParam1', r('w')], [Gp + 'valueParam2', r('id')]])),
                        'graph': {'kind': 'function', 'exec': ex(10, Mk + 'concat', [[Gp + 'valueParam1', c('http://ex.org/g/')], [Gp + 'valueParam2', r('id')]]), 'termtype': 'iri', 'implicit_tt': True}}],
         subject={'kind': 'function', 'exec': ex(11, Mk + 'concat', [[Gp + 'valueParam1', c('http://ex.org/s/')], [Gp + 'valueParam2', r('id')]]), 'termtype': 'iri'})
    # NULL results, NA tokens, escape chain at the FNML site, IRI strip, blank node
    case('null and escape', [{'predicate': pc('a'), 'object': fobj(ex(12, U + 'none_if_n', [[U + 'px', r('v')]]))},
                             {'predicate': pc('b'), 'object': fobj(ex(13, U + 'ident', [[U + 'px', r('w')]]))},
                             {'predicate': pc('c'), 'object': fobj(ex(14, U + 'ident', [[U + 'px', r('w')]]), termtype='iri')},
                             {'predicate': pc('d'), 'object': fobj(ex(15, Gp + 'string_trim', [[P, r('w')]]), termtype='bnode')},
                             {'predicate': pc('e'), 'object': fobj(ex(16, U + 'blank_if_b', [[U + 'px', r('v')]]), lang='en')},
                             {'predicate': pc('f'), 'object': fobj(ex(17, Mk + 'string_split_explode', [[P, r('v')], [Gp + 'param_string_sep', c('|')]]), datatype='http://ex.org/dt')}])
    # the known findings, one mapping each
    case('F1 empty list', [{'predicate': pc('a'), 'object': fobj(ex(18, U + 'empty_if_e', [[U + 'px', r('v')]]))}])
    case('F1 list with None (IRI)', [{'predicate': pc('a'), 'object': fobj(ex(19, U + 'with_none', [[U + 'px', r('v')]]), termtype='iri')}])
    case('F1 NA token in list', [{'predicate': pc('a'), 'object': fobj(ex(20, Mk + 'string_split_explode', [[P, c('a;;b')], [Gp + 'param_string_sep', c(';')]]))}])
    case('F2 hash_iri', [{'predicate': pc('a'), 'object': fobj(ex(21, Mk + 'hash_iri', [[P, r('v')]]), termtype='iri')}])
    case('F3 no rows', [{'predicate': pc('a'), 'object': fobj(ex(22, U + 'ident', [[U + 'px', r('v')]]))}], rows_=[{'id': '1', 'v': '', 'w': 'x'}])
    case('F4 language map', [{'predicate': pc('a'), 'object': fobj(ex(23, U + 'ident', [[U + 'px', r('v')]]), langfn=ex(24, U + 'k', []))}], rows_=rows[:1])
    case('F5 int result', [{'predicate': pc('a'), 'object': fobj(ex(25, U + 'length', [[U + 'px', r('v')]]))}])
    case('F5 int result typed', [{'predicate': pc('a'), 'object': fobj(ex(26, U + 'length', [[U + 'px', r('v')]]), datatype=cg.XSD + 'integer')}])
    parent = {'id': 'http://ex.org/tm/P', 'source': 't1', 'poms': [],
              'subject': {'kind': 'function', 'exec': ex(27, Mk + 'concat', [[Gp + 'valueParam1', c('http://ex.org/par/')], [Gp + 'valueParam2', r('v')]]), 'termtype': 'iri'}}
    case('F6 join', [{'predicate': pc('j'), 'object': {'kind': 'parent', 'parent': parent['id'], 'join': [['id', 'id']]}},
                     {'predicate': pc('v'), 'object': {'kind': 'reference', 'value': 'v', 'termtype': 'literal'}}], extra_tms=[parent],
         tables={'t0': [{'id': '1', 'v': 'child', 'w': 'x'}], 't1': [{'id': '1', 'v': 'parent', 'w': 'y'}]})
    case('F7 toUpperCaseURL', [{'predicate': pc('a'), 'object': fobj(ex(28, fg.IDLAB + 'toUpperCaseURL', [[fg.IDLAB + 'str', r('w')]]))}],
         rows_=[{'id': '1', 'v': 'a', 'w': 'https://ex.org/a b'}, {'id': '2', 'v': 'a', 'w': 'plain text'}])
    return out


# ----------------------------------------------------------------------------------------------------

def udf_files_case(ctx):
    """Two materialisations in ONE process whose configurations name different UDF files defining the same function identifier
    differently: every run must apply the function of ITS file (the UDF contract is per configuration, not per process)."""
    import morph_kgc
    d = os.path.join(ctx.tmp, 'udf_files')
    os.makedirs(d, exist_ok=True)
    with open(os.path.join(d, 'p.csv'), 'w') as f:
        f.write('id,name\n1,ann\n2,bob\n')
    mp = os.path.join(d, 'm.ttl')
    with open(mp, 'w') as f:
        f.write(f'''@prefix rml: <http://w3id.org/rml/> .
<http://ex/TM> a rml:TriplesMap; rml:logicalSource [ rml:source "{os.path.join(d, 'p.csv')}"; rml:referenceFormulation rml:CSV ];
  rml:subjectMap [ rml:template "http://ex/s/{{id}}" ];
  rml:predicateObjectMap [ rml:predicate <http://ex/tag>; rml:objectMap [ rml:functionExecution <#Exec> ] ] .
<#Exec> rml:function <http://ex.org/udf/tagit> ;
  rml:input [ rml:parameter <http://ex.org/udf/px> ; rml:inputValueMap [ rml:reference "name" ] ] .
''')
    outs = {}
    seq = ['A', 'B', 'A']
    for k, tag in enumerate(seq):
        up = os.path.join(d, f'udf_{tag}.py')
        with open(up, 'w') as f:
            f.write(f"@udf(fun_id='http://ex.org/udf/tagit', x='http://ex.org/udf/px')\ndef tagit(x):\n    return x + '-{tag}'\n")
        cfg = f'[CONFIGURATION]\nnumber_of_processes=1\nlogging_level=CRITICAL\nudfs={up}\n[DS]\nmappings={mp}\n'
        try:
            outs[k] = {t.strip() for t in morph_kgc.materialize_set(cfg)}
        except Exception as e:   # noqa: BLE001
            outs[k] = {f'{type(e).__name__}: {str(e)[:200]}'}
    inp = {'kind': 'udf-files', 'sequence': seq}
    ctx.case(['udf-files'], nontrivial=True, kind='same function id in two UDF files, three runs in one process')
    for k, tag in enumerate(seq):
        want = {f'<http://ex/s/{i}> <http://ex/tag> "{n}-{tag}"' for i, n in (('1', 'ann'), ('2', 'bob'))}
        if outs[k] != want:
            ctx.violation(f'run {k + 1} of {seq} (udfs=udf_{tag}.py): the function of another run\'s UDF file was applied: got {sorted(outs[k])[:2]}, '
                          f'expected {sorted(want)[:2]}', inp)
            break


def run(ctx, lean, findings):
    rng = ctx.rng
    drv = ctx.get_driver() if ctx.model_available else None
    model = drv
    reg = fg.registry()
    ft = FunTable(reg)
    up = fg.write_udfs(os.path.join(ctx.tmp, 'udfs.py'))
    open_ids = {f['id'] for f in findings if f.get('status') == 'open'}
    OPEN_IDS[0] = open_ids
    mult = 3 if ctx.escalate else 1
    udf_files_case(ctx)

    # ---- the registry read by the translator is the registry the engine uses -----------------------
    from morph_kgc.fnml.built_in_functions import bif_dict
    model = drv
    if drv:
        gen = drv.call('fnml_gen')
        if gen['order'] is None:
            # the statement order of execute_fnml is not a recognised one (already a broken obligation): the frame-level model has no
            # meaning for this tree; the direct oracle and the built-in contracts decide
            model = None
            ctx.notes.append('execute_fnml: statement order not recognised, model comparisons (I11/I7) skipped')
        greg = {b['fn']: [list(p) for p in b['params']] for b in gen['builtins']}
        rreg = {f: [[k, v] for k, v in m['parameters'].items()] for f, m in bif_dict.items()}
        ctx.case(['registry', sorted(rreg)], nontrivial=True, kind='built-in registry')
        if greg != rreg:
            ctx.disagree('built-in registry (Gen.builtins vs bif_dict)', {'kind': 'registry'}, sorted(greg), sorted(rreg))
        # the engine's loader gives the same UDF registry as the harness
        from morph_kgc.fnml.fnml_executer import load_udfs
        lu = load_udfs(config(up))
        if {f: dict(m['parameters']) for f, m in lu.items()} != {f: dict(m['parameters']) for f, m in fg.udf_dict().items()}:
            ctx.disagree('load_udfs registry', {'kind': 'udf registry'}, sorted(fg.udf_dict()), sorted(lu))

    # ---- built-ins ------------------------------------------------------------------------------------
    n_b = ctx.budget(14, 250) * mult
    for fid, meta in bif_dict.items():
        names = list(meta['parameters'])
        if fid == fg.MK + 'uuid':
            vals = {meta['function']() for _ in range(5)}
            ctx.case(['builtin', fid], nontrivial=True, kind='built-in uuid')
            if len(vals) != 5 or not all(isinstance(v, str) and UUID_RE.match(v) for v in vals):
                ctx.violation('uuid() does not return distinct version-4 UUID strings', {'kind': 'builtin', 'fn': fid, 'args': {}}, finding=None)
            continue
        for _ in range(n_b):
            kw = gen_builtin_args(rng, fid, names)
            if not all(k in kw for k in names):
                continue
            # optional parameters are sometimes left out
            import inspect
            sig = inspect.signature(meta['function'])
            for k, prm in sig.parameters.items():
                if prm.default is not inspect.Parameter.empty and rng.random() < 0.4:
                    kw.pop(k, None)
            builtin_case(ctx, drv, reg, fid, kw, open_ids)

    # ---- crafted end-to-end cases -----------------------------------------------------------------------
    for i, (name, case) in enumerate(crafted_cases()):
        d = os.path.join(ctx.tmp, f'crafted{i}')
        e2e_case(ctx, model, ft, reg, case, None, d, 'crafted: ' + name, modes=(ctx.tier == 'thorough' or i < 4))

    # ---- I11 ----------------------------------------------------------------------------------------------
    n11 = ctx.budget(60, 3000) * mult
    for it in range(n11):
        columns = ['id'] + rng.sample(['v', 'w', 'A b', 'Ünï'], rng.randrange(1, 3))
        counter = [0]
        e = fg.gen_exec(rng, columns, rng.randrange(0, 4), counter)
        i11_case(ctx, model, ft, e, gen_frame(rng, columns), up, 'I11 random', columns)
        if ctx.tier == 'thorough' and not ctx.escalate and ctx.elapsed() > 240:
            break

    # ---- I7 + oracle ---------------------------------------------------------------------------------------
    n7 = ctx.budget(26, 900) * mult
    t_end = 75 if ctx.tier == 'quick' else 600
    for it in range(n7):
        d = os.path.join(ctx.tmp, f'e{it}')
        scope_free = rng.random() < 0.55
        case, paths = fg.gen_case(rng, d, kinds=['str', 'null', 'list'] if scope_free else None, allow_join=not scope_free,
                                  allow_langfn=not scope_free)
        e2e_case(ctx, model, ft, reg, case, paths, d, 'e2e scope-free' if scope_free else 'e2e any', modes=(it % 4 == 0))
        if not ctx.escalate and ctx.elapsed() > t_end:
            break

    # ---- union with unrelated rules ------------------------------------------------------------------------
    for it in range(ctx.budget(5, 150) * mult):
        union_case(ctx, reg, rng, os.path.join(ctx.tmp, f'u{it}'), it)
        if not ctx.escalate and ctx.elapsed() > t_end + (10 if ctx.tier == 'quick' else 90):
            break

    # ---- known findings: replay --------------------------------------------------------------------------------
    for f in findings:
        if f.get('status') == 'open' and f.get('replay'):
            if replay_input(ctx, f['replay'], os.path.join(ctx.tmp, 'kf_' + f['id'])):
                ctx.known(f['id'], f['what'])
            else:
                ctx.notes.append(f'finding {f["id"]} no longer reproduces')


def replay_input(ctx, inp, d):
    reg = fg.registry()
    kind = inp.get('kind', 'e2e')
    if kind == 'builtin':
        meta = reg[inp['fn']]
        try:
            real = ('ok', meta['function'](**inp['args']))
        except Exception as e:  # noqa
            real = ('exc', type(e).__name__)
        try:
            exp = ('ok', contract(inp['fn'], inp['args']))
        except Exception as e:  # noqa
            exp = ('exc', type(e).__name__)
        return exp != ('ok', NotImplemented) and exp != real
    if kind == 'frame':
        class Sink:
            def __init__(self):
                self.hit = False

            def violation(self, *a, **k):
                self.hit = True
        sink = Sink()
        up = fg.write_udfs(os.path.join(d + '_udfs.py'))
        real = real_execute(inp['df'], copy.deepcopy(inp['frame']), inp['id'], up, inp['columns'])
        i11_oracle(sink, inp['exec'], inp['frame'], real, reg, inp)
        return sink.hit
    if kind == 'union':
        res = {}
        for name, tms in (('a', inp['a']['tms']), ('b', inp['b']['tms']), ('ab', inp['a']['tms'] + inp['b']['tms'])):
            c = {'doc': {'tms': tms}, 'tables': inp['tables'], 'cols': inp['cols'], 'fmt': inp['fmt']}
            mp, up = fg.materialise(c, os.path.join(d, name))
            res[name] = fg.run_engine(mp, up, c['fmt'])
        if any(r[0] == 'exc' for r in res.values()):
            return res['ab'][0] != 'exc' or (res['a'][0] != 'exc' and res['b'][0] != 'exc')
        sa, sb, sab = (real_strings(res[k])[0] for k in ('a', 'b', 'ab'))
        return sab != (sa | sb)
    case = {'doc': inp['doc'], 'tables': inp['tables'], 'cols': inp['cols'], 'fmt': inp['fmt']}
    mp, up = fg.materialise(case, d)
    real = fg.run_engine(mp, up, case['fmt'])
    if kind == 'modes':
        other = fg.run_engine(mp, up, case['fmt'], partitioning=inp['mode'])
        return not ((other[0] == real[0]) and (other[0] == 'exc' or real_strings(other) == real_strings(real)))
    exp = fg.oracle(case['doc'], case['tables'], case['fmt'], reg=reg)
    return not agrees(real, exp)


def replay(ctx, data):
    if data.get('input', {}).get('kind') == 'udf-files':
        before = len(ctx.violations)
        udf_files_case(ctx)
        return len(ctx.violations) > before
    return replay_input(ctx, data['input'], os.path.join(ctx.tmp, 'rp'))
