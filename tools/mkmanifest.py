#!/usr/bin/env python3
"""Writes MANIFEST.json from the per-property metadata below (kept in one place so it stays valid)."""
import json, os
VERIF = os.path.dirname(os.path.dirname(os.path.abspath(__file__)))
props = [json.loads(l) for l in open(os.path.join(VERIF, 'properties.jsonl'))]

CLAIMED = {}
for fn in sorted(os.listdir(os.path.join(VERIF, 'tools', 'claims'))):
    if fn.endswith('.json'):
        CLAIMED[fn[:-5]] = json.load(open(os.path.join(VERIF, 'tools', 'claims', fn)))
NOT_APPLICABLE_REASON = 'check not built yet in this round; see DESIGN.md section 5 for the planned Lean model'

checks, na = [], []
for p in props:
    pid = p['id']
    if pid in CLAIMED:
        c = CLAIMED[pid]
        checks.append({
            'property_id': pid,
            'quick_cmd': f'./check {pid} quick',
            'thorough_cmd': f'./check {pid} thorough',
            'evidence_file': f'/verif/evidence/{pid}.json',
            'replay_cmd_template': f'./check {pid} --replay {{path}}',
            'engine': 'lean4-morphkgc',
            'level_claimed': {'category': 'proof', 'text': c['text'], 'design_ref': c['design']},
            'level_note': c['note'],
            'technique': c['technique'],
        })
    else:
        na.append({'property_id': pid, 'reason': NOT_APPLICABLE_REASON})

manifest = {
    'version': 1,
    'setup_cmd': './setup.sh',
    'hooks': {
        'guard': 'MORPH_KGC_VERIF',
        'enable': 'no source hooks: every seam is reached from outside (private functions in-process, CLI via subprocess/strace)',
        'baseline_off_cmd': 'cd /repo && /venv/bin/python -m pytest -ra -q -p no:cacheprovider --timeout=900 --continue-on-collection-errors',
        'source_commits': [],
        'add_only': True,
    },
    'engines': [{
        'name': 'lean4-morphkgc', 'path': 'lean/',
        'serves_properties': [c['property_id'] for c in checks],
        'kind_free_text': 'Lean 4 library MorphKgc (model + spec + theorems), Gen/ regenerated from /repo by tools/extract.py, '
                          'compiled driver mkdrv behind a JSON line protocol, Python correspondence harness tools/props/*.py',
    }],
    'checks': checks,
    'not_applicable': na,
    'notes': 'fix: commits in /repo are listed in known_findings.json (status=fixed). Checks take VERIF_SEED and VERIF_REPO.',
}
json.dump(manifest, open(os.path.join(VERIF, 'MANIFEST.json'), 'w'), indent=1)
print(len(checks), 'claimed;', len(na), 'not applicable')
