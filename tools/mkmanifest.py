#!/usr/bin/env python3
"""Writes MANIFEST.json from the per-property metadata below (kept in one place so it stays valid)."""
import json, os
VERIF = os.path.dirname(os.path.dirname(os.path.abspath(__file__)))
props = [json.loads(l) for l in open(os.path.join(VERIF, 'properties.jsonl'))]

CLAIMED = {
    'C20': dict(
        text='Lean 4 theorems over the SQL type table and lookup loop regenerated from relational_db.py on every run: the whole '
             'R2RML 10.2 table and every listed DBMS catalogue name decided completely (decide +kernel), parameter lists of any '
             'length by an inductive proof, inference frame conditions; correspondence of model and real lookup on generated names; '
             'end-to-end runs on SQLite with stubbed catalogue answers.',
        note='Trusted: Lean kernel; translator tools/extract.py (table by AST + constants, loop by shape); str.upper and re look-arounds '
             'modelled for ASCII; catalogue queries of non-SQLite DBMSs are not executed (answers stubbed).',
        technique='Lean 4 proof (decide +kernel over the regenerated table, induction for parameter lists) + translator + differential correspondence',
        design='5 (C20)'),
}
CLAIMED['C05'] = dict(
    text='Lean 4 theorems for every Unicode string: the literal escape chain regenerated from materializer.py satisfies a decidable '
         'side condition (decide) under which decode(escape v) = v and the body is a valid STRING_LITERAL_QUOTE (induction over the '
         'string); percent-encoding round-trips through UTF-8 (core utf8 lemma), leaves only unreserved/safe characters unencoded and '
         'always yields a valid IRIREF body; counter-witness theorems for the recorded defects. Correspondence of '
         '_materialize_template / falcon / urllib with the model; strict pyoxigraph parse + decode of every emitted line.',
    note='Trusted: Lean kernel; translator (escape chains, delimiters by AST); falcon/urllib encoders modelled and compared '
         '(all scalar values in the thorough tier); str.isprintable is a parameter; pyoxigraph as reference parser; the grammar reading in Spec/NTerm.lean. '
         'Open findings C05_F1, C05_F2, C05_F5 are excluded by narrow scope predicates.',
    technique='Lean 4 proof (induction over strings, decide on the regenerated escape chain) + translator + differential correspondence + strict-parser oracle',
    design='5 (C05)')

NOT_APPLICABLE_REASON = 'check not built yet in this round; see DESIGN.md section 5 for the planned Lean model'

checks, na = [], []
for p in props:
    pid = p['id']
    if pid in CLAIMED:
        c = CLAIMED[pid]
        checks.append({
            'property_id': pid,
            'quick_cmd': f'./check {pid} quick',
            'thorough_cmd': f'./check {pid} thorough',
            'evidence_file': f'/verif/evidence/{pid}.json',
            'replay_cmd_template': f'./check {pid} --replay {{path}}',
            'engine': 'lean4-morphkgc',
            'level_claimed': {'category': 'proof', 'text': c['text'], 'design_ref': c['design']},
            'level_note': c['note'],
            'technique': c['technique'],
        })
    else:
        na.append({'property_id': pid, 'reason': NOT_APPLICABLE_REASON})

manifest = {
    'version': 1,
    'setup_cmd': './setup.sh',
    'hooks': {
        'guard': 'MORPH_KGC_VERIF',
        'enable': 'no source hooks: every seam is reached from outside (private functions in-process, CLI via subprocess/strace)',
        'baseline_off_cmd': 'cd /repo && /venv/bin/python -m pytest -ra -q -p no:cacheprovider --timeout=900 --continue-on-collection-errors',
        'source_commits': [],
        'add_only': True,
    },
    'engines': [{
        'name': 'lean4-morphkgc', 'path': 'lean/',
        'serves_properties': [c['property_id'] for c in checks],
        'kind_free_text': 'Lean 4 library MorphKgc (model + spec + theorems), Gen/ regenerated from /repo by tools/extract.py, '
                          'compiled driver mkdrv behind a JSON line protocol, Python correspondence harness tools/props/*.py',
    }],
    'checks': checks,
    'not_applicable': na,
    'notes': 'fix: commits in /repo are listed in known_findings.json (status=fixed). Checks take VERIF_SEED and VERIF_REPO.',
}
json.dump(manifest, open(os.path.join(VERIF, 'MANIFEST.json'), 'w'), indent=1)
print(len(checks), 'claimed;', len(na), 'not applicable')
