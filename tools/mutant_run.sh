#!/bin/bash
# usage: tools/mutant_run.sh <patch.diff|-e 'python edit expr'> <Cxx> [tier]   — applies a change in a scratch worktree and runs a check on it
set -u
VROOT="$(cd "$(dirname "$0")/.." && pwd)"
PATCH="$1"; PROP="$2"; TIER="${3:-quick}"
WT=$(mktemp -d /tmp/mt_XXXXXX); rmdir "$WT"
git -C /repo worktree add -q "$WT" HEAD || exit 3
export VERIF_LEAN_DIR="${WT}_lean"; rsync -a "$VROOT"/lean/ "$VERIF_LEAN_DIR"/
if ! git -C "$WT" apply "$PATCH"; then echo "patch does not apply"; git -C /repo worktree remove --force "$WT"; exit 3; fi
( cd "$WT" && /venv/bin/python -c "import sys; sys.path.insert(0,'src'); import morph_kgc" ) || echo "MUTANT DOES NOT IMPORT"
VERIF_REPO="$WT" "$VROOT"/check "$PROP" "$TIER" 2>&1 | grep -v "^KNOWN-FINDING" | tail -4
rc=${PIPESTATUS[0]}
git -C /repo worktree remove --force "$WT"; rm -rf "$VERIF_LEAN_DIR"   # restore Gen/ from /repo
exit $rc
