"""
Generators, renderer and the direct oracle for mappings with function-valued term maps (C14).

  * seeded user-defined functions (`UDF_SOURCE`, written to a file that the engine loads through its `udfs` option and that this
    module loads with the same decorator text, so that the oracle can call the very same function objects directly);
  * abstract executions (function id + inputs: constant / reference / template / nested execution), term maps, triples maps;
  * rendering to RML Turtle in the syntax accepted by the repository's tests (test/rml-fnml);
  * the ORACLE: the property evaluated in plain Python, row by row, by calling the Python function objects directly and building
    the expected terms — no frames, no pandas, no Lean model.
"""
import itertools
import json
import math
import os
import re
from urllib.parse import quote

import coregen as cg

GREL = 'http://users.ugent.be/~bjdmeest/function/grel.ttl#'
MK = 'https://github.com/morph-kgc/morph-kgc/function/built-in.ttl#'
IDLAB = 'http://example.com/idlab/function/'
UDF = 'http://ex.org/udf/'
XSD = cg.XSD

UDF_SOURCE = '''
@udf(fun_id='http://ex.org/udf/sub', b='http://ex.org/udf/pb', a='http://ex.org/udf/pa')
def sub(b, a):
    return a + '-' + b

@udf(fun_id='http://ex.org/udf/pair', z='http://ex.org/udf/pz', x='http://ex.org/udf/px', y='http://ex.org/udf/py')
def pair(x, y, z='_'):
    return '(' + x + z + y + ')'

@udf(fun_id='http://ex.org/udf/ident', x='http://ex.org/udf/px')
def ident(x):
    return x

@udf(fun_id='http://ex.org/udf/none_if_n', x='http://ex.org/udf/px')
def none_if_n(x):
    return None if x[:1] in ('n', 'N') else x

@udf(fun_id='http://ex.org/udf/bars', x='http://ex.org/udf/px')
def bars(x):
    return x.split('|')

@udf(fun_id='http://ex.org/udf/dup', x='http://ex.org/udf/px')
def dup(x):
    return [x, x + x]

@udf(fun_id='http://ex.org/udf/tup', x='http://ex.org/udf/px')
def tup(x):
    return (x, x[::-1])

@udf(fun_id='http://ex.org/udf/empty_if_e', x='http://ex.org/udf/px')
def empty_if_e(x):
    return [] if x[:1] in ('e', 'E') else [x]

@udf(fun_id='http://ex.org/udf/with_none', x='http://ex.org/udf/px')
def with_none(x):
    return [x, None]

@udf(fun_id='http://ex.org/udf/length', x='http://ex.org/udf/px')
def length(x):
    return len(x)

@udf(fun_id='http://ex.org/udf/half', x='http://ex.org/udf/px')
def half(x):
    return len(x) / 2

@udf(fun_id='http://ex.org/udf/is_long', x='http://ex.org/udf/px')
def is_long(x):
    return len(x) > 3

@udf(fun_id='http://ex.org/udf/int_if_digit', x='http://ex.org/udf/px')
def int_if_digit(x):
    return int(x) if x.isdigit() and x.isascii() else x

@udf(fun_id='http://ex.org/udf/k')
def k():
    return 'k'

@udf(fun_id='http://ex.org/udf/raise_if_bang', x='http://ex.org/udf/px')
def raise_if_bang(x):
    if '!' in x:
        raise ValueError('bang')
    return x

@udf(fun_id='http://ex.org/udf/nan_if_n', x='http://ex.org/udf/px')
def nan_if_n(x):
    return float('nan') if x[:1] in ('n', 'N') else x

@udf(fun_id='http://ex.org/udf/blank_if_b', x='http://ex.org/udf/px')
def blank_if_b(x):
    return '' if x[:1] in ('b', 'B') else x

@udf(fun_id='http://ex.org/udf/show', x='http://ex.org/udf/px')
def show(x):
    return 'v=' + str(x)
'''

DECORATOR = '''
udf_dict = {}
def udf(fun_id, **params):
    def wrapper(funct):
        udf_dict[fun_id] = {}
        udf_dict[fun_id]['function'] = funct
        udf_dict[fun_id]['parameters'] = params
        return funct
    return wrapper
'''

_UDFS = None


def udf_dict():
    global _UDFS
    if _UDFS is None:
        ns = {}
        exec(DECORATOR + UDF_SOURCE, ns)
        _UDFS = ns['udf_dict']
    return _UDFS


def write_udfs(path):
    with open(path, 'w', encoding='utf-8') as f:
        f.write(UDF_SOURCE)
    return path


def registry():
    """function id -> {'function', 'parameters'}: the built-ins of the tree under check first, then the seeded UDFs"""
    from morph_kgc.fnml.built_in_functions import bif_dict
    reg = dict(udf_dict())
    reg.update(bif_dict)
    return reg


# ----------------------------------------------------------------------------------------------------
# function pool for the generator: (id, [parameter IRIs in the order the MAPPING lists them], optional ones, result kind)
# ----------------------------------------------------------------------------------------------------

P = GREL + 'valueParam'
POOL = [
    # fn, required params, optional params, kind
    (UDF + 'sub', [UDF + 'pa', UDF + 'pb'], [], 'str'),
    (UDF + 'pair', [UDF + 'px', UDF + 'py'], [UDF + 'pz'], 'str'),
    (UDF + 'ident', [UDF + 'px'], [], 'str'),
    (UDF + 'none_if_n', [UDF + 'px'], [], 'null'),
    (UDF + 'nan_if_n', [UDF + 'px'], [], 'null'),
    (UDF + 'blank_if_b', [UDF + 'px'], [], 'null'),
    (UDF + 'bars', [UDF + 'px'], [], 'list'),
    (UDF + 'dup', [UDF + 'px'], [], 'list'),
    (UDF + 'tup', [UDF + 'px'], [], 'list'),
    (UDF + 'empty_if_e', [UDF + 'px'], [], 'badlist'),
    (UDF + 'with_none', [UDF + 'px'], [], 'badlist'),
    (UDF + 'length', [UDF + 'px'], [], 'nonstr'),
    (UDF + 'half', [UDF + 'px'], [], 'nonstr'),
    (UDF + 'is_long', [UDF + 'px'], [], 'nonstr'),
    (UDF + 'int_if_digit', [UDF + 'px'], [], 'nonstr'),
    (UDF + 'k', [], [], 'str'),
    (UDF + 'raise_if_bang', [UDF + 'px'], [], 'str'),
    (UDF + 'show', [UDF + 'px'], [], 'str'),
    (GREL + 'string_replace', [P, GREL + 'param_find', GREL + 'param_replace'], [], 'str'),
    (GREL + 'toUpperCase', [P], [], 'str'),
    (GREL + 'toLowerCase', [P], [], 'str'),
    (GREL + 'toTitleCase', [P], [], 'str'),
    (GREL + 'reverse', [P], [], 'str'),
    (GREL + 'string_trim', [P], [], 'null'),
    (GREL + 'string_toString', [GREL + 'param_any_e'], [], 'str'),
    (GREL + 'string_split', [P, GREL + 'param_string_sep'], [], 'str'),
    (GREL + 'escape', [P, GREL + 'modeParam'], [], 'str'),
    (GREL + 'controls_if', [GREL + 'bool_b', GREL + 'any_true'], [GREL + 'any_false'], 'null'),
    (MK + 'controls_if_cast', [GREL + 'bool_b', GREL + 'any_true'], [GREL + 'any_false'], 'null'),
    (MK + 'string_split_explode', [P, GREL + 'param_string_sep'], [], 'list'),
    (MK + 'concat', [GREL + 'valueParam1', GREL + 'valueParam2'], [GREL + 'param_string_sep'], 'str'),
    (MK + 'hash', [P], [], 'str'),
    (MK + 'hash_iri', [P], [], 'str'),
    (IDLAB + 'toUpperCaseURL', [IDLAB + 'str'], [], 'str'),
    (GREL + 'string_indexOf', [GREL + 'valueParameter', GREL + 'string_sub'], [], 'nonstr'),
]
POOL_BY_ID = {p[0]: p for p in POOL}
SEPARATORS = [';', '|', ',', ' ', '.', '-', '::', 'a']


def gen_arg(rng, columns, depth, counter, param=None, kinds=None):
    r = rng.random()
    if depth > 0 and r < 0.3:
        return {'k': 'f', 'exec': gen_exec(rng, columns, depth - 1, counter, kinds=kinds)}
    if param in (GREL + 'param_string_sep', UDF + 'pz'):
        return {'k': 'c', 'v': rng.choice(SEPARATORS)} if rng.random() < 0.85 else {'k': 'r', 'v': rng.choice(columns)}
    if param == GREL + 'modeParam':
        return {'k': 'c', 'v': rng.choice(['html', 'html', 'xml'])}
    if param == GREL + 'param_find' or param == GREL + 'string_sub':
        return {'k': 'c', 'v': rng.choice(['a', 'b', ' ', '.', 'ab', 'x', '(', '\\', '|'])}
    if param == GREL + 'param_replace':
        return {'k': 'c', 'v': rng.choice(['', 'Z', 'aa', '\\1', '$'])}
    if param == GREL + 'bool_b' and rng.random() < 0.5:
        return {'k': 'c', 'v': rng.choice(['True', 'False', '1 < 2', '0', "''", 'false', 'no', 'OFF', 'yes'])}
    if r < 0.45:
        return {'k': 'r', 'v': rng.choice(columns)}
    if r < 0.75:
        tpl = cg.render_tpl(cg.gen_tpl(rng, columns, False, nrefs=rng.randrange(1, 3), with_escapes=rng.random() < 0.3))
        return {'k': 't', 'v': tpl}
    return {'k': 'c', 'v': rng.choice(['c', 'a b', 'x|y', 'n1', '', 'Ünï', '7', 'http://ex.org/q', 'e', "it's", 'q"r'])}


def gen_exec(rng, columns, depth, counter, kinds=None, fn=None):
    """kinds: which result kinds may be chosen (scope-free generation leaves out 'badlist' / 'nonstr')"""
    pool = [p for p in POOL if kinds is None or p[3] in kinds]
    p = POOL_BY_ID[fn] if fn else rng.choice(pool)
    fnid, req, opt, kind = p
    params = list(req) + [o for o in opt if rng.random() < 0.5]
    rng.shuffle(params)                # the order of the inputs in the mapping carries no meaning
    counter[0] += 1
    eid = f'http://ex.org/exec/E{counter[0]}'
    inputs = []
    for prm in params:
        a = gen_arg(rng, columns, depth, counter, param=prm, kinds=kinds)
        if fnid == GREL + 'controls_if' and prm == GREL + 'bool_b' and a['k'] != 'c':
            a = {'k': 'c', 'v': rng.choice(['True', 'False', '1 < 2', '0'])}     # `eval` of arbitrary data is not exercised
        inputs.append([prm, a])
    return {'id': eid, 'fn': fnid, 'inputs': inputs}


def execs_of_arg(a):
    if a['k'] == 'f':
        yield from execs_of(a['exec'])


def execs_of(e):
    yield e
    for _, a in e['inputs']:
        yield from execs_of_arg(a)


def refs_of_exec(e):
    out = []
    for _, a in e['inputs']:
        if a['k'] == 'r':
            out.append(a['v'])
        elif a['k'] == 't':
            out.extend(template_refs(a['v']))
        elif a['k'] == 'f':
            out.extend(refs_of_exec(a['exec']))
    return out


def template_refs(t):
    t = t.replace('\\{', '\x00').replace('\\}', '\x00')
    return re.findall(r'\{([^}]+)', t)


# ----------------------------------------------------------------------------------------------------
# rendering (new RML vocabulary, as in test/rml-fnml)
# ----------------------------------------------------------------------------------------------------

PREFIX = ('@prefix rml: <http://w3id.org/rml/> .\n@prefix xsd: <http://www.w3.org/2001/XMLSchema#> .\n')
TT = {'iri': 'rml:IRI', 'bnode': 'rml:BlankNode', 'literal': 'rml:Literal'}


def render_value_map(a):
    if a['k'] == 'c':
        return 'rml:constant ' + cg.turtle_str(a['v'])
    if a['k'] == 'r':
        return 'rml:reference ' + cg.turtle_str(a['v'])
    if a['k'] == 't':
        return 'rml:template ' + cg.turtle_str(a['v'])
    return f'rml:functionExecution <{a["exec"]["id"]}>'


def render_exec(e, done):
    if e['id'] in done:
        return ''
    done.add(e['id'])
    ins = ' , '.join(f'[ rml:parameter <{p}> ; rml:inputValueMap [ {render_value_map(a)} ] ]' for p, a in e['inputs'])
    out = f'<{e["id"]}> rml:function <{e["fn"]}>' + (f' ; rml:input {ins}' if ins else '') + ' .\n'
    for _, a in e['inputs']:
        if a['k'] == 'f':
            out += render_exec(a['exec'], done)
    return out


def render_tm_body(tm, explicit_tt=True):
    ps = []
    k = tm['kind']
    if k == 'constant':
        ps.append('rml:constant ' + (cg.turtle_str(tm['value']) if tm.get('termtype') == 'literal' else f'<{tm["value"]}>'))
    elif k == 'template':
        ps.append('rml:template ' + cg.turtle_str(tm['value']))
    elif k == 'reference':
        ps.append('rml:reference ' + cg.turtle_str(tm['value']))
    elif k == 'function':
        ps.append(f'rml:functionExecution <{tm["exec"]["id"]}>')
    if tm.get('termtype') and k != 'constant' and explicit_tt and not tm.get('implicit_tt'):
        ps.append('rml:termType ' + TT[tm['termtype']])
    if tm.get('lang'):
        ps.append('rml:language ' + cg.turtle_str(tm['lang']))
    if tm.get('datatype'):
        ps.append(f'rml:datatype <{tm["datatype"]}>')
    if tm.get('langfn'):
        ps.append(f'rml:languageMap [ rml:functionExecution <{tm["langfn"]["id"]}> ]')
    if tm.get('dtfn'):
        ps.append(f'rml:datatypeMap [ rml:functionExecution <{tm["dtfn"]["id"]}> ]')
    return ' ; '.join(ps)


def tm_execs(tm):
    for key in ('exec', 'langfn', 'dtfn'):
        if tm.get(key):
            yield tm[key]


def render_doc(doc, paths):
    """doc['tms'] -> Turtle; `paths`: table name -> CSV path"""
    out = [PREFIX]
    done = set()
    tail = []
    for tm in doc['tms']:
        lines = [f'<{tm["id"]}> a rml:TriplesMap ;',
                 f'  rml:logicalSource [ rml:source {cg.turtle_str(paths[tm["source"]])} ; rml:referenceFormulation rml:CSV ] ;']
        lines.append('  rml:subjectMap [ ' + render_tm_body(tm['subject']) + ' ]' + (' ;' if tm['poms'] else ' .'))
        for e in tm_execs(tm['subject']):
            tail.append(render_exec(e, done))
        for i, pom in enumerate(tm['poms']):
            pp = ['rml:predicateMap [ ' + render_tm_body(pom['predicate'], explicit_tt=False) + ' ]']
            o = pom['object']
            if o['kind'] == 'parent':
                js = ' ; '.join(f'rml:joinCondition [ rml:child {cg.turtle_str(c)} ; rml:parent {cg.turtle_str(p)} ]' for c, p in o['join'])
                pp.append(f'rml:objectMap [ rml:parentTriplesMap <{o["parent"]}>' + (' ; ' + js if js else '') + ' ]')
            else:
                pp.append('rml:objectMap [ ' + render_tm_body(o) + ' ]')
            if pom.get('graph'):
                pp.append('rml:graphMap [ ' + render_tm_body(pom['graph'], explicit_tt=False) + ' ]')
            lines.append('  rml:predicateObjectMap [ ' + ' ; '.join(pp) + ' ]' + (' ;' if i < len(tm['poms']) - 1 else ' .'))
            for t in (pom['predicate'], o, pom.get('graph') or {}):
                for e in tm_execs(t):
                    tail.append(render_exec(e, done))
        out.append('\n'.join(lines))
    return '\n\n'.join(out) + '\n\n' + ''.join(tail)


# ----------------------------------------------------------------------------------------------------
# the oracle
# ----------------------------------------------------------------------------------------------------

NA_DEFAULT = ['', 'nan']


def is_null_obj(v):
    return v is None or (isinstance(v, float) and math.isnan(v))


def is_listlike(v):
    return isinstance(v, (list, tuple))


class Flags:
    """what happened while the oracle evaluated a rule: used ONLY to decide which known finding a failure belongs to"""

    def __init__(self):
        self.badlist = False        # C14_F1: a call returned an empty list or a list with a NULL element
        self.hash_iri = False       # C14_F2
        self.lang_fn = False        # C14_F4
        self.nonstr = False         # C14_F5: a non-str value reached term construction / indexOf on an absent substring
        self.join_fn = False        # C14_F6
        self.url_scheme = False     # C14_F7
        self.empty_frame = False    # C14_F3: a rule with a function-valued term map has no row to work on
        self.raised = False         # a function raised: the run is expected to abort
        self.nan_member = False     # (as-is variants only) a statement with a NULL component: a float nan in the result set

    def asdict(self):
        return {k: v for k, v in vars(self).items() if v}


def fill_template(t, row):
    """a template over a row of strings (no escaping: argument templates and the oracle's literal templates)"""
    out, i, n = [], 0, len(t)
    while i < n:
        c = t[i]
        if c == '\\' and i + 1 < n and t[i + 1] in '{}':
            out.append(t[i + 1])
            i += 2
        elif c == '{':
            j = t.index('}', i)
            out.append(('REF', t[i + 1:j]))
            i = j + 1
        else:
            out.append(c)
            i += 1
    return out


def is_raised(x):
    return isinstance(x, tuple) and len(x) == 2 and x[0] == 'RAISED'


def call_fn(e, meta, kwargs, na, flags, asis):
    """one call: the values it stands for (NULLs removed, lists spread), or [('RAISED', name)]"""
    bad = [x for x in kwargs.values() if is_raised(x)]
    if bad:
        return [bad[0]]
    if e['fn'] == IDLAB + 'toUpperCaseURL' and isinstance(kwargs.get('url'), str) and \
            kwargs['url'].lower().startswith(('http://', 'https://')) and 'F7' not in asis:
        flags.url_scheme = True
        u = kwargs['url']
        cut = 8 if u.lower().startswith('https://') else 7
        res = u[:cut].lower() + quote(u[cut:].upper(), safe='-._~')
    elif e['fn'] == MK + 'hash_iri' and 'F2' not in asis and isinstance(kwargs.get('string'), str):
        import hashlib
        res = 'http://example.com/ns#' + hashlib.sha256(kwargs['string'].encode('UTF-8')).hexdigest()
    elif e['fn'] == GREL + 'string_indexOf' and isinstance(kwargs.get('string'), str) and isinstance(kwargs.get('substring'), str) \
            and 'F5' not in asis:
        res = kwargs['string'].find(kwargs['substring'])       # GREL: -1 when absent
        if res < 0:
            flags.nonstr = True
    else:
        try:
            res = meta['function'](**kwargs)
        except Exception:              # noqa: whether the engine reaches this call depends on the order of evaluation
            flags.raised = True
            return []
    if is_listlike(res):
        if len(res) == 0 or any(is_null_obj(x) or (isinstance(x, str) and x in na) for x in res):
            flags.badlist = True
            if 'F1' in asis:
                return list(res) if len(res) else [float('nan')]
        return [x for x in res if not (is_null_obj(x) or (isinstance(x, str) and x in na))]
    if is_null_obj(res) or (isinstance(res, str) and res in na):
        return []
    return [res]


def arg_value(a, env):
    if a['k'] == 'c':
        return a['v']
    if a['k'] == 'r':
        return env[a['v']]
    if a['k'] == 't':
        return ''.join(x if isinstance(x, str) else env[x[1]] for x in fill_template(a['v'], env))
    return env[a['exec']['id']]


def eval_exec(e, row, reg, na, flags, asis=()):
    """the values of execution `e` on `row` (dict column -> str): a list of Python objects, NULLs removed, lists spread.
    `asis`: findings whose DEFECTIVE behaviour is reproduced instead of the property (used only to attribute a failure)"""
    meta = reg[e['fn']]
    if e['fn'] == MK + 'hash_iri':
        flags.hash_iri = True
    by_param = {}
    for p, a in e['inputs']:
        by_param[p] = eval_exec(a['exec'], row, reg, na, flags, asis) if a['k'] == 'f' else [arg_value(a, row)]
    names = [k for k, iri in meta['parameters'].items() if iri in by_param]
    out = []
    for combo in itertools.product(*[by_param[meta['parameters'][k]] for k in names]):
        out.extend(call_fn(e, meta, dict(zip(names, combo)), na, flags, asis))
    return out


def frame_exec(e, frame, reg, na, asis, empties):
    """ONLY for attributing failures to C14_F3: which executions meet a frame without rows (the engine's statement order)"""
    for _, a in e['inputs']:
        if a['k'] == 'f':
            frame = frame_exec(a['exec'], frame, reg, na, asis, empties)
    if not frame:
        empties.add(e['id'])
        return frame
    meta = reg[e['fn']]
    by_param = {p: a for p, a in e['inputs']}
    names = [k for k, iri in meta['parameters'].items() if iri in by_param]
    out = []
    scratch = Flags()
    all_nan = True
    for env in frame:
        kwargs = {k: arg_value(by_param[meta['parameters'][k]], env) for k in names}
        try:
            raw = None if any(is_raised(x) for x in kwargs.values()) else meta['function'](**kwargs)
        except Exception:  # noqa
            raw = None
        all_nan = all_nan and isinstance(raw, float) and math.isnan(raw)
        for v in call_fn(e, meta, kwargs, na, scratch, asis):
            out.append(dict(env, **{e['id']: v}))
    if all_nan:
        empties.add(e['id'])           # a list of float NaNs only: dtype float64, like the empty list
    return out


def py_escape(s):
    for a, b in (('\\', '\\\\'), ('\n', '\\n'), ('\t', '\\t'), ('\b', '\\b'), ('\f', '\\f'), ('\r', '\\r'), ('"', '\\"'), ("'", "\\'")):
        s = s.replace(a, b)
    return s


def canon(dt, s):
    if dt == XSD + 'boolean':
        return s.lower()
    if dt == XSD + 'dateTime':
        return s.replace(' ', 'T')
    if dt == XSD + 'integer':
        return re.sub(r'^([+-]?[0-9]+)\.0\Z', r'\1', s)
    return s


NAN_MEMBER = ('NAN',)


def fn_terms(tm, row, reg, na, flags, termtype, datatype='', asis=()):
    """expected terms of a function-valued term map on one row"""
    out = []
    for v in eval_exec(tm, row, reg, na, flags, asis):
        if isinstance(v, tuple) and v and v[0] == 'RAISED':
            out.append(v)
            continue
        if is_null_obj(v):                 # only with 'F1' in asis: a NULL left in the exploded column
            if termtype == 'literal' and datatype == XSD + 'integer':
                out.append('"' + str(v) + '"')
            elif termtype == 'iri':
                out.append(('RAISED', 'AttributeError'))
            else:
                out.append(NAN_MEMBER)
            continue
        if not isinstance(v, str):
            if not (termtype == 'literal' and datatype == XSD + 'integer'):
                flags.nonstr = True
                if 'F5' in asis:
                    out.append(('RAISED', 'nonStr'))
                    continue
            v = str(v)
        if termtype == 'literal':
            out.append('"' + py_escape(canon(datatype, v)) + '"')
        elif termtype == 'iri':
            out.append('<' + v.strip() + '>')
        elif termtype == 'bnode':
            out.append('_:' + v)
        else:
            out.append(v)
    return out


def plain_terms(tm, row, position):
    """constant / template / reference term maps: only the simple shapes this generator emits (IRI-safe values in IRI templates)"""
    k = tm['kind']
    tt = tm.get('termtype', 'iri')
    if k == 'constant':
        v = tm['value']
        return ['<' + v + '>'] if tt != 'literal' else ['"' + py_escape(v) + '"']
    if k == 'reference':
        v = row[tm['value']]
        if tt == 'literal':
            return ['"' + py_escape(canon(tm.get('datatype', ''), v)) + '"']
        return ['<' + v + '>'] if tt == 'iri' else ['_:' + v]
    parts = fill_template(tm['value'], row)
    if tt == 'iri':
        return ['<' + ''.join(x if isinstance(x, str) else quote(row[x[1]], safe='-._~') for x in parts) + '>']
    if tt == 'bnode':
        return ['_:' + ''.join(x if isinstance(x, str) else row[x[1]] for x in parts)]
    dt = tm.get('datatype', '')
    return ['"' + ''.join(x if isinstance(x, str) else py_escape(canon(dt, row[x[1]])) for x in parts) + '"']


def term_refs(tm):
    k = tm.get('kind')
    out = []
    if k == 'reference':
        out.append(tm['value'])
    elif k == 'template':
        out.extend(template_refs(tm['value']))
    for e in tm_execs(tm):
        out.extend(refs_of_exec(e))
    return out


def position_terms(tm, row, reg, na, flags, position, asis=()):
    tt = tm.get('termtype') or ('literal' if position == 'object' else 'iri')
    if tm['kind'] == 'function':
        terms = fn_terms(tm['exec'], row, reg, na, flags, tt, tm.get('datatype', ''), asis)
    else:
        terms = plain_terms(tm, row, position)
    if position == 'object' and tt == 'literal':
        if tm.get('lang'):
            terms = [t if isinstance(t, tuple) else t + '@' + tm['lang'] for t in terms]
        elif tm.get('datatype') and tm['datatype'] != XSD + 'string':
            terms = [t if isinstance(t, tuple) else t + '^^<' + tm['datatype'] + '>' for t in terms]
        elif tm.get('langfn'):
            flags.lang_fn = True
            tags = fn_terms(tm['langfn'], row, reg, na, flags, 'literal' if 'F4' in asis else 'raw', '', asis)
            terms = [(t if isinstance(t, tuple) else (g if isinstance(g, tuple) else t + '@' + g)) for t in terms for g in tags]
        elif tm.get('dtfn'):
            dts = fn_terms(tm['dtfn'], row, reg, na, flags, 'iri', '', asis)
            terms = [(t if isinstance(t, tuple) else (g if isinstance(g, tuple) else t + '^^' + g)) for t in terms for g in dts]
    return terms


def oracle_rule(tm, pom, tables, by_id, reg, na, fmt, flags, asis=()):
    """expected statements of one (triples map, predicate-object map): ('ok', set) or ('abort', name)"""
    o = pom['object']
    rows = tables[tm['source']]
    refs = term_refs(tm['subject']) + term_refs(pom['predicate']) + (term_refs(pom['graph']) if pom.get('graph') else [])
    out = set()
    aborted = None

    def live(rs, cols):
        return [r for r in rs if all(r[c] not in na for c in cols)]

    if o['kind'] == 'parent':
        parent = by_id[o['parent']]
        if parent['subject']['kind'] == 'function':
            flags.join_fn = True
        crefs = refs + [c for c, _ in o['join']]
        prefs = term_refs(parent['subject']) + [p for _, p in o['join']]
        pairs = [(c, p) for c in live(rows, crefs) for p in live(tables[parent['source']], prefs)
                 if all(c[a] == p[b] for a, b in o['join'])]
        work = [(c, ('parent', p)) for c, p in pairs]
    else:
        work = [(r, None) for r in live(rows, refs + term_refs(o))]
    fn_maps = [t for t in (tm['subject'], pom['predicate'], o, pom.get('graph') if fmt == 'N-QUADS' else None,
                           by_id[o['parent']]['subject'] if o['kind'] == 'parent' else None) if t and list(tm_execs(t))]
    if fn_maps:
        # the engine's positions in order, each function-valued one rewriting the whole frame
        frame = [dict(r, **{'parent_' + k: v for k, v in ex[1].items()}) if ex else dict(r) for r, ex in work]
        seq = [(tm['subject'], 'exec', 'iri'), (pom['predicate'], 'exec', 'iri')]
        if o['kind'] == 'parent':
            seq.append((by_id[o['parent']]['subject'], 'exec', 'iri'))
        else:
            seq += [(o, 'exec', 'obj'), (o, 'langfn', 'lang'), (o, 'dtfn', 'iri')]
        if fmt == 'N-QUADS' and pom.get('graph'):
            seq.append((pom['graph'], 'exec', 'iri'))
        for t, key, role in seq:
            if not t.get(key) or (key == 'exec' and t['kind'] != 'function'):
                continue
            empties = set()
            try:
                frame = frame_exec(t[key], frame, reg, na, asis, empties)
            except KeyError:
                break                      # a parent's function over the child's columns (C14_F6)
            if t[key]['id'] in empties:
                survives = role == 'obj' and t.get('termtype', 'literal') == 'literal' and t.get('datatype') == XSD + 'integer'
                if not survives:
                    flags.empty_frame = True
                    if 'F3' in asis:
                        return 'abort', 'emptyFrame'
    for row, extra in work:
        ss = position_terms(tm['subject'], row, reg, na, flags, 'subject', asis)
        ps = position_terms(pom['predicate'], row, reg, na, flags, 'predicate', asis)
        if extra:
            psub = dict(by_id[o['parent']]['subject'])
            os_ = position_terms(psub, extra[1], reg, na, flags, 'subject', asis)
        else:
            os_ = position_terms(o, row, reg, na, flags, 'object', asis)
        if fmt == 'N-QUADS':
            gs = position_terms(pom['graph'], row, reg, na, flags, 'graph', asis) if pom.get('graph') else ['']
        else:
            gs = [None]
        for lst in (ss, ps, os_, gs):
            for x in lst:
                if is_raised(x):
                    aborted = x[1]
        for s, p, ob, g in itertools.product(ss, ps, os_, gs):
            if any(is_raised(x) for x in (s, p, ob, g)):
                continue
            if any(x is NAN_MEMBER for x in (s, p, ob, g)):
                flags.nan_member = True
                continue
            out.add(s + ' ' + p + ' ' + ob + ('' if g is None else ' ' + g))
    if aborted:
        return 'abort', aborted
    return 'ok', out


def oracle(doc, tables, fmt, na=None, reg=None, asis=(), skip_join=False):
    """('ok', sorted statements, flags) | ('abort', exception name, flags)"""
    reg = reg or registry()
    na = NA_DEFAULT if na is None else na
    flags = Flags()
    by_id = {tm['id']: tm for tm in doc['tms']}
    res = set()
    abort = None
    for tm in doc['tms']:
        for pom in tm['poms']:
            if skip_join and pom['object']['kind'] == 'parent':
                continue
            st, r = oracle_rule(tm, pom, tables, by_id, reg, na, fmt, flags, asis)
            if st == 'abort':
                abort = r
            else:
                res |= r
    if abort:
        return 'abort', abort, flags
    return 'ok', sorted(res), flags


# ----------------------------------------------------------------------------------------------------
# case generation
# ----------------------------------------------------------------------------------------------------

VALUE_POOL = ['a', 'abc', 'a b', ' a ', 'n1', 'N', 'e', 'Ex', 'b', 'x|y', 'x||y', '|', 'a;b', 'a;;b', ';', 'a,b', 'A.B', 'ab ab', 'ß', 'İ', 'ǆ',
              'straße', 'ǅungla', 'it\'s', 'q"r', 'back\\slash', 'tab\there', 'nl\nhere', ' pad ', '\x1cfs', '7', '42', '007', '1.0',
              'http://ex.org/x', 'https://Ex.org/a b', 'HTTP://foo', 'ftp://x', 'x!', '(x)', 'a*b', '[a]', '$1', 'ÀÉ', 'ﬁ', 'None', 'null', 'true',
              'FALSE', 'no', 'off', '0', 'yes', '2024-01-02', 'éa', 'aé', 'á', '\U0001F600', 'a.b.c', 'ab', 'ba', 'aab', 'aaa']


def gen_value(rng):
    r = rng.random()
    if r < 0.55:
        return rng.choice(VALUE_POOL)
    if r < 0.62:
        return rng.choice(['', 'nan'])
    return cg.rand_value(rng, 'any', maxlen=6)


def gen_tables(rng, d, ntables=None):
    tables, cols, paths = {}, {}, {}
    for k in range(ntables or rng.randrange(1, 3)):
        name = f't{k}'
        columns = ['id'] + rng.sample(['v', 'w', 'A b', 'Ünï'], rng.randrange(1, 4))
        rows = []
        for i in range(rng.randrange(1, 6)):
            r = {'id': str(rng.randrange(1, 4)) if rng.random() < 0.3 else str(10 + i)}
            for c in columns[1:]:
                r[c] = gen_value(rng)
            rows.append(r)
        if rng.random() < 0.3:
            rows.append(dict(rng.choice(rows)))
        path = os.path.join(d, name + '.csv')
        if not cg.write_csv(path, columns, rows):
            rows = [{c: ('1' if c == 'id' else 'v' + c[:1]) for c in columns}]
            assert cg.write_csv(path, columns, rows)
        tables[name], cols[name], paths[name] = rows, columns, path
    return tables, cols, paths


def gen_fn_tm(rng, columns, counter, position, kinds, depth=None):
    e = gen_exec(rng, columns, rng.randrange(0, 3) if depth is None else depth, counter, kinds=kinds)
    tm = {'kind': 'function', 'exec': e}
    if position == 'subject':
        tm['termtype'] = rng.choice(['iri', 'iri', 'bnode'])
        if tm['termtype'] == 'iri' and rng.random() < 0.3:
            tm['implicit_tt'] = True
    elif position == 'object':
        tm['termtype'] = rng.choice(['literal', 'literal', 'literal', 'iri', 'bnode'])
        if tm['termtype'] == 'literal':
            if rng.random() < 0.3:
                tm['implicit_tt'] = True
            q = rng.random()
            if q < 0.15:
                tm['lang'] = rng.choice(['en', 'es-ES'])
            elif q < 0.35:
                tm['datatype'] = rng.choice([XSD + 'integer', XSD + 'string', 'http://ex.org/dt', XSD + 'boolean', XSD + 'dateTime'])
    else:
        tm['termtype'] = 'iri'
        tm['implicit_tt'] = True
    return tm


def gen_case(rng, d, kinds=None, allow_join=True, allow_langfn=True, max_tms=2):
    """kinds=None: everything; otherwise the result kinds the functions may have (e.g. scope-free: str/null/list)"""
    os.makedirs(d, exist_ok=True)
    tables, cols, paths = gen_tables(rng, d)
    counter = [0]
    tms = []
    names = sorted(tables)
    for i in range(rng.randrange(1, max_tms + 1)):
        src = rng.choice(names)
        columns = cols[src]
        if rng.random() < 0.25:
            subject = gen_fn_tm(rng, columns, counter, 'subject', kinds)
        else:
            subject = {'kind': 'template', 'value': 'http://ex.org/s/{id}', 'termtype': 'iri'}
        poms = []
        for _ in range(rng.randrange(1, 3)):
            pred = gen_fn_tm(rng, columns, counter, 'predicate', kinds, depth=rng.randrange(0, 2)) if rng.random() < 0.12 else \
                {'kind': 'constant', 'value': 'http://ex.org/p/' + rng.choice('abc'), 'termtype': 'iri'}
            r = rng.random()
            if r < 0.7:
                obj = gen_fn_tm(rng, columns, counter, 'object', kinds)
                if allow_langfn and obj['termtype'] == 'literal' and not obj.get('lang') and not obj.get('datatype') and rng.random() < 0.08:
                    obj['langfn'] = gen_exec(rng, columns, 0, counter, kinds=['str'])
                elif obj['termtype'] == 'literal' and not obj.get('lang') and not obj.get('datatype') and rng.random() < 0.08:
                    obj['dtfn'] = gen_exec(rng, columns, 0, counter, kinds=['str'])
            elif r < 0.85:
                obj = {'kind': 'reference', 'value': rng.choice(columns), 'termtype': 'literal'}
            else:
                obj = {'kind': 'template', 'value': 'http://ex.org/o/{id}', 'termtype': 'iri'}
            pom = {'predicate': pred, 'object': obj}
            if rng.random() < 0.2:
                pom['graph'] = gen_fn_tm(rng, columns, counter, 'graph', kinds, depth=rng.randrange(0, 2)) if rng.random() < 0.6 else \
                    {'kind': 'constant', 'value': 'http://ex.org/g/' + rng.choice('ab'), 'termtype': 'iri'}
            poms.append(pom)
        for pom in poms:
            # a rule that references no column at all reads zero columns (outside this property: see ASSUMPTIONS of the check)
            if not (term_refs(subject) + term_refs(pom['predicate']) + term_refs(pom['object']) + term_refs(pom.get('graph') or {})):
                subject = {'kind': 'template', 'value': 'http://ex.org/s/{id}', 'termtype': 'iri'}
        tms.append({'id': f'http://ex.org/tm/TM{i}', 'source': src, 'subject': subject, 'poms': poms})
    if allow_join and rng.random() < 0.08:
        # a referencing object map whose parent has a function-valued subject map
        psrc = rng.choice(names)
        parent = {'id': 'http://ex.org/tm/PARENT', 'source': psrc,
                  'subject': gen_fn_tm(rng, cols[psrc], counter, 'subject', ['str'], depth=0), 'poms': []}
        child = tms[0]
        child['poms'].append({'predicate': {'kind': 'constant', 'value': 'http://ex.org/p/j', 'termtype': 'iri'},
                              'object': {'kind': 'parent', 'parent': parent['id'], 'join': [['id', 'id']]}})
        tms.append(parent)
    doc = {'tms': tms}
    fmt = rng.choice(['N-TRIPLES', 'N-QUADS', 'N-QUADS'])
    return {'doc': doc, 'tables': tables, 'cols': cols, 'fmt': fmt}, paths


def materialise(case, d, paths=None):
    """write the tables / the mapping / the UDF file of a (replayed) case under `d`; returns (mapping path, udf path)"""
    os.makedirs(d, exist_ok=True)
    if paths is None:
        paths = {}
        for name, rows in case['tables'].items():
            paths[name] = os.path.join(d, name + '.csv')
            assert cg.write_csv(paths[name], case['cols'][name], rows)
    mp = os.path.join(d, 'm.ttl')
    with open(mp, 'w', encoding='utf-8') as f:
        f.write(render_doc(case['doc'], paths))
    up = write_udfs(os.path.join(d, 'udfs.py'))
    return mp, up


def run_engine(mp, up, fmt, partitioning=None, na=None):
    cfg = cg.config_text(mp, fmt=fmt, partitioning=partitioning, extra=f'udfs={up}', na=na)
    return cg.run_engine(cfg)


def doc_execs(doc):
    for tm in doc['tms']:
        for t in [tm['subject']] + [x for pom in tm['poms'] for x in (pom['predicate'], pom['object'], pom.get('graph') or {})]:
            for e in tm_execs(t):
                yield from execs_of(e)
