#!/bin/bash
# tools/merge_agent.sh <wk dir> <Cxx> file...   — copy an agent's own files into /verif, import its claim, regenerate roots
set -e
WK="$1"; PID="$2"; shift 2
cd /verif
for f in "$@"; do mkdir -p "$(dirname "$f")"; cp "$WK/$f" "$f"; done
python3 tools/import_claim.py "$WK" "$PID"
python3 - "$WK" "$PID" <<'PY'
import json, sys
wk, pid = sys.argv[1], sys.argv[2]
kf = json.load(open('/verif/known_findings.json')); src = json.load(open(wk + '/known_findings.json'))
have = {f['id'] for f in kf['findings']}
for f in src['findings']:
    if f['id'] not in have and f['property'] == pid:
        kf['findings'].append(f); print('finding', f['id'], f.get('status'))
json.dump(kf, open('/verif/known_findings.json', 'w'), indent=1, ensure_ascii=True)
PY
python3 tools/mkroots.py && python3 tools/mkmanifest.py
