"""
Shared machinery of the checks: paths, translator + Lean build + audit (under a lock), the driver
process, counters, known findings, the decision rule and the evidence file.
"""
import contextlib
import fcntl
import hashlib
import json
import os
import random
import re
import shutil
import subprocess
import sys
import tempfile
import time

HERE = os.path.dirname(os.path.abspath(__file__))
VERIF = os.path.dirname(HERE)
LEAN_DIR = os.environ.get('VERIF_LEAN_DIR') or os.path.join(VERIF, 'lean')
REPO = os.environ.get('VERIF_REPO', '/repo')
PY = sys.executable
ALLOWED_AXIOMS = {'propext', 'Classical.choice', 'Quot.sound'}
FORBIDDEN_RE = re.compile(r'\bsorry\b|\badmit\b|^\s*axiom\s|native_decide|bv_decide|implemented_by|\bunsafe\s|maxHeartbeats\s+0')

TRUSTED_BASE_COMMON = [
    'Lean 4.33.0 kernel and elaborator (no Mathlib imports)',
    'axioms allowed in property theorems: propext, Classical.choice, Quot.sound (audited with #print axioms on every run)',
    'tools/extract.py (translator /repo -> lean/MorphKgc/Gen) and the correspondence harness under tools/',
]


def ensure_repo_on_path():
    src = os.path.join(REPO, 'src')
    if src in sys.path:
        sys.path.remove(src)
    sys.path.insert(0, src)
    import morph_kgc
    assert os.path.abspath(morph_kgc.__file__).startswith(os.path.abspath(src)), \
        f'morph_kgc imported from {morph_kgc.__file__}, not from {src}'
    return morph_kgc


@contextlib.contextmanager
def lean_lock():
    os.makedirs(os.path.join(LEAN_DIR, '.lake'), exist_ok=True)
    with open(os.path.join(LEAN_DIR, '.lake', 'verif.lock'), 'w') as f:
        fcntl.flock(f, fcntl.LOCK_EX)
        try:
            yield
        finally:
            fcntl.flock(f, fcntl.LOCK_UN)


def run(cmd, cwd=None, timeout=None, env=None):
    p = subprocess.run(cmd, cwd=cwd, stdout=subprocess.PIPE, stderr=subprocess.STDOUT, text=True, timeout=timeout, env=env)
    return p.returncode, p.stdout


def strip_lean_comments(text):
    # remove /- ... -/ (nested) and -- ... comments, keep string literals intact enough for the grep
    out = []
    i, depth, n = 0, 0, len(text)
    while i < n:
        if text.startswith('/-', i):
            depth += 1
            i += 2
        elif depth and text.startswith('-/', i):
            depth -= 1
            i += 2
        elif depth:
            i += 1
        elif text.startswith('--', i):
            while i < n and text[i] != '\n':
                i += 1
        else:
            out.append(text[i])
            i += 1
    return ''.join(out)


def grep_forbidden():
    hits = []
    for root, _, files in os.walk(LEAN_DIR):
        if '.lake' in root.split(os.sep):
            continue
        for fn in files:
            if fn.endswith('.lean'):
                p = os.path.join(root, fn)
                with open(p, encoding='utf-8') as f:
                    txt = strip_lean_comments(f.read())
                for ln, line in enumerate(txt.split('\n'), 1):
                    if FORBIDDEN_RE.search(line):
                        hits.append(f'{os.path.relpath(p, LEAN_DIR)}:{ln}: {line.strip()[:120]}')
    return hits


class Driver:
    """The compiled Lean driver (`mkdrv`) behind a JSON line protocol."""

    def __init__(self):
        exe = os.path.join(LEAN_DIR, '.lake', 'build', 'bin', 'mkdrv')
        self.p = subprocess.Popen([exe], stdin=subprocess.PIPE, stdout=subprocess.PIPE, text=True, bufsize=1,
                                  encoding='utf-8')
        self.calls = 0

    def call(self, op, **kw):
        kw['op'] = op
        self.p.stdin.write(json.dumps(kw, ensure_ascii=True) + '\n')
        self.p.stdin.flush()
        line = self.p.stdout.readline()
        if not line:
            raise RuntimeError(f'driver died on {op}')
        self.calls += 1
        r = json.loads(line)
        if 'err' in r:
            raise DriverError(r['err'])
        return r['ok']

    def close(self):
        try:
            self.p.stdin.close()
            self.p.wait(timeout=5)
        except Exception:
            self.p.kill()


class DriverError(Exception):
    pass


def has_surrogate(s):
    return any(0xD800 <= ord(c) <= 0xDFFF for c in s)


class Ctx:
    def __init__(self, prop, tier, seed):
        self.prop = prop
        self.tier = tier
        self.seed = seed
        self.rng = random.Random(seed * 1000003 + int(hashlib.sha256(prop.encode()).hexdigest()[:8], 16))
        self.t0 = time.time()
        self.t_run = self.t0
        self.tmp = tempfile.mkdtemp(prefix=f'verif_{prop}_')
        self.driver = None
        self.model_available = False
        self.escalate = False          # a proof obligation / the translator / the correspondence is broken
        self.evaluations = 0
        self.nontrivial_keys = set()
        self.samples = []
        self.dist = {}
        self.disagreements = []        # model vs implementation
        self.violations = []           # property fails on the real engine: dicts {what, input, finding}
        self.known_hits = {}           # finding id -> description, reproduced on this run
        self.notes = []
        self.traces_validated = 0

    # ---- counters ---------------------------------------------------------------------------------
    def case(self, key, nontrivial=True, sample=None, kind=None):
        """Register one evaluated case; `key` identifies the canonical input."""
        self.evaluations += 1
        if nontrivial:
            h = hashlib.sha256(json.dumps(key, sort_keys=True, ensure_ascii=True, default=str).encode()).hexdigest()[:20]
            self.nontrivial_keys.add(h)
        if kind:
            self.dist[kind] = self.dist.get(kind, 0) + 1
        if sample is not None and len(self.samples) < 8:
            self.samples.append(sample)

    def bump(self, kind, n=1):
        self.dist[kind] = self.dist.get(kind, 0) + n

    def disagree(self, interface, inp, model_out, impl_out):
        self.disagreements.append({'interface': interface, 'input': inp, 'model': model_out, 'impl': impl_out})

    def violation(self, what, inp, finding=None):
        self.violations.append({'what': what, 'input': inp, 'finding': finding})

    def known(self, fid, what):
        self.known_hits[fid] = what

    def elapsed(self):
        """seconds spent in the property's own run (correspondence / oracle): the clock starts AFTER the Lean phase, so a slow
        rebuild - which happens exactly when the source changed - never eats the search budget"""
        return time.time() - self.t_run

    def wall(self):
        return time.time() - self.t0

    def budget(self, quick, thorough):
        return thorough if self.tier == 'thorough' else quick

    def get_driver(self):
        if self.driver is None:
            self.driver = Driver()
            self.driver.call('ping')
        return self.driver

    def cleanup(self):
        if self.driver:
            self.driver.close()
        shutil.rmtree(self.tmp, ignore_errors=True)


# ----------------------------------------------------------------------------------------------------
# Lean side: regenerate, build, audit
# ----------------------------------------------------------------------------------------------------

def regenerate(ctx):
    js = os.path.join(ctx.tmp, 'gen.json')
    rc, out = run([PY, os.path.join(HERE, 'extract.py'), '--repo', REPO, '--json', js], timeout=600)
    if rc != 0 or not os.path.exists(js):
        return {'crashed': {'extract.py': out[-2000:]}}
    with open(js) as f:
        return json.load(f)


def lake_build(targets, timeout=3000):
    t = time.time()
    rc, out = run(['lake', 'build'] + targets, cwd=LEAN_DIR, timeout=timeout)
    return rc == 0, out, time.time() - t


def audit_axioms(prop, theorems, ctxtmp):
    """`#print axioms` for every property theorem; returns {theorem: [axioms]} or raises."""
    imports = sorted({t['module'] for t in theorems})
    src = '\n'.join(f'import {m}' for m in imports) + '\n' + '\n'.join(f'#print axioms {t["name"]}' for t in theorems) + '\n'
    path = os.path.join(ctxtmp, f'Audit_{prop}.lean')
    with open(path, 'w') as f:
        f.write(src)
    rc, out = run(['lake', 'env', 'lean', path], cwd=LEAN_DIR, timeout=1200)
    res = {}
    for m in re.finditer(r"'(\S+)' depends on axioms: \[([^\]]*)\]", out):
        res[m.group(1)] = [a.strip() for a in m.group(2).replace('\n', ' ').split(',') if a.strip()]
    for m in re.finditer(r"'(\S+)' does not depend on any axioms", out):
        res[m.group(1)] = []
    return rc, out, res


def failing_theorems(build_out, theorems):
    """Map Lean error positions back to theorem names (best effort, for the replay file)."""
    bad = []
    errs = re.findall(r'error: (\S+\.lean):(\d+):\d+', build_out)
    cache = {}
    for path, line in errs:
        full = os.path.join(LEAN_DIR, path) if not os.path.isabs(path) else path
        if full not in cache:
            try:
                with open(full, encoding='utf-8') as f:
                    cache[full] = f.read().split('\n')
            except OSError:
                cache[full] = []
        lines = cache[full]
        name = None
        for i in range(min(int(line), len(lines)) - 1, -1, -1):
            m = re.match(r'\s*(?:theorem|lemma|def|example|instance)\s+(\S+)', lines[i])
            if m:
                name = m.group(1)
                break
        bad.append(f'{path}:{line} ({name or "?"})')
    return bad


# ----------------------------------------------------------------------------------------------------
# Known findings
# ----------------------------------------------------------------------------------------------------

def load_known_findings(prop):
    p = os.path.join(VERIF, 'known_findings.json')
    with open(p) as f:
        data = json.load(f)
    return [e for e in data['findings'] if e['property'] == prop or prop in e.get('also', [])]


# ----------------------------------------------------------------------------------------------------
# Decision + evidence
# ----------------------------------------------------------------------------------------------------

def write_replay(ctx, payload):
    d = os.path.join(VERIF, 'replays', ctx.prop)
    os.makedirs(d, exist_ok=True)
    path = os.path.join(d, f'{ctx.prop}-{ctx.tier}-seed{ctx.seed}-{int(time.time())}.json')
    with open(path, 'w') as f:
        json.dump(payload, f, indent=1, ensure_ascii=True, default=str)
    return path


def write_evidence(ctx, pm, lean, violations_n):
    obligations = len(pm.THEOREMS) + len(lean.get('side_conditions', [])) + sum(len(l['theorems']) for l in getattr(pm, 'LINKS', []))
    discharged = lean.get('discharged', 0)
    cov = {
        'obligations': obligations,
        'discharged': discharged,
        'checker_cmd': 'tools/extract.py && lake build ' + ' '.join(pm.LEAN_TARGETS) + ' mkdrv && lake env lean Audit_%s.lean (#print axioms)' % ctx.prop
                       + (' && lake env leanchecker ' + ' '.join(pm.LEAN_TARGETS) if ctx.tier == 'thorough' else ''),
        'trusted_base': TRUSTED_BASE_COMMON + list(getattr(pm, 'TRUSTED_BASE', [])),
        'theorems': [t['name'] for t in pm.THEOREMS],
        'axioms': lean.get('axioms', {}),
        'translator': lean.get('translator', {}),
        'evaluations': ctx.evaluations,
        'distinct_nontrivial': len(ctx.nontrivial_keys),
        'rule': getattr(pm, 'RULE', ''),
        'samples': ctx.samples[:8] or [{'obligation': t['name']} for t in pm.THEOREMS[:4]],
        'distribution': ctx.dist,
        'traces_validated_against_impl': ctx.traces_validated,
        'model_impl_disagreements': len(ctx.disagreements),
        'known_findings_reproduced': sorted(ctx.known_hits),
        'build_seconds': lean.get('build_s'),
        'notes': ctx.notes,
    }
    if lean.get('info'):
        cov['composition_theorems'] = lean['info']
    if lean.get('links'):
        cov['linking_theorems'] = lean['links']
    ev = {
        'property_id': ctx.prop,
        'tier': ctx.tier,
        'seed': ctx.seed,
        'level': 'proof',
        'coverage': cov,
        'assumptions': list(getattr(pm, 'ASSUMPTIONS', [])),
        'wall_s': round(ctx.wall(), 2),
        'violations': violations_n,
    }
    # evidence/ describes runs against /repo itself; a run against another tree (VERIF_REPO: seeded changes, mutants) writes elsewhere
    edir = os.path.join(VERIF, 'evidence') if os.path.abspath(REPO) == '/repo' else os.path.join(VERIF, 'replays', 'evidence_other_tree')
    os.makedirs(edir, exist_ok=True)
    path = os.path.join(edir, f'{ctx.prop}.json')
    tmp = path + '.tmp'
    with open(tmp, 'w') as f:
        json.dump(ev, f, indent=1, ensure_ascii=True, default=str)
    os.replace(tmp, path)


def lean_phase(ctx, pm):
    """regenerate -> build -> audit, under the lock. Returns a dict describing what is discharged."""
    lean = {'broken': [], 'side_conditions': []}
    with lean_lock():
        gen = regenerate(ctx)
        tf = []
        if 'import_error' in gen:
            tf.append('morph_kgc does not import: ' + gen['import_error'])
        for k, v in gen.get('crashed', {}).items():
            tf.append(f'translator crashed in {k}: {v}')
        for key in getattr(pm, 'GEN_KEYS', []):
            for fl in gen.get(key, {}).get('failures', ['section missing'] if key not in gen else []):
                tf.append(f'{key}: {fl}')
        lean['translator'] = {'failures': tf, 'sections': list(getattr(pm, 'GEN_KEYS', []))}
        lean['gen'] = gen
        for fl in tf:
            lean['broken'].append('translator: ' + fl)

        ok_drv, out_drv, t1 = lake_build(['mkdrv'])
        ctx.model_available = ok_drv
        if not ok_drv:
            lean['broken'].append('driver (executable model) does not build: ' + '; '.join(failing_theorems(out_drv, [])) )
            lean['driver_log'] = out_drv[-3000:]
        ok, out, t2 = lake_build(pm.LEAN_TARGETS)
        lean['build_s'] = round(t1 + t2, 1)
        if not ok:
            ft = failing_theorems(out, pm.THEOREMS)
            lean['broken'].append('proof obligations no longer check: ' + '; '.join(ft))
            lean['build_log'] = out[-4000:]
            lean['discharged'] = 0
        else:
            hits = grep_forbidden()
            if hits:
                lean['broken'].append('forbidden construct in Lean sources: ' + '; '.join(hits[:5]))
            rc, aout, axioms = audit_axioms(ctx.prop, pm.THEOREMS, ctx.tmp)
            lean['axioms'] = axioms
            n = 0
            for t in pm.THEOREMS:
                ax = axioms.get(t['name'])
                if ax is None:
                    lean['broken'].append(f'theorem {t["name"]} not found by the audit')
                elif not set(ax) <= ALLOWED_AXIOMS:
                    lean['broken'].append(f'theorem {t["name"]} depends on {ax}')
                else:
                    n += 1
            lean['discharged'] = n if not hits else 0
            # linking theorems: theorems of this property that are stated over another property's theorems (e.g. the
            # document-level join refinement extends C01's refinement). They are obligations of THIS check exactly when the
            # component modules they need still build; when a component is broken, its own check reports that, and the
            # link is recorded as skipped here instead of raising a second alarm for a property that may still hold.
            links = []
            for lk in getattr(pm, 'LINKS', []):
                okn, outn, _ = lake_build(lk['needs'])
                rec = {'target': lk['target'], 'needs': lk['needs']}
                if not okn:
                    rec['status'] = 'skipped: a component module does not build (reported by that property\'s own check)'
                    links.append(rec)
                    continue
                okl, outl, _ = lake_build([lk['target']])
                if not okl:
                    rec['status'] = 'broken'
                    lean['broken'].append('proof obligations no longer check: ' + '; '.join(failing_theorems(outl, lk['theorems'])))
                    lean['build_log'] = outl[-4000:]
                    links.append(rec)
                    continue
                _, _, lax = audit_axioms(ctx.prop + '_link', lk['theorems'], ctx.tmp)
                bad = [t['name'] for t in lk['theorems'] if lax.get(t['name']) is None or not set(lax[t['name']]) <= ALLOWED_AXIOMS]
                for b in bad:
                    lean['broken'].append(f'theorem {b} not found by the audit or depends on {lax.get(b)}')
                lean['axioms'].update(lax)
                rec['status'] = 'checked' if not bad else 'broken'
                rec['theorems'] = len(lk['theorems']) - len(bad)
                lean['discharged'] += rec['theorems'] if not hits else 0
                lean.setdefault('link_targets', []).append(lk['target'])
                links.append(rec)
            if links:
                lean['links'] = links
            # composition theorems (e.g. Props/Pipeline.lean): built and audited for information. They follow from the
            # property theorems of several properties; when one no longer builds, the check of the component whose
            # theorem changed reports it, so this is recorded in the evidence and never raised as a violation here.
            info_t = getattr(pm, 'INFO_TARGETS', [])
            if info_t:
                oki, outi, _ = lake_build(info_t)
                info = {'targets': info_t, 'built': oki}
                if oki and getattr(pm, 'INFO_THEOREMS', []):
                    _, _, iax = audit_axioms(ctx.prop + '_info', pm.INFO_THEOREMS, ctx.tmp)
                    info['axioms'] = iax
                elif not oki:
                    info['log'] = outi[-1500:]
                lean['info'] = info
            if ctx.tier == 'thorough' and not lean['broken']:
                mods = [t for t in pm.LEAN_TARGETS] + lean.get('link_targets', [])
                rc, cout = run(['lake', 'env', 'leanchecker'] + mods, cwd=LEAN_DIR, timeout=3000)
                lean['leanchecker'] = 'ok' if rc == 0 else cout[-1500:]
                if rc != 0:
                    lean['broken'].append('leanchecker rejected the compiled modules')
    return lean


def main_check(pm, argv):
    prop = pm.PROP
    if len(argv) >= 2 and argv[0] == '--replay':
        ctx = Ctx(prop, 'quick', 0)
        try:
            with open(argv[1]) as f:
                data = json.load(f)
            ensure_repo_on_path()
            still = pm.replay(ctx, data)
            print(('REPLAY: still failing: ' if still else 'REPLAY: no longer failing: ') + json.dumps(data.get('summary', ''))[:400])
            return 1 if still else 0
        finally:
            ctx.cleanup()

    tier = argv[0] if argv else os.environ.get('VERIF_TIER', 'quick')
    if tier not in ('quick', 'thorough'):
        print(f'usage: check {prop} quick|thorough | --replay <file>')
        return 2
    seed = int(os.environ.get('VERIF_SEED', '0') or 0)
    ctx = Ctx(prop, tier, seed)
    try:
        lean = lean_phase(ctx, pm)
        ctx.t_run = time.time()
        ctx.escalate = bool(lean['broken'])
        ensure_repo_on_path()
        findings = load_known_findings(prop)
        try:
            pm.run(ctx, lean, findings)
        except Exception as e:  # harness crash = infrastructure error, unless the engine itself is broken
            import traceback
            traceback.print_exc()
            print(f'ERROR: harness crashed: {e!r}')
            write_evidence(ctx, pm, lean, 0)
            return 2
        if ctx.disagreements:
            lean['broken'].append(f'correspondence: model and implementation differ on {len(ctx.disagreements)} case(s), first at interface '
                                  + ctx.disagreements[0]['interface'])

        new = [v for v in ctx.violations if not v['finding']]
        listed = [v for v in ctx.violations if v['finding']]
        open_ids = {f['id']: f for f in findings if f.get('status') == 'open'}
        for v in listed:
            if v['finding'] not in open_ids:
                new.append(v)          # attributed to a finding that is not (any longer) listed as open
            else:
                ctx.known_hits.setdefault(v['finding'], open_ids[v['finding']]['what'])
        for fid in sorted(ctx.known_hits):
            print(f'KNOWN-FINDING: property={prop} {fid}: {ctx.known_hits[fid]}')

        rc = 0
        if new:
            v = new[0]
            path = write_replay(ctx, {'property': prop, 'kind': 'failing-input', 'summary': v['what'], 'input': v['input'],
                                      'all': new[:20], 'broken': lean['broken']})
            print(f'VIOLATION property={prop} replay={path}')
            rc = 1
        elif lean['broken']:
            path = write_replay(ctx, {'property': prop, 'kind': 'no-failing-input-found',
                                      'summary': 'the property is no longer shown to hold: ' + ' | '.join(lean['broken']),
                                      'broken': lean['broken'], 'disagreements': ctx.disagreements[:10],
                                      'build_log': lean.get('build_log', '')[-3000:],
                                      'searched': {'evaluations': ctx.evaluations, 'distribution': ctx.dist}})
            print(f'VIOLATION property={prop} replay={path} no-failing-input-found')
            rc = 1
        write_evidence(ctx, pm, lean, len(new) if new else (1 if rc else 0))
        print(f'{prop} {tier}: obligations {lean.get("discharged", 0)}/{len(pm.THEOREMS) + sum(len(l["theorems"]) for l in getattr(pm, "LINKS", []))} discharged, '
              f'{ctx.evaluations} cases ({len(ctx.nontrivial_keys)} distinct non-trivial), '
              f'{len(ctx.disagreements)} model/impl disagreements, {len(new)} new violations, '
              f'{len(ctx.known_hits)} known findings, {ctx.wall():.1f}s')
        return rc
    finally:
        ctx.cleanup()
