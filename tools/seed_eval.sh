#!/bin/bash
# tools/seed_eval.sh <seed dir, e.g. /tmp/seed_C03> <seed id, e.g. C03-a> [checks to run, default: the seed's property]
# Confirms a seeded change (patch applies to HEAD, demo passes without / fails with it, test suite still 247 passed),
# stores it as /verif/seeded/<id>/ and runs the named checks against it.
set -u
VROOT="$(cd "$(dirname "$0")/.." && pwd)"
SD="$1"; ID="$2"; shift 2
DEST="$VROOT"/seeded/$ID
mkdir -p "$DEST"
cp "$SD/SEED/patch.diff" "$SD/SEED/demo.py" "$SD/SEED/meta.json" "$DEST/" || exit 3
PROP=$(python3 -c "import json;print(json.load(open('$DEST/meta.json'))['property'])")
CHECKS="${*:-$PROP}"
WT=$(mktemp -d /tmp/sv_XXXXXX); rmdir "$WT"
git -C /repo worktree add -q "$WT" HEAD || exit 3
export VERIF_LEAN_DIR="${WT}_lean"; rsync -a "$VROOT"/lean/ "$VERIF_LEAN_DIR"/
R="$DEST/confirm.log"; : > "$R"
( cd "$WT" && PYTHONPATH="$WT/src" timeout 600 /venv/bin/python "$DEST/demo.py" ) >> "$R" 2>&1; echo "demo on unchanged tree: exit $?" | tee -a "$R"
if ! git -C "$WT" apply "$DEST/patch.diff"; then echo "PATCH DOES NOT APPLY" | tee -a "$R"; git -C /repo worktree remove --force "$WT"; exit 3; fi
( cd "$WT" && PYTHONPATH="$WT/src" timeout 600 /venv/bin/python "$DEST/demo.py" ) >> "$R" 2>&1; echo "demo on changed tree: exit $?" | tee -a "$R"
if [ "${SEED_SUITE:-1}" = "1" ]; then
  ( cd "$WT" && PYTHONPATH="$WT/src" /venv/bin/python -m pytest -q -p no:cacheprovider --timeout=900 test 2>&1 | tail -1 ) | tee -a "$R"
fi
for C in $CHECKS; do
  VERIF_REPO="$WT" "$VROOT"/check "$C" quick > "$DEST/check_$C.log" 2>&1; rc=$?
  echo "check $C on changed tree: exit $rc :: $(grep -v '^KNOWN-FINDING' "$DEST/check_$C.log" | grep -E 'VIOLATION|quick:' | tr '\n' ' ' | cut -c1-300)" | tee -a "$R"
done
git -C /repo worktree remove --force "$WT"; rm -rf "$VERIF_LEAN_DIR"
