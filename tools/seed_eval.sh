#!/bin/bash
# tools/seed_eval.sh <seed dir, e.g. /tmp/seedout_C03/a> <seed id, e.g. C03-a> [checks to run, default: the seed's property]
# Confirms a seeded change (patch applies to HEAD, demo passes without / fails with it, test suite unchanged),
# stores it as /verif/seeded/<id>/ and runs the named checks (quick tier) against it in a scratch worktree.
# SEED_SUITE=0 skips the suite run (e.g. when only re-running checks); results go to seeded/<id>/result.json.
set -u
VROOT="$(cd "$(dirname "$0")/.." && pwd)"
SD="$1"; ID="$2"; shift 2
DEST="$VROOT"/seeded/$ID
mkdir -p "$DEST"
if [ -d "$SD/SEED" ]; then cp "$SD/SEED/patch.diff" "$SD/SEED/demo.py" "$SD/SEED/meta.json" "$DEST/" || exit 3; fi
PROP=$(python3 -c "import json;print(json.load(open('$DEST/meta.json'))['property'])")
CHECKS="${*:-$PROP}"
WT=$(mktemp -d /tmp/sv_XXXXXX); rmdir "$WT"
git -C /repo worktree add -q "$WT" HEAD || exit 3
export VERIF_LEAN_DIR="${WT}_lean"; rsync -a "$VROOT"/lean/ "$VERIF_LEAN_DIR"/
R="$DEST/confirm.log"; [ "${SEED_SUITE:-1}" = "1" ] && : > "$R"
( cd "$WT" && PYTHONPATH="$WT/src" timeout 900 /venv/bin/python "$DEST/demo.py" ) >> "$R" 2>&1; D0=$?; echo "demo on unchanged tree: exit $D0" | tee -a "$R"
if ! git -C "$WT" apply "$DEST/patch.diff"; then echo "PATCH DOES NOT APPLY" | tee -a "$R"; git -C /repo worktree remove --force "$WT"; rm -rf "$VERIF_LEAN_DIR"; exit 3; fi
( cd "$WT" && PYTHONPATH="$WT/src" timeout 900 /venv/bin/python "$DEST/demo.py" ) >> "$R" 2>&1; D1=$?; echo "demo on changed tree: exit $D1" | tee -a "$R"
SUITE="skipped"
if [ "${SEED_SUITE:-1}" = "1" ]; then
  L=$(mktemp /tmp/svsuite_XXXXXX.log)
  TAIL=$("$VROOT"/tools/run_suite.sh "$WT" "$L")
  if cmp -s "$L.failed" /tmp/suite_base.log.failed 2>/dev/null || { [ ! -f /tmp/suite_base.log.failed ] && echo "$TAIL" | grep -q "59 failed, 247 passed"; }; then SUITE="same"; else SUITE="DIFFERENT"; fi
  echo "suite on changed tree: $TAIL :: failed set vs baseline: $SUITE" | tee -a "$R"
  [ "$SUITE" = "DIFFERENT" ] && diff "$L.failed" /tmp/suite_base.log.failed | head -10 | tee -a "$R"
  rm -f "$L" "$L.failed"
fi
RES=""
for C in $CHECKS; do
  VERIF_REPO="$WT" "$VROOT"/check "$C" quick > "$DEST/check_$C.log" 2>&1; rc=$?
  echo "check $C on changed tree: exit $rc :: $(grep -v '^KNOWN-FINDING' "$DEST/check_$C.log" | grep -E 'VIOLATION|quick:' | tr '\n' ' ' | cut -c1-300)" | tee -a "$R"
  NF=$(grep -c 'no-failing-input-found' "$DEST/check_$C.log")
  RES="$RES \"$C\": {\"exit\": $rc, \"no_failing_input\": $NF},"
done
git -C /repo worktree remove --force "$WT"; rm -rf "$VERIF_LEAN_DIR"
python3 - "$DEST" "$D0" "$D1" "$SUITE" "{${RES%,}}" <<'PY'
import json, sys, os
dest, d0, d1, suite, res = sys.argv[1:6]
p = os.path.join(dest, 'result.json')
old = json.load(open(p)) if os.path.exists(p) else {}
old.update({'demo_unchanged_exit': int(d0), 'demo_changed_exit': int(d1)})
if suite != 'skipped':
    old['suite'] = suite
old.setdefault('checks', {}).update(json.loads(res))
json.dump(old, open(p, 'w'), indent=1)
PY
