#!/usr/bin/env python3
"""Regenerates the seeded-change table of DESIGN.md (between the SEED-TABLE markers) from seeded/*/meta.json + result.json."""
import glob, json, os, re
V = os.path.dirname(os.path.dirname(os.path.abspath(__file__)))
rows = []
for d in sorted(glob.glob(os.path.join(V, 'seeded', '*'))):
    try:
        m = json.load(open(os.path.join(d, 'meta.json'))); r = json.load(open(os.path.join(d, 'result.json')))
    except Exception:
        continue
    ok = r.get('demo_unchanged_exit') == 0 and r.get('demo_changed_exit') not in (0, None) and r.get('suite', 'same') == 'same'
    ch = []
    for c, v in sorted(r.get('checks', {}).items()):
        ch.append(f"{c}: " + ('caught' + (' (no-failing-input-found)' if v.get('no_failing_input') else ' (failing input)') if v['exit'] == 1
                              else 'MISSED' if v['exit'] == 0 else f"error {v['exit']}"))
    rows.append(f"| {os.path.basename(d)} | {m.get('property')} | {m.get('title', '').replace('|', '/')[:110]} | "
                f"{m.get('needs', '').replace('|', '/')[:120]} | {'yes' if ok else 'NO'} | {'; '.join(ch)} |")
tab = ("| seed | property | change | needs, to manifest | confirmed (demo 0→≠0, suite unchanged) | quick checks on the changed tree |\n"
       "|---|---|---|---|---|---|\n" + '\n'.join(rows)) if rows else '(no seeded change evaluated yet)'
p = os.path.join(V, 'DESIGN.md')
s = open(p).read()
s = re.sub(r'<!-- SEED-TABLE-BEGIN -->.*<!-- SEED-TABLE-END -->', '<!-- SEED-TABLE-BEGIN -->\n' + tab.replace('\\', '\\\\') + '\n<!-- SEED-TABLE-END -->', s, flags=re.S)
open(p, 'w').write(s)
print(len(rows), 'seeds')
