#!/usr/bin/env python3
"""import_claim.py <agent working copy> <Cxx>: extract CLAIMED[Cxx] from the copy's mkmanifest.py into tools/claims/Cxx.json"""
import json, os, sys
wk, pid = sys.argv[1], sys.argv[2]
s = open(os.path.join(wk, 'tools', 'mkmanifest.py')).read()
i = s.index('CLAIMED = {'); j = s.index('NOT_APPLICABLE_REASON =')
ns = {'os': os, 'json': json, 'VERIF': wk}
exec(s[i:j], ns)
here = os.path.dirname(os.path.abspath(__file__))
json.dump(ns['CLAIMED'][pid], open(os.path.join(here, 'claims', pid + '.json'), 'w'), indent=1)
print('imported', pid)
