#!/bin/bash
# /tmp/run_suite.sh <tree> [logfile]  — runs the repository's test suite on <tree>, at most TWO runs at a time machine-wide
# (a suite run leaks many pool workers until it ends). Prints the last line of pytest's output; failed ids go to <logfile>.failed.
set -u
TREE="$(cd "$1" && pwd)"; LOG="${2:-$(mktemp /tmp/suite_XXXXXX.log)}"
exec 9>/tmp/.morph_suite.lock
if ! flock -n 9; then
  exec 9>/tmp/.morph_suite2.lock
  if ! flock -n 9; then
    if [ $((RANDOM % 2)) = 0 ]; then exec 9>/tmp/.morph_suite.lock; fi
    flock 9
  fi
fi
cd "$TREE" || exit 3
PYTHONPATH="$TREE/src" setsid timeout -s KILL 1800 /venv/bin/python -m pytest -q -p no:cacheprovider --timeout=900 -rf test > "$LOG" 2>&1 9>&- &
PID=$!
wait $PID
pkill -KILL -s $PID 2>/dev/null
grep -E '^FAILED ' "$LOG" | sed 's/ - .*//' | sort > "$LOG.failed"
tail -1 "$LOG"
