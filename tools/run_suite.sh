#!/bin/bash
# tools/run_suite.sh <tree> [logfile]  — runs the repository's test suite on <tree> (a checkout of /repo), ONE RUN AT A TIME
# machine-wide (a suite run leaks up to ~1800 pool workers / 20 GB until it ends; two or more at once exhaust the memory).
# Prints the last line of pytest's output (e.g. "59 failed, 247 passed ...") and the sorted list of failed test ids goes to
# <logfile>.failed. Waits in a queue when another run is active.
set -u
TREE="$(cd "$1" && pwd)"; LOG="${2:-$(mktemp /tmp/suite_XXXXXX.log)}"
exec 9>/tmp/.morph_suite.lock
flock 9
cd "$TREE" || exit 3
PYTHONPATH="$TREE/src" setsid timeout -s KILL 1500 /venv/bin/python -m pytest -q -p no:cacheprovider --timeout=900 -rf test > "$LOG" 2>&1 9>&- &
PID=$!
wait $PID
pkill -KILL -s $PID 2>/dev/null     # leaked multiprocessing workers of this run (its own session only)
grep -E '^FAILED ' "$LOG" | sed 's/ - .*//' | sort > "$LOG.failed"
tail -1 "$LOG"
