"""
A generated end-to-end case (abstract document + tables rendered to files) and the four ways of evaluating it:
real engine, Lean model on the real rule table, Lean model on the model's own normalisation, Lean specification.
"""
import json
import os

import coregen as cg

COLS_POOL = ['id', 'name', 'A', 'b c', 'x_1', 'Ünï', 'k', 'v']


class Case:
    def __init__(self, d, doc, tables, columns):
        self.dir = d
        self.doc = doc
        self.tables = tables          # path -> list of row dicts
        self.columns = columns        # path -> column list
        self.mapping = os.path.join(d, 'm.ttl')

    def write_mapping(self, doc=None, path=None):
        path = path or self.mapping
        with open(path, 'w', encoding='utf-8') as f:
            f.write(cg.render_doc(doc or self.doc))
        return path

    def tables_json(self, section='DS'):
        return [cg.table_json(section, p, rows) for p, rows in self.tables.items()]

    def key(self):
        return [self.doc, {os.path.basename(p): r for p, r in self.tables.items()}]

    def summary(self):
        return {'tms': len(self.doc['tms']), 'poms': sum(len(t['poms']) for t in self.doc['tms']),
                'rows': sum(len(r) for r in self.tables.values())}


def make_case(rng, d, value_kind=None, max_tms=3, max_poms=3, nsources=None, null_rate=0.15, graphs=True, classes=True,
              na_tokens=('', 'nan'), max_rows=5):
    os.makedirs(d, exist_ok=True)
    sources, tables, columns = [], {}, {}
    for k in range(nsources or rng.randrange(1, 3)):
        cols = rng.sample(COLS_POOL, rng.randrange(1, 4))
        vk = value_kind or rng.choice(['any', 'plain'])
        rows = cg.gen_table(rng, cols, rng.randrange(0, max_rows + 1), value_kind=vk, null_rate=null_rate, na_tokens=na_tokens)
        path = os.path.join(d, f't{k}.csv')
        if not cg.write_csv(path, cols, rows):
            rows = cg.gen_table(rng, cols, rng.randrange(1, 4), value_kind='plain', null_rate=null_rate, na_tokens=na_tokens)
            assert cg.write_csv(path, cols, rows)
        sources.append((path, cols))
        tables[path] = rows
        columns[path] = cols
    doc = cg.gen_doc(rng, sources, max_tms=max_tms, max_poms=max_poms, graphs=graphs, classes=classes)
    c = Case(d, doc, tables, columns)
    c.write_mapping()
    return c


def engine(case, fmt='N-TRIPLES', partitioning=None, nproc=1, na=None, safe=None, mapping=None, only_printable=None):
    return cg.run_engine(cg.config_text(mapping or case.mapping, fmt=fmt, partitioning=partitioning, nproc=nproc, na=na, safe=safe,
                                        only_printable=only_printable))


def spec(drv, case, fmt='N-TRIPLES', na=None, safe='', doc=None):
    kw = {}
    if na is not None:
        kw['na'] = na
    return sorted(drv.call('spec_eval', doc=cg.doc_for_driver(doc or case.doc), tables=case.tables_json(), fmt=fmt, safe=safe, **kw))


def model_on_real_rules(drv, case, fmt='N-TRIPLES', partitioning=None, na=None, safe='', grouped=False, mapping=None, reuse=False):
    """Lean `Model.evalAll` on the rule table produced by the REAL parser -> ('ok', lines) | ('err', …) ; plus the rules"""
    if reuse and 'rml_df' in cg.LAST_RULES:
        rml_df = cg.LAST_RULES['rml_df']
    else:
        cfg = cg.config_text(mapping or case.mapping, fmt=fmt, partitioning=partitioning,
                             na=(','.join(na) if na is not None else None), safe=safe or None)
        rml_df, fnml_df, config = cg.real_rules(cfg)
    rules = cg.rules_to_json(rml_df)
    kw = {}
    if na is not None:
        kw['na'] = na
    m = drv.call('eval', rules=rules, tables=case.tables_json(), fmt=fmt, safe=safe, grouped=grouped, **kw)
    if 'ok' in m:
        return ('ok', sorted(m['ok'])), rules
    return ('err', m), rules


def canon_rule(r, by_id):
    """a rule without its numbering: parent references are replaced by the parent's subject map"""
    d = {k: v for k, v in r.items() if k not in ('triples_map_id', 'mapping_partition', 'source_type', 'logical_source_type', 'iterator')}
    if r.get('object_map_type') == 'parentTM':
        p = by_id.get(r['object_map_value'])
        d['object_map_value'] = ['parent', p.get('subject_map_type'), p.get('subject_map_value'), p.get('logical_source_value')] if p else ['parent?']
    d['subject_join'] = sorted(map(tuple, d.get('subject_join') or []))
    d['object_join'] = sorted(map(tuple, d.get('object_join') or []))
    for k in ('lang_datatype', 'lang_datatype_map_type'):
        d.setdefault(k, None)
    return json.dumps(d, sort_keys=True, ensure_ascii=True)


def canon_rules(rules):
    by_id = {}
    for r in rules:
        by_id.setdefault(r['triples_map_id'], r)
    return sorted({canon_rule(r, by_id) for r in rules})


def normalize_model(drv, case, doc=None):
    return drv.call('normalize', doc=cg.doc_for_driver(doc or case.doc))


# ---- scope predicates shared by several properties --------------------------------------------------------------

def all_termmaps(doc):
    for tm in doc['tms']:
        yield 'subject', tm['subject'], tm
        for g in tm['subject'].get('graphs', []):
            yield 'graph', g, tm
        for pom in tm['poms']:
            for p in pom['predicates']:
                yield 'predicate', p, tm
            for o in pom['objects']:
                if not o.get('parent'):
                    yield 'object', o, tm
            for g in pom.get('graphs', []):
                yield 'graph', g, tm


def scope_template_clash(doc):
    """C01_F1: the unescaped literal text of a template contains `{r}` for a reference r of the same template"""
    for pos, tm, _ in all_termmaps(doc):
        if tm.get('kind') == 'template' and tm.get('tpl'):
            refs = [r for r, _ in tm['tpl']['parts']]
            lits = [tm['tpl']['pre']] + [l for _, l in tm['tpl']['parts']]
            if any('{' + r + '}' in l for r in refs for l in lits):
                return True
    return False


def scope_constant_braces(doc):
    """C01_F3: a constant-valued term map whose value contains a brace"""
    return any(tm.get('kind') == 'constant' and ('{' in tm['value'] or '}' in tm['value']) for _, tm, _ in all_termmaps(doc))


def scope_literal_text_needs_escape(doc):
    """C05_F5"""
    for pos, tm, _ in all_termmaps(doc):
        if tm.get('termtype') == 'literal':
            text = tm['value'] if tm['kind'] == 'constant' else (''.join([tm['tpl']['pre']] + [l for _, l in tm['tpl']['parts']]) if tm.get('tpl') else '')
            if any(ch in text for ch in '"\\\n\r\t\b\f\''):
                return True
    return False


def scope_allconst_empty(case):
    """C01_F4: a rule whose four term maps are all constants, over a logical source without rows"""
    for tm in case.doc['tms']:
        if case.tables.get(tm['source']) == [] and tm['subject']['kind'] == 'constant':
            sg = tm['subject'].get('graphs', [])
            # every graph map yields its own rule: one constant graph map (or none at all) makes an all-constant rule
            if tm['subject'].get('classes') and (not sg or any(g['kind'] == 'constant' for g in sg)):
                return True
            for pom in tm['poms']:
                gs = sg + pom.get('graphs', [])
                if (not gs or any(g['kind'] == 'constant' for g in gs)) and any(p['kind'] == 'constant' for p in pom['predicates']) \
                        and any((not o.get('parent')) and o['kind'] == 'constant' for o in pom['objects']):
                    return True
    return False
