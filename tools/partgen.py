"""Synthetic rule tables for the partitioners (adversarial invariants) and the real partitioner call."""
import coregen as cg

RML = cg.RML
INV_POOL = ['http://a/', 'http://a/b', 'http://a/b/', 'http://a/b/c', 'http://ab', 'http://a', 'http://b/', 'http://', 'urn:x:', 'urn:x:y',
            'http://a/b\\{', 'http://a/\\{x\\}', 'http://A/', 'http://a/é', 'http://a/\U0001F600', '']
LIT_TYPES = [None, 'en', 'es', cg.XSD + 'integer', cg.XSD + 'date']


def gen_rules(rng, n=None):
    """JSON rules (the driver's format) with nested / equal / interleaved invariants"""
    n = n or rng.randrange(2, 9)
    all_const_pred = rng.random() < 0.6
    all_const_graph = rng.random() < 0.6
    dynamic_lit = rng.random() < 0.15
    rules = []
    for i in range(n):
        r = {'triples_map_id': f'#TM{i}', 'source_name': 'DS', 'logical_source_value': 't.csv', 'asserted': True}
        # subject
        k = rng.random()
        if k < 0.6:
            r['subject_map_type'] = 'template'
            r['subject_map_value'] = rng.choice(INV_POOL) + '{c' + rng.choice('12') + '}' + rng.choice(['', '/x', '{c3}'])
            r['subject_termtype'] = 'iri' if rng.random() < 0.85 else 'bnode'
        elif k < 0.8:
            r['subject_map_type'] = 'constant'
            r['subject_map_value'] = rng.choice(INV_POOL[:10]) + rng.choice(['', 'k'])
            r['subject_termtype'] = 'iri'
        else:
            r['subject_map_type'] = 'reference'
            r['subject_map_value'] = 'c1'
            r['subject_termtype'] = rng.choice(['iri', 'bnode'])
        # predicate
        if all_const_pred or rng.random() < 0.5:
            r['predicate_map_type'] = 'constant'
            r['predicate_map_value'] = rng.choice(['http://p/a', 'http://p/ab', 'http://p/a/b', 'http://p/b', 'http://p/'])
        else:
            r['predicate_map_type'] = rng.choice(['template', 'reference'])
            r['predicate_map_value'] = (rng.choice(['http://p/', 'http://p/a', 'http://p/a/']) + '{c1}') if r['predicate_map_type'] == 'template' else 'c2'
        # object
        k = rng.random()
        if k < 0.4:
            r['object_termtype'] = 'literal'
            r['object_map_type'] = rng.choice(['reference', 'template', 'constant'])
            r['object_map_value'] = {'reference': 'c2', 'template': rng.choice(['', 'a', 'ab']) + '{c2}', 'constant': rng.choice(['x', 'xy'])}[r['object_map_type']]
            lt = rng.choice(LIT_TYPES)
            if lt is not None:
                r['lang_datatype'] = 'datatypeMap' if lt.startswith('http') else 'languageMap'
                if dynamic_lit and rng.random() < 0.5:
                    r['lang_datatype_map_type'] = 'reference'
                    r['lang_datatype_map_value'] = 'c3'
                else:
                    r['lang_datatype_map_type'] = 'constant'
                    r['lang_datatype_map_value'] = lt
        elif k < 0.85:
            r['object_termtype'] = 'iri'
            r['object_map_type'] = rng.choice(['template', 'template', 'constant', 'reference'])
            r['object_map_value'] = {'template': rng.choice(INV_POOL) + '{c2}', 'constant': rng.choice(INV_POOL[:10]) + 'o', 'reference': 'c2'}[r['object_map_type']]
        else:
            r['object_termtype'] = 'bnode'
            r['object_map_type'] = 'template'
            r['object_map_value'] = rng.choice(['b', 'bb', '']) + '{c2}'
        # graph
        if all_const_graph or rng.random() < 0.5:
            r['graph_map_type'] = 'constant'
            r['graph_map_value'] = rng.choice([RML + 'defaultGraph', 'http://g/a', 'http://g/ab', 'http://g/b'])
        else:
            r['graph_map_type'] = rng.choice(['template', 'reference'])
            r['graph_map_value'] = (rng.choice(['http://g/', 'http://g/a']) + '{c1}') if r['graph_map_type'] == 'template' else 'c3'
        rules.append(r)
    return rules


INV_MT = {v: k for k, v in cg.MAPTYPE.items()}
INV_TT = {v: k for k, v in cg.TERMTYPE.items()}


def rules_to_df(rules):
    """the DataFrame the real partitioner expects (after parse_mappings' empty -> NaN replacement)"""
    import pandas as pd
    rows = []
    for r in rules:
        rows.append({
            'source_name': r.get('source_name', 'DS'), 'triples_map_id': r['triples_map_id'], 'triples_map_type': RML + 'TriplesMap',
            'logical_source_type': RML + 'source', 'logical_source_value': r.get('logical_source_value', 't.csv'), 'iterator': None,
            'subject_map_type': INV_MT[r['subject_map_type']], 'subject_map_value': r['subject_map_value'], 'subject_termtype': INV_TT[r['subject_termtype']],
            'predicate_map_type': INV_MT[r['predicate_map_type']], 'predicate_map_value': r['predicate_map_value'],
            'object_map_type': INV_MT[r['object_map_type']], 'object_map_value': r['object_map_value'], 'object_termtype': INV_TT[r['object_termtype']],
            'lang_datatype': (RML + r['lang_datatype']) if r.get('lang_datatype') else None,
            'lang_datatype_map_type': INV_MT[r['lang_datatype_map_type']] if r.get('lang_datatype_map_type') else None,
            'lang_datatype_map_value': r.get('lang_datatype_map_value') or None,
            'graph_map_type': INV_MT[r['graph_map_type']], 'graph_map_value': r['graph_map_value'],
            'subject_join_conditions': None, 'object_join_conditions': None, 'source_type': 'CSV',
        })
    df = pd.DataFrame(rows)
    return df.infer_objects(copy=False).replace(r'^\s*$', None, regex=True)


def real_partition(rules, mode, nproc=1):
    """labels (by triples_map_id) assigned by the real MappingPartitioner, or ('exc', message)"""
    from morph_kgc.args_parser import load_config_from_argument
    from morph_kgc.mapping.mapping_partitioner import MappingPartitioner
    config = load_config_from_argument(f'[CONFIGURATION]\nlogging_level=CRITICAL\nmapping_partitioning={mode}\nnumber_of_processes={nproc}\n')
    df = rules_to_df(rules)
    try:
        out = MappingPartitioner(df, config).partition_mappings()
    except Exception as e:
        return 'exc', f'{type(e).__name__}: {str(e)[:120]}'
    return 'ok', {row['triples_map_id']: row['mapping_partition'] for _, row in out.iterrows()}, len(out)
