"""
Surface-syntax renderer for C09: ONE abstract mapping document (the dict format of `coregen.gen_doc`) is rendered into every
spelling the property lists —

  vocabulary        R2RML (`rr:`), RML (`http://w3id.org/rml/`), legacy RML (`rr:` + `http://semweb.mmlab.be/ns/rml#` + `ql:`), YARRRML
  term maps         constant shortcuts (`rr:subject/predicate/object/graph`) or expanded term maps
  classes           `rr:class` on the subject map or an explicit rdf:type predicate-object map
  graphs            graph maps on the subject map or repeated on every predicate-object map
  factoring         multi-valued predicate-object maps or one per (predicate, object) pair
  term types        written out or left to the defaults of R2RML 7.4
  language/datatype shortcut property or (RML) expanded language / datatype map
  identifiers       plain or SQL-delimited (`"col"`, `{"col"}`)
  document level    Turtle with nested or labelled blank nodes, other prefixes, @base + relative IRIs, triples maps as blank nodes,
                    typed or untyped triples maps; N-Triples with shuffled lines and fresh blank-node labels; RDF/XML, N3, JSON-LD
                    (through rdflib's serialisers); file extensions .ttl .nt .n3 .xml .rdf .jsonld .rml

The vocabulary tables below are written from the R2RML Recommendation, the RML-Core / RML-IO specifications and the legacy RML
specification, not from morph-kgc's dictionaries.
"""
import json
import re

RR = 'http://www.w3.org/ns/r2rml#'
RML = 'http://w3id.org/rml/'
RMLL = 'http://semweb.mmlab.be/ns/rml#'
QL = 'http://semweb.mmlab.be/ns/ql#'
XSD = 'http://www.w3.org/2001/XMLSchema#'
RDF = 'http://www.w3.org/1999/02/22-rdf-syntax-ns#'
RDF_TYPE = RDF + 'type'

# key -> local name per vocabulary (None: the vocabulary has no such term)
_COMMON = ['subjectMap', 'predicateObjectMap', 'predicateMap', 'objectMap', 'graphMap', 'subject', 'predicate', 'object', 'graph',
           'constant', 'template', 'class', 'termType', 'IRI', 'Literal', 'BlankNode', 'language', 'datatype', 'parentTriplesMap',
           'joinCondition', 'child', 'parent', 'defaultGraph', 'TriplesMap', 'tableName', 'sqlVersion', 'SQL2008']


def vocab_iri(vocab, key):
    """the IRI of a vocabulary term in the given vocabulary"""
    if vocab == 'rml':
        return RML + key
    if vocab == 'r2rml':
        special = {'logicalSource': 'logicalTable', 'query': 'sqlQuery', 'reference': 'column'}
        if key in special:
            return RR + special[key]
        if key in _COMMON:
            return RR + key
        raise KeyError(f'R2RML has no term for {key}')
    if vocab == 'legacy':
        if key in ('logicalSource', 'source', 'referenceFormulation', 'reference', 'iterator', 'query'):
            return RMLL + key
        if key == 'CSV':
            return QL + 'CSV'
        if key in _COMMON:
            return RR + key
        raise KeyError(f'legacy RML has no term for {key}')
    raise KeyError(vocab)


# ----------------------------------------------------------------------------------------------------
# spellings
# ----------------------------------------------------------------------------------------------------

DEFAULT_SPELLING = {
    'vocab': 'rml', 'shortcut': False, 'class_pom': False, 'graphs_on_poms': False, 'split': False, 'termtypes': 'explicit',
    'langdt_expanded': False, 'delim': False, 'tm_bnode': False, 'typed': True, 'ser': 'ttl', 'ext': 'ttl', 'nested': True,
    'prefixes': 0, 'base': False, 'shuffle': 0, 'legacy_table': False,
}


def rand_spelling(rng, vocab=None):
    sp = dict(DEFAULT_SPELLING)
    sp['vocab'] = vocab or rng.choice(['r2rml', 'rml', 'legacy', 'yarrrml'])
    for k in ('shortcut', 'class_pom', 'graphs_on_poms', 'split', 'delim', 'tm_bnode', 'nested', 'base', 'legacy_table'):
        sp[k] = rng.random() < 0.5
    sp['typed'] = rng.random() < 0.7
    sp['termtypes'] = rng.choice(['explicit', 'implicit'])
    sp['langdt_expanded'] = sp['vocab'] == 'rml' and rng.random() < 0.5
    sp['prefixes'] = rng.randrange(0, 3)
    sp['shuffle'] = rng.randrange(1, 10 ** 6)
    sp['ser'], sp['ext'] = rng.choice([('ttl', 'ttl'), ('ttl', 'ttl'), ('ttl', 'rml'), ('nt', 'nt'), ('xml', 'xml'), ('xml', 'rdf'),
                                       ('n3', 'n3'), ('json-ld', 'jsonld'), ('ttl', 'turtle')])
    if sp['vocab'] == 'yarrrml':
        sp['ser'], sp['ext'] = 'yarrrml', rng.choice(['yml', 'yaml', 'yarrrml'])
    return sp


# ----------------------------------------------------------------------------------------------------
# the abstract document, re-factored according to the spelling (vocabulary-independent part)
# ----------------------------------------------------------------------------------------------------

def default_termtype(position, tm):
    """R2RML 7.4: literal for column-valued object maps and object maps with language / datatype, IRI otherwise;
    a constant-valued term map has the term type of its constant"""
    if tm['kind'] == 'constant':
        return 'literal' if tm.get('const_literal') else 'iri'
    if position == 'object' and (tm['kind'] == 'reference' or tm.get('lang') or tm.get('datatype')):
        return 'literal'
    return 'iri'


def prep_termmap(tm):
    tm = dict(tm)
    if tm['kind'] == 'constant':
        # coregen marks literal constants by termtype; keep that as the nature of the constant
        tm['const_literal'] = tm.get('termtype') == 'literal'
    return tm


def refactor(doc, sp):
    """apply class_pom / graphs_on_poms / split to the abstract document; every result is a document in the same dict format whose
    triples maps carry `classes`, `sgraphs` (graph maps left on the subject map) and single- or multi-valued `poms`"""
    out = []
    for tm in doc['tms']:
        sm = prep_termmap(tm['subject'])
        classes = list(tm['subject'].get('classes', []))
        sgraphs = [prep_termmap(g) for g in tm['subject'].get('graphs', [])]
        poms = [{'predicates': [prep_termmap(p) for p in pom['predicates']],
                 'objects': [o if o.get('parent') else prep_termmap(o) for o in pom['objects']],
                 'graphs': [prep_termmap(g) for g in pom.get('graphs', [])]} for pom in tm['poms']]
        class_pom = sp['class_pom'] or (sp['graphs_on_poms'] and sgraphs)
        if class_pom and classes:
            for c in classes:
                poms.append({'predicates': [{'kind': 'constant', 'value': RDF_TYPE, 'termtype': 'iri', 'const_literal': False}],
                             'objects': [{'kind': 'constant', 'value': c, 'termtype': 'iri', 'const_literal': False}], 'graphs': []})
            classes = []
        if sp['graphs_on_poms'] and sgraphs:
            for pom in poms:
                pom['graphs'] = [dict(g) for g in sgraphs] + pom['graphs']
            sgraphs = []
        if sp['split']:
            poms = [{'predicates': [p], 'objects': [o], 'graphs': [dict(g) for g in pom['graphs']]}
                    for pom in poms for p in pom['predicates'] for o in pom['objects']]
        out.append({'id': tm['id'], 'source': tm['source'], 'ls': tm.get('ls'), 'subject': sm, 'classes': classes, 'sgraphs': sgraphs,
                    'poms': poms})
    return out


# ----------------------------------------------------------------------------------------------------
# RDF spellings: a list of triples over ('iri', s) | ('bn', label) | ('lit', lex, lang, datatype)
# ----------------------------------------------------------------------------------------------------

class TripleList:
    def __init__(self):
        self.triples = []
        self.n = 0

    def bn(self):
        self.n += 1
        return ('bn', f'b{self.n}')

    def add(self, s, p, o):
        self.triples.append((s, ('iri', p), o))


def lit(s, lang=None, dt=None):
    return ('lit', s, lang, dt)


def iri(s):
    return ('iri', s)


def delim_ref(name, sp):
    return '"' + name + '"' if sp['delim'] else name


def delim_tpl(tm, sp):
    """the template text, with every reference written as a delimited identifier when the spelling says so"""
    if not sp['delim'] or not tm.get('tpl'):
        return tm['value']
    import coregen as cg
    t = tm['tpl']
    return cg.esc_brace(t['pre']) + ''.join('{"' + r + '"}' + cg.esc_brace(l) for r, l in t['parts'])


def add_termmap(tl, V, node, tm, position, sp):
    if tm['kind'] == 'constant':
        if tm['value'] == 'DEFAULT':
            tl.add(node, V('constant'), iri(V('defaultGraph')))
        elif tm.get('const_literal'):
            tl.add(node, V('constant'), lit(tm['value']))
        else:
            tl.add(node, V('constant'), iri(tm['value']))
    elif tm['kind'] == 'template':
        tl.add(node, V('template'), lit(delim_tpl(tm, sp)))
    else:
        tl.add(node, V('reference'), lit(delim_ref(tm['value'], sp)))
    tt = tm.get('termtype') or default_termtype(position, tm)
    if tm['kind'] != 'constant' and (sp['termtypes'] == 'explicit' or tt != default_termtype(position, tm)):
        tl.add(node, V('termType'), iri(V({'iri': 'IRI', 'literal': 'Literal', 'bnode': 'BlankNode'}[tt])))
    elif tm['kind'] == 'constant' and sp['termtypes'] == 'explicit' and position in ('subject', 'object'):
        tl.add(node, V('termType'), iri(V('Literal' if tm.get('const_literal') else 'IRI')))
    if tm.get('lang'):
        if sp['langdt_expanded']:
            b = tl.bn()
            tl.add(node, V('languageMap'), b)
            tl.add(b, V('constant'), lit(tm['lang']))
        else:
            tl.add(node, V('language'), lit(tm['lang']))
    if tm.get('datatype'):
        if sp['langdt_expanded']:
            b = tl.bn()
            tl.add(node, V('datatypeMap'), b)
            tl.add(b, V('constant'), iri(tm['datatype']))
        else:
            tl.add(node, V('datatype'), iri(tm['datatype']))


def can_shortcut(tm):
    return tm['kind'] == 'constant' and not tm.get('lang') and not tm.get('datatype')


def add_slot(tl, V, node, key, tm, position, sp):
    """a term map at `node`: the constant shortcut property when the spelling asks for it and the map is a plain constant"""
    if sp['shortcut'] and can_shortcut(tm):
        if tm['value'] == 'DEFAULT':
            tl.add(node, V(key), iri(V('defaultGraph')))
        elif tm.get('const_literal'):
            tl.add(node, V(key), lit(tm['value']))
        else:
            tl.add(node, V(key), iri(tm['value']))
    else:
        b = tl.bn()
        tl.add(node, V(key + 'Map'), b)
        add_termmap(tl, V, b, tm, position, sp)


def tm_node(tm, sp, ids):
    return ('bn', 'tm' + str(ids.index(tm['id']))) if sp['tm_bnode'] else iri(tm['id'])


def to_triples(doc, sp, source_kind='csv', marks=None):
    """the spelled mapping document as a list of triples (`marks`: receives the index at which each triples map starts)"""
    vocab = sp['vocab']
    V = lambda k: vocab_iri(vocab, k)
    tl = TripleList()
    tms = refactor(doc, sp)
    ids = [t['id'] for t in tms]
    for tm in tms:
        if marks is not None:
            marks.append(len(tl.triples))
        n = tm_node(tm, sp, ids)
        if sp['typed']:
            tl.add(n, RDF_TYPE, iri(V('TriplesMap')))
        ls = tl.bn()
        if source_kind == 'csv':
            if vocab == 'r2rml':
                raise ValueError('R2RML has no file sources')
            tl.add(n, V('logicalSource'), ls)
            tl.add(ls, V('source'), lit(tm['source']))
            tl.add(ls, V('referenceFormulation'), iri(V('CSV')))
        else:
            kind, text = tm['ls']
            # legacy RML documents are mixtures: the logical table may be written in either vocabulary
            lsv = 'r2rml' if (vocab == 'legacy' and sp['legacy_table']) else vocab
            tl.add(n, vocab_iri(lsv, 'logicalSource'), ls)
            if kind == 'table':
                tl.add(ls, vocab_iri(lsv, 'tableName'), lit(delim_ref(text, sp)))
            else:
                tl.add(ls, vocab_iri(lsv, 'query'), lit(text))
            if sp['termtypes'] == 'explicit':
                tl.add(ls, vocab_iri(lsv, 'sqlVersion'), iri(vocab_iri(lsv, 'SQL2008')))
        sm = tm['subject']
        if sp['shortcut'] and can_shortcut(sm) and not tm['classes'] and not tm['sgraphs']:
            tl.add(n, V('subject'), iri(sm['value']))
        else:
            s = tl.bn()
            tl.add(n, V('subjectMap'), s)
            add_termmap(tl, V, s, sm, 'subject', sp)
            for c in tm['classes']:
                tl.add(s, V('class'), iri(c))
            for g in tm['sgraphs']:
                add_slot(tl, V, s, 'graph', g, 'graph', sp)
        for pom in tm['poms']:
            p = tl.bn()
            tl.add(n, V('predicateObjectMap'), p)
            for pm in pom['predicates']:
                add_slot(tl, V, p, 'predicate', pm, 'predicate', sp)
            for om in pom['objects']:
                if om.get('parent'):
                    o = tl.bn()
                    tl.add(p, V('objectMap'), o)
                    ptm = [t for t in tms if t['id'] == om['parent']][0]
                    tl.add(o, V('parentTriplesMap'), tm_node(ptm, sp, ids))
                    for c, pa in om.get('join', []):
                        j = tl.bn()
                        tl.add(o, V('joinCondition'), j)
                        tl.add(j, V('child'), lit(delim_ref(c, sp)))
                        tl.add(j, V('parent'), lit(delim_ref(pa, sp)))
                else:
                    add_slot(tl, V, p, 'object', om, 'object', sp)
            for g in pom['graphs']:
                add_slot(tl, V, p, 'graph', g, 'graph', sp)
    return tl.triples


# ----------------------------------------------------------------------------------------------------
# serialisations
# ----------------------------------------------------------------------------------------------------

def nt_string(s):
    out = ['"']
    for ch in s:
        o = ord(ch)
        if ch == '\\':
            out.append('\\\\')
        elif ch == '"':
            out.append('\\"')
        elif ch == '\n':
            out.append('\\n')
        elif ch == '\r':
            out.append('\\r')
        elif ch == '\t':
            out.append('\\t')
        elif o < 0x20 or o == 0x7f or 0x80 <= o < 0xa0 or o in (0x2028, 0x2029, 0xfeff, 0xfffe, 0xffff):
            out.append('\\u%04X' % o)
        elif o > 0xffff:
            out.append('\\U%08X' % o)
        else:
            out.append(ch)
    out.append('"')
    return ''.join(out)


def nt_iri(s):
    out = []
    for ch in s:
        if ch in '<>"{}|^`\\' or ord(ch) <= 0x20:
            out.append('\\u%04X' % ord(ch))
        else:
            out.append(ch)
    return '<' + ''.join(out) + '>'


def nt_term(t, relabel=None):
    if t[0] == 'iri':
        return nt_iri(t[1])
    if t[0] == 'bn':
        return '_:' + (relabel(t[1]) if relabel else t[1])
    s = nt_string(t[1])
    if t[2]:
        return s + '@' + t[2]
    if t[3]:
        return s + '^^' + nt_iri(t[3])
    return s


def to_ntriples(triples, seed=0):
    """N-Triples: one line per triple; lines shuffled and blank nodes relabelled when seed != 0"""
    import random
    rng = random.Random(seed)
    labels = {}

    def relabel(l):
        if not seed:
            return l
        if l not in labels:
            labels[l] = 'x%dq%d' % (rng.randrange(10 ** 6), len(labels))
        return labels[l]
    lines = [f'{nt_term(s, relabel)} {nt_term(p)} {nt_term(o, relabel)} .' for s, p, o in triples]
    if seed:
        rng.shuffle(lines)
    return '\n'.join(lines) + '\n'


PREFIX_SETS = [
    {'rr': RR, 'rml': RML, 'rmll': RMLL, 'ql': QL, 'xsd': XSD, 'rdf': RDF, 'ex': 'http://ex.org/'},
    {'r2': RR, 'r': RML, 'old': RMLL, 'q': QL, 'x': XSD, 'rdf': RDF},
    {},
]
PN_LOCAL = re.compile(r'^[A-Za-z_][A-Za-z0-9_]*$')
BASE = 'http://ex.org/tm/'


def to_turtle(triples, nested=True, prefixes=0, base=False, seed=0):
    """own Turtle writer: predicate-object lists, nested `[ ]` for blank nodes with exactly one incoming edge (optional),
    a chosen prefix set, optional @base with relative IRIs, subject blocks in shuffled order"""
    import random
    from coregen import turtle_str
    rng = random.Random(seed)
    pf = PREFIX_SETS[prefixes]

    def t_iri(s, pred=False):
        if pred and s == RDF_TYPE:
            return 'a'
        for k, ns in pf.items():
            if s.startswith(ns) and PN_LOCAL.match(s[len(ns):]):
                return f'{k}:{s[len(ns):]}'
        if base and s.startswith(BASE) and PN_LOCAL.match(s[len(BASE):]):
            return '<' + s[len(BASE):] + '>'
        return nt_iri(s)

    by_s, incoming = {}, {}
    for s, p, o in triples:
        by_s.setdefault(s, []).append((p, o))
        if o[0] == 'bn':
            incoming[o] = incoming.get(o, 0) + 1
    # triples-map nodes stay at top level (a self-join would otherwise inline the triples map into its own object map)
    inline = {b for b, k in incoming.items() if k == 1 and b in by_s and not b[1].startswith('tm')} if nested else set()

    def t_obj(o, depth):
        if o[0] == 'iri':
            return t_iri(o[1])
        if o[0] == 'bn':
            if o in inline:
                return '[ ' + t_pos(by_s[o], depth + 1) + ' ]'
            return '_:' + o[1]
        s = turtle_str(o[1])
        if o[2]:
            return s + '@' + o[2]
        if o[3]:
            return s + '^^' + t_iri(o[3])
        return s

    def t_pos(pos, depth):
        pos = list(pos)
        if seed:
            rng.shuffle(pos)
        return (' ;\n' + '  ' * depth).join(f'{t_iri(p[1], True)} {t_obj(o, depth)}' for p, o in pos)

    out = [f'@prefix {k}: <{ns}> .' for k, ns in pf.items()]
    if base:
        out.append(f'@base <{BASE}> .')
    out.append('')
    subjects = [s for s in by_s if s not in inline]
    if seed:
        rng.shuffle(subjects)
    for s in subjects:
        head = t_iri(s[1]) if s[0] == 'iri' else '_:' + s[1]
        out.append(f'{head} {t_pos(by_s[s], 1)} .\n')
    return '\n'.join(out)


FALLBACKS = []


def serialise(triples, sp):
    """(text, file extension)"""
    ser = sp['ser']
    if ser == 'ttl':
        return to_turtle(triples, nested=sp['nested'], prefixes=sp['prefixes'], base=sp['base'], seed=sp['shuffle']), sp['ext']
    nt = to_ntriples(triples, seed=sp['shuffle'])
    if ser == 'nt':
        return nt, sp['ext']
    import rdflib
    import rdflib.compare
    g = rdflib.Graph()
    g.parse(data=nt, format='nt')
    if sp['prefixes'] == 0:
        for k, ns in PREFIX_SETS[0].items():
            g.bind(k, ns)
    text = g.serialize(format=ser)
    text = text if isinstance(text, str) else text.decode('utf-8')
    # rdflib's serialisers are only a vehicle here: a text that does not read back as the same graph (its JSON-LD serialiser writes `[]`
    # for some graphs whose nodes are all blank) is not a spelling of the document; fall back to N-Triples
    h = rdflib.Graph()
    try:
        h.parse(data=text, format=ser)
        ok = len(h) == len(g) and rdflib.compare.isomorphic(h, g)
    except Exception:  # noqa
        ok = False
    if not ok:
        FALLBACKS.append(ser)
        return nt, 'nt'
    return text, sp['ext']


# ----------------------------------------------------------------------------------------------------
# YARRRML
# ----------------------------------------------------------------------------------------------------

def y_template(tm):
    """YARRRML template syntax of an abstract template: references are `$(name)`; literal text is written as it is"""
    t = tm['tpl']
    return t['pre'] + ''.join('$(' + r + ')' + l for r, l in t['parts'])


def y_value(tm):
    if tm['kind'] == 'constant':
        if tm['value'] == 'DEFAULT':
            return RML + 'defaultGraph'
        return tm['value']
    if tm['kind'] == 'reference':
        return '$(' + tm['value'] + ')'
    return y_template(tm)


def yarrrml_expressible(doc):
    """what YARRRML (as documented) can say: see the check's RULE; returns a reason or None"""
    import corecases as cc
    for pos, tm, _ in cc.all_termmaps(doc):
        if pos in ('graph', 'predicate') and tm['kind'] == 'constant' and tm['value'] != 'DEFAULT' and not re.match(r'^(http|ftp)', tm['value']):
            return 'non-http constant IRI'
    return None


def y_obj(om, sp):
    """object in long form {value, type|language|datatype}"""
    v = y_value(om)
    tt = om.get('termtype') or default_termtype('object', om)
    d = {'value': v}
    if om.get('lang'):
        d['language'] = om['lang']
    elif om.get('datatype'):
        d['datatype'] = om['datatype']
    else:
        d['type'] = {'iri': 'iri', 'literal': 'literal', 'bnode': 'blanknode'}[tt]
    return d


def y_default_type(om):
    """the term type morph-kgc's YARRRML reader and the YARRRML documentation agree on when nothing is said: a reference is a
    literal, an http(s)/ftp constant an IRI, any other constant a literal (a template gets an explicit type in every spelling)"""
    if om['kind'] == 'reference':
        return 'literal'
    if om['kind'] == 'constant':
        return 'iri' if re.match(r'^(http|ftp)', om['value']) else 'literal'
    return None


def y_obj_short(om, sp):
    """short forms: 'value', 'value~type', or the pair ['value', 'xx~lang' | datatype]; None when only the long form can say it"""
    v = y_value(om)
    tt = om.get('termtype') or default_termtype('object', om)
    if om.get('lang'):
        return [v, om['lang'] + '~lang']
    if om.get('datatype'):
        return [v, om['datatype']]
    if sp['termtypes'] == 'implicit' and y_default_type(om) == tt:
        return v
    if '~' in v:
        return None
    return v + '~' + {'iri': 'iri', 'literal': 'literal', 'bnode': 'blanknode'}[tt]


def pom_shorts(pom, sp):
    """the objects of a predicate-object map in short form, when the whole entry can be written as a list `[p, o(, lang|datatype)]`"""
    if not sp['shortcut'] or pom['graphs'] or any(o.get('parent') for o in pom['objects']):
        return None
    shorts = [y_obj_short(o, sp) for o in pom['objects']]
    if None in shorts:
        return None
    if all(isinstance(x, str) for x in shorts) or len(shorts) == 1 or all(isinstance(x, list) for x in shorts):
        return shorts
    return None


def to_yarrrml(doc, sp, source_kind='csv', meaning=None):
    """the document as a YARRRML structure (dict), dumped as JSON-compatible YAML (flow style) by `yarrrml_text`.
    `shortcut` selects the abbreviated keys (s, po, p, o, g), the list forms `[p, o]`, `[p, o, lang~lang]`, `[[p1, p2], [o1, o2]]`,
    the `~iri/~literal/~blanknode` suffixes, `a` for rdf:type and the `[file~csv]` source; otherwise everything is written in the
    long dictionary form."""
    tms = refactor(doc, dict(sp, class_pom=True))     # YARRRML has no rr:class: classes are `[a, <class>]`
    ids = [t['id'] for t in tms]
    short = sp['shortcut']
    mappings = {}
    for tm in tms:
        m = {}
        if source_kind == 'csv':
            m['sources'] = [[tm['source'] + '~csv']] if short else [{'access': tm['source'], 'referenceFormulation': 'csv'}]
        else:
            kind, text = tm['ls']
            m['sources'] = [{'table' if kind == 'table' else 'query': text, 'referenceFormulation': 'sql2008'}]
        sm = tm['subject']
        stt = sm.get('termtype') or 'iri'
        sv = y_value(sm)
        if short and '~' not in sv:
            m['subjects'] = sv + ('~blanknode' if stt == 'bnode' else ('~iri' if sp['termtypes'] == 'explicit' else ''))
        elif stt == 'bnode' or sp['termtypes'] == 'explicit':
            m['subjects'] = {'value': sv, 'type': 'blanknode' if stt == 'bnode' else 'iri'}
        else:
            m['subjects'] = sv
        if tm['sgraphs']:
            gs = [y_value(g) for g in tm['sgraphs']]
            m['graphs'] = gs if len(gs) > 1 or not short else gs[0]
        pos = []
        for pom in tm['poms']:
            ps = [('a' if (p['kind'] == 'constant' and p['value'] == RDF_TYPE and short) else y_value(p)) for p in pom['predicates']]
            gs = [y_value(g) for g in pom['graphs']]
            shorts = pom_shorts(pom, sp)
            if shorts is not None:
                P = ps if len(ps) > 1 else ps[0]
                if all(isinstance(x, str) for x in shorts):
                    pos.append([P, shorts if len(shorts) > 1 else shorts[0]])
                elif len(shorts) == 1:
                    pos.append([P, shorts[0][0], shorts[0][1]])
                else:
                    pos.append([P, shorts])
                continue
            os_ = []
            for om in pom['objects']:
                if om.get('parent'):
                    o = {'mapping': 'm' + str(ids.index(om['parent']))}
                    if om.get('join'):
                        c, pa = om['join'][0]
                        o['condition'] = {'function': 'equal', 'parameters': [['str1', '$(' + c + ')', 's'], ['str2', '$(' + pa + ')', 'o']]}
                    os_.append(o)
                else:
                    os_.append(y_obj(om, sp))
            entry = {'predicates': ps if len(ps) > 1 or not short else ps[0], 'objects': os_ if len(os_) > 1 or not short else os_[0]}
            if gs:
                entry['graphs'] = gs if len(gs) > 1 or not short else gs[0]
            if short:
                entry = {{'predicates': 'p', 'objects': 'o', 'graphs': 'g'}[k]: v for k, v in entry.items()}
            pos.append(entry)
        if pos:
            m['po' if short else 'predicateobjects'] = pos
        if short:
            m = {{'subjects': 's', 'graphs': 'g'}.get(k, k): v for k, v in m.items()}
        mappings['m' + str(ids.index(tm['id']))] = m
        if meaning is not None:
            meaning.append(y_meaning(tm, sp, source_kind))
    return {'mappings': mappings}


def y_type_written(om, sp, short_form):
    """the type a YARRRML object carries in this spelling (None: nothing written) -- mirrors y_obj / y_obj_short"""
    tt = om.get('termtype') or default_termtype('object', om)
    if om.get('lang') or om.get('datatype'):
        return None
    if short_form and sp['termtypes'] == 'implicit' and y_default_type(om) == tt:
        return None
    return tt


def y_meaning(tm, sp, source_kind):
    """what the YARRRML rendering of one (refactored) triples map says, term by term: (YARRRML string, written type)"""
    sm = tm['subject']
    stt = sm.get('termtype') or 'iri'
    s_type = 'bnode' if stt == 'bnode' else ('iri' if sp['termtypes'] == 'explicit' else None)
    poms = []
    for pom in tm['poms']:
        objs = []
        short_form = pom_shorts(pom, sp) is not None
        for om in pom['objects']:
            if om.get('parent'):
                objs.append({'parent': om['parent'], 'join': [list(x) for x in om.get('join', [])[:1]]})
            else:
                objs.append({'y': y_value(om), 'type': y_type_written(om, sp, short_form), 'lang': om.get('lang'),
                             'datatype': None if om.get('lang') else om.get('datatype')})
        poms.append({'predicates': [y_value(p) for p in pom['predicates']], 'objects': objs, 'graphs': [y_value(g) for g in pom['graphs']]})
    return {'id': tm['id'], 'source': tm['source'] if source_kind == 'csv' else tm['ls'][1],
            'ls_type': 'source' if source_kind == 'csv' else ('tableName' if tm['ls'][0] == 'table' else 'query'),
            'subject': {'y': y_value(sm), 'type': s_type},
            'sgraphs': [y_value(g) for g in tm['sgraphs']], 'poms': poms}


def yarrrml_text(y):
    # JSON is a subset of YAML 1.2 flow style; ruamel (YAML 1.2) reads it; keys and strings stay quoted, so no YAML typing surprises
    return json.dumps(y, indent=1, ensure_ascii=False) + '\n'


# ----------------------------------------------------------------------------------------------------
# the surface document of the Lean model (`Model.SDoc`) that a spelling denotes
# ----------------------------------------------------------------------------------------------------

def sdoc_termmap(tm, position, sp):
    """mirror of add_termmap: which properties the spelled term map carries"""
    j = {'kind': tm['kind']}
    if tm['kind'] == 'constant':
        j['value'] = RML + 'defaultGraph' if tm['value'] == 'DEFAULT' else tm['value']
        j['is_lit'] = bool(tm.get('const_literal'))
    elif tm['kind'] == 'template':
        j['value'] = delim_tpl(tm, sp)
    else:
        j['value'] = delim_ref(tm['value'], sp)
    tt = tm.get('termtype') or default_termtype(position, tm)
    if tm['kind'] != 'constant' and (sp['termtypes'] == 'explicit' or tt != default_termtype(position, tm)):
        j['termtype'] = tt
    elif tm['kind'] == 'constant' and sp['termtypes'] == 'explicit' and position in ('subject', 'object'):
        j['termtype'] = 'literal' if tm.get('const_literal') else 'iri'
    if tm.get('lang'):
        j['lang'] = tm['lang']
    if tm.get('datatype'):
        j['datatype'] = tm['datatype']
    j['ld_expanded'] = bool(sp['langdt_expanded'])
    return j


def sdoc_slot(tm, position, sp):
    if sp['shortcut'] and can_shortcut(tm):
        return {'short': RML + 'defaultGraph' if tm['value'] == 'DEFAULT' else tm['value'], 'is_lit': bool(tm.get('const_literal'))}
    return sdoc_termmap(tm, position, sp)


def to_sdoc(doc, sp, source_kind='csv'):
    """the `Model.SDoc` (as JSON for the driver) that `to_triples(doc, sp)` spells"""
    tms = []
    for tm in refactor(doc, sp):
        sm = tm['subject']
        if sp['shortcut'] and can_shortcut(sm) and not tm['classes'] and not tm['sgraphs']:
            subj = {'short': sm['value'], 'is_lit': False}
        else:
            subj = sdoc_termmap(sm, 'subject', sp)
        poms = []
        for pom in tm['poms']:
            objs = []
            for om in pom['objects']:
                if om.get('parent'):
                    objs.append({'parent': om['parent'], 'join': [[delim_ref(c, sp), delim_ref(pa, sp)] for c, pa in om.get('join', [])]})
                else:
                    objs.append(sdoc_slot(om, 'object', sp))
            poms.append({'predicates': [sdoc_slot(p, 'predicate', sp) for p in pom['predicates']], 'objects': objs,
                         'graphs': [sdoc_slot(g, 'graph', sp) for g in pom['graphs']]})
        lsv = tm['source'] if source_kind == 'csv' else (delim_ref(tm['ls'][1], sp) if tm['ls'][0] == 'table' else tm['ls'][1])
        tms.append({'id': tm['id'], 'source': lsv, 'ls_type': 'source' if source_kind == 'csv' else ('tableName' if tm['ls'][0] == 'table' else 'query'),
                    'subject': subj, 'classes': tm['classes'],
                    'graphs': [sdoc_slot(g, 'graph', sp) for g in tm['sgraphs']], 'poms': poms})
    return {'needs_r2rml': sp['vocab'] in ('r2rml', 'legacy'), 'needs_legacy': sp['vocab'] == 'legacy', 'tms': tms}


def sdoc_from_yarrrml(meaning, y_add):
    """the `Model.SDoc` a YARRRML document denotes: every term string goes through `y_add` (the Lean model of `_add_template`, called
    through the driver); classes are already predicate-object maps; mapping-level graphs are added to every predicate-object map;
    the term type is written only where the YARRRML text carries one; language / datatype are the shortcut properties"""
    def term(ystr, typ=None, lang=None, dt=None):
        t = y_add(ystr)
        if 'reference' in t:
            j = {'kind': 'reference', 'value': t['reference']}
        elif 'template' in t:
            j = {'kind': 'template', 'value': t['template']}
        elif 'rdftype' in t:
            j = {'kind': 'constant', 'value': RDF_TYPE, 'is_lit': False}
        elif 'iri' in t:
            j = {'kind': 'constant', 'value': t['iri'], 'is_lit': False}
        else:
            j = {'kind': 'constant', 'value': t['literal'], 'is_lit': True}
        if typ:
            j['termtype'] = typ
        if lang:
            j['lang'] = lang
        if dt:
            j['datatype'] = dt
        return j
    tms = []
    for m in meaning:
        poms = []
        for pom in m['poms']:
            # lists of predicates / objects become independent mappings in `_normalize_yarrrml_mapping`
            for p in pom['predicates']:
                for o in pom['objects']:
                    obj = o if o.get('parent') else term(o['y'], o['type'], o['lang'], o['datatype'])
                    poms.append({'predicates': [term(p)], 'objects': [obj],
                                 'graphs': [term(g) for g in pom['graphs']] + [term(g) for g in m['sgraphs']]})
        tms.append({'id': m['id'], 'source': m['source'], 'ls_type': m['ls_type'], 'subject': term(m['subject']['y'], m['subject']['type']), 'classes': [],
                    'graphs': [], 'poms': poms})
    return {'needs_r2rml': False, 'needs_legacy': False, 'tms': tms}


# ----------------------------------------------------------------------------------------------------
# entry point
# ----------------------------------------------------------------------------------------------------

def render(doc, sp, source_kind='csv', meaning=None):
    """(text, extension) of the abstract document in the given spelling"""
    if sp['vocab'] == 'yarrrml':
        return yarrrml_text(to_yarrrml(doc, sp, source_kind, meaning)), sp['ext']
    return serialise(to_triples(doc, sp, source_kind), sp)
