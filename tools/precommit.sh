#!/bin/bash
# run before every commit of /verif: committed Gen/ must be what the translator produces on the clean /repo
cd "$(dirname "$0")/.."
test -z "$(git -C /repo status --porcelain)" || { echo "/repo has uncommitted changes"; exit 1; }
/venv/bin/python -B tools/extract.py --json /dev/null && python3 tools/mkroots.py && python3 tools/mkmanifest.py
