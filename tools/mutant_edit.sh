#!/bin/bash
# usage: tools/mutant_edit.sh '<python code editing files under the cwd (a scratch worktree of /repo)>' <Cxx> [tier]
set -u
VROOT="$(cd "$(dirname "$0")/.." && pwd)"
CODE="$1"; PROP="$2"; TIER="${3:-quick}"
WT=$(mktemp -d /tmp/mt_XXXXXX); rmdir "$WT"
git -C /repo worktree add -q "$WT" HEAD || exit 3
export VERIF_LEAN_DIR="${WT}_lean"; rsync -a "$VROOT"/lean/ "$VERIF_LEAN_DIR"/
( cd "$WT" && python3 -c "$CODE" ) || { echo "edit failed"; git -C /repo worktree remove --force "$WT"; exit 3; }
git -C "$WT" diff --stat | tail -1
( cd "$WT" && /venv/bin/python -c "import sys; sys.path.insert(0,'src'); import morph_kgc" ) || echo "MUTANT DOES NOT IMPORT"
VERIF_REPO="$WT" "$VROOT"/check "$PROP" "$TIER" 2>&1 | grep -v "^KNOWN-FINDING" | tail -3
rc=${PIPESTATUS[0]}
git -C /repo worktree remove --force "$WT"; rm -rf "$VERIF_LEAN_DIR"
exit $rc
