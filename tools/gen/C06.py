"""C06: the NULL-relevant facts of the source (materializer.py, utils.py, config.py, data_source/*.py) -> Gen/Null.lean

Generated (each from the AST of the working tree, never from a stored copy):
  * `preprocessSteps`: the statements of `_preprocess_data` after the ORACLE block, in order (is `map(str)` executed before
    or after the NA replacement?), and `preprocessKind`, their classification;
  * `removeNullsShape`: guard, whole-cell `replace(na_values, None)`, `dropna(axis=0, how='any', subset=references)`;
  * `defaultNaRaw`: DEFAULT_NA_VALUES, and the shape of `Config.get_na_values` (`list(set(<option>.split(','))))`;
  * `sqlShape`: the text pieces of `_build_sql_query` (SELECT list, FROM, one `IS NOT NULL` conjunct per reference, the two cuts);
  * `jsonFileShape` / `jsonMemShape`: projection, `None in values` filter, fill value of missing references, final dropna;
  * `xmlShape`, `csvShape`, `ramShape`.
Anything not recognised is a failure in summary['null'] (never guessed); the Lean file then carries the last recognised /
default value and `nullTranslated = false`.
"""
import ast
import os

from extract import HEADER, lean_str, write_if_changed


def _u(n):
    return ' '.join(ast.unparse(n).split())


def _is_name(n, name):
    return isinstance(n, ast.Name) and n.id == name


def _assign_to(st, name):
    return isinstance(st, ast.Assign) and len(st.targets) == 1 and _is_name(st.targets[0], name)


# ----------------------------------------------------------------------------------------------------
# _preprocess_data
# ----------------------------------------------------------------------------------------------------

KEEPNULL_LAMBDAS = {
    'lambda value: None if pd.api.types.is_scalar(value) and pd.isna(value) else str(value)',
    'lambda value: None if pd.isna(value) else str(value)',
    'lambda x: None if pd.api.types.is_scalar(x) and pd.isna(x) else str(x)',
    'lambda x: None if pd.isna(x) else str(x)',
}


def classify_pre_step(st):
    if not _assign_to(st, 'data'):
        return None
    v = st.value
    if not isinstance(v, ast.Call):
        return None
    if isinstance(v.func, ast.Attribute) and _is_name(v.func.value, 'data'):
        m = v.func.attr
        if m in ('map', 'applymap') and len(v.args) == 1 and not v.keywords:
            if _is_name(v.args[0], 'str'):
                return 'mapStr'
            if isinstance(v.args[0], ast.Lambda) and _u(v.args[0]) in KEEPNULL_LAMBDAS:
                return 'mapStrKeepNull'
            return None
        if m == 'convert_dtypes' and not v.args and _u(v) == 'data.convert_dtypes(convert_boolean=False)':
            return 'convertDtypes'
        if m == 'astype' and _u(v) == 'data.astype(str)':
            return 'astypeStr'
        if m == 'drop_duplicates' and _u(v) == 'data.drop_duplicates()':
            return 'dropDuplicates'
        return None
    if _is_name(v.func, 'remove_null_values_from_dataframe') and _u(v) == 'remove_null_values_from_dataframe(data, config, references)':
        return 'removeNulls'
    return None


def preprocess_steps(src, failures):
    try:
        fn = src.func('materializer.py', '_preprocess_data')
    except KeyError:
        failures.append('_preprocess_data not found')
        return []
    if [a.arg for a in fn.args.args] != ['data', 'rml_rule', 'references', 'config']:
        failures.append('_preprocess_data: unexpected parameters ' + _u(fn.args))
    body = list(fn.body)
    if body and isinstance(body[0], ast.Expr) and isinstance(body[0].value, ast.Constant):
        body = body[1:]
    steps = []
    for i, st in enumerate(body):
        if isinstance(st, ast.If) and "rml_rule['source_type'] == RDB" in _u(st.test) and i == 0:
            # ORACLE identifier casing: renames columns only
            if 'normalize_oracle_identifier_casing' not in _u(st):
                failures.append('_preprocess_data: unrecognised RDB block')
            continue
        if isinstance(st, ast.Return):
            if not _is_name(st.value, 'data') or i != len(body) - 1:
                failures.append('_preprocess_data: unexpected return ' + _u(st))
            continue
        k = classify_pre_step(st)
        if k is None:
            failures.append('_preprocess_data: unrecognised statement `' + _u(st)[:160] + '`')
        else:
            steps.append(k)
    return steps


PRE_KINDS = {
    ('mapStr', 'removeNulls', 'convertDtypes', 'astypeStr', 'dropDuplicates'): 'strThenNa',
    ('mapStrKeepNull', 'removeNulls', 'convertDtypes', 'astypeStr', 'dropDuplicates'): 'keepNullThenNa',
}


# ----------------------------------------------------------------------------------------------------
# remove_null_values_from_dataframe
# ----------------------------------------------------------------------------------------------------

def _dropna_subset(call, failures, where):
    """keywords of a `.dropna(...)` call -> (subset, how_any)"""
    kws = {k.arg: k.value for k in call.keywords}
    if call.args:
        failures.append(f'{where}: positional arguments in dropna')
    axis = kws.get('axis')
    how = kws.get('how')
    how_any = (axis is None or (isinstance(axis, ast.Constant) and axis.value in (0, 'index'))) and \
              (how is None or (isinstance(how, ast.Constant) and how.value == 'any'))
    if 'thresh' in kws:
        how_any = False
    sub = kws.get('subset')
    if sub is None:
        subset = 'allColumns'
    elif _is_name(sub, 'references') or _u(sub) == 'list(references)':
        subset = 'references'
    else:
        failures.append(f'{where}: unrecognised dropna subset `{_u(sub)}`')
        subset = 'allColumns'
    for k in kws:
        if k not in ('axis', 'how', 'subset', 'inplace', 'thresh'):
            failures.append(f'{where}: unexpected dropna keyword {k}')
    return subset, how_any


def remove_nulls_shape(src, failures):
    sh = {'guarded': False, 'match': 'wholeCell', 'byNone': False, 'subset': 'noDrop', 'howAny': False}
    try:
        fn = src.func('utils.py', 'remove_null_values_from_dataframe')
    except KeyError:
        failures.append('remove_null_values_from_dataframe not found')
        return sh
    body = [st for st in fn.body if not (isinstance(st, ast.Expr) and isinstance(st.value, ast.Constant))]
    if len(body) != 2 or not isinstance(body[0], ast.If) or not (isinstance(body[1], ast.Return) and _is_name(body[1].value, 'data')):
        failures.append('remove_null_values_from_dataframe: unrecognised body')
        return sh
    guard = body[0]
    if _u(guard.test) != 'config.get_na_values()' or guard.orelse:
        failures.append('remove_null_values_from_dataframe: unrecognised guard `' + _u(guard.test) + '`')
        return sh
    sh['guarded'] = True
    inner = guard.body
    if len(inner) != 2 or not isinstance(inner[0], ast.If) or _u(inner[0].test) != 'column':
        failures.append('remove_null_values_from_dataframe: expected `if column: … else: …` followed by dropna')
        return sh
    els = inner[0].orelse
    if len(els) != 1 or not _assign_to(els[0], 'data'):
        failures.append('remove_null_values_from_dataframe: unrecognised else branch')
        return sh
    rep = els[0].value
    if not (isinstance(rep, ast.Call) and isinstance(rep.func, ast.Attribute) and rep.func.attr == 'replace' and _is_name(rep.func.value, 'data')):
        failures.append('remove_null_values_from_dataframe: NA replacement is not `data.replace(…)`: `' + _u(rep)[:120] + '`')
        return sh
    kws = {k.arg: k.value for k in rep.keywords}
    args = list(rep.args)
    to_replace = args[0] if args else kws.get('to_replace')
    value = args[1] if len(args) > 1 else kws.get('value')
    if to_replace is None or _u(to_replace) != 'config.get_na_values()':
        failures.append('remove_null_values_from_dataframe: replaced values are not config.get_na_values()')
    sh['byNone'] = isinstance(value, ast.Constant) and value.value is None
    if not sh['byNone']:
        failures.append('remove_null_values_from_dataframe: replacement value is not None')
    rx = kws.get('regex')
    if rx is None or (isinstance(rx, ast.Constant) and rx.value is False):
        sh['match'] = 'wholeCell'
    else:
        sh['match'] = 'regex'
        failures.append('remove_null_values_from_dataframe: NA tokens are matched as regular expressions')
    for k in kws:
        if k not in ('to_replace', 'value', 'regex'):
            failures.append(f'remove_null_values_from_dataframe: unexpected replace keyword {k}')
    dr = inner[1]
    if not (_assign_to(dr, 'data') and isinstance(dr.value, ast.Call) and isinstance(dr.value.func, ast.Attribute)
            and dr.value.func.attr == 'dropna' and _is_name(dr.value.func.value, 'data')):
        failures.append('remove_null_values_from_dataframe: second statement is not `data = data.dropna(…)`')
        return sh
    sh['subset'], sh['howAny'] = _dropna_subset(dr.value, failures, 'remove_null_values_from_dataframe')
    if sh['subset'] != 'references':
        failures.append('remove_null_values_from_dataframe: dropna is not restricted to the references')
    if not sh['howAny']:
        failures.append('remove_null_values_from_dataframe: dropna is not axis=0, how=any')
    return sh


# ----------------------------------------------------------------------------------------------------
# config: DEFAULT_NA_VALUES, get_na_values
# ----------------------------------------------------------------------------------------------------

def na_config(src, failures):
    raw = None
    for n in src.tree('config.py').body:
        if _assign_to(n, 'DEFAULT_NA_VALUES'):
            if isinstance(n.value, ast.Constant) and isinstance(n.value.value, str):
                raw = n.value.value
            else:
                failures.append('DEFAULT_NA_VALUES is not a string literal')
    if raw is None:
        failures.append('DEFAULT_NA_VALUES not found')
        raw = ''
    try:
        fn = src.func('config.py', 'get_na_values', cls='Config')
        body = [st for st in fn.body if not (isinstance(st, ast.Expr) and isinstance(st.value, ast.Constant))]
        if len(body) != 1 or _u(body[0]) != "return list(set(self.get(self.configuration_section, NA_VALUES).split(',')))":
            failures.append('Config.get_na_values: unrecognised body `' + ' ; '.join(_u(b) for b in body)[:200] + '`')
    except KeyError:
        failures.append('Config.get_na_values not found')
    # the default is installed for the option
    txt = src.text('config.py')
    if 'NA_VALUES: DEFAULT_NA_VALUES' not in ' '.join(txt.split()):
        failures.append('config.py: NA_VALUES default is not DEFAULT_NA_VALUES')
    return raw


# ----------------------------------------------------------------------------------------------------
# _build_sql_query
# ----------------------------------------------------------------------------------------------------

def _fstring_parts(js):
    """JoinedStr -> list of ('lit', str) | ('expr', node)"""
    out = []
    for v in js.values:
        if isinstance(v, ast.Constant):
            out.append(('lit', v.value))
        elif isinstance(v, ast.FormattedValue) and v.conversion == -1 and v.format_spec is None:
            out.append(('expr', v.value))
        else:
            return None
    return out


def _replace_call(n, base_src):
    """`<base>.replace('a', 'b')` -> (a, b)"""
    if isinstance(n, ast.Call) and isinstance(n.func, ast.Attribute) and n.func.attr == 'replace' and _u(n.func.value) == base_src \
            and len(n.args) == 2 and not n.keywords and all(isinstance(a, ast.Constant) and isinstance(a.value, str) for a in n.args):
        return n.args[0].value, n.args[1].value
    return None


def _item(js, first_src, base_src):
    """f'{<first>}<pre>{<base>.replace(a, b)}<suf>' -> dict"""
    parts = _fstring_parts(js) if isinstance(js, ast.JoinedStr) else None
    if not parts or len(parts) < 2 or parts[0][0] != 'expr':
        return None, None
    first = parts[0][1]
    rest = parts[1:]
    pre = ''
    if rest and rest[0][0] == 'lit':
        pre = rest[0][1]
        rest = rest[1:]
    if not rest or rest[0][0] != 'expr':
        return None, None
    rp = _replace_call(rest[0][1], base_src)
    if rp is None:
        return None, None
    rest = rest[1:]
    suf = ''
    if rest and rest[0][0] == 'lit':
        suf = rest[0][1]
        rest = rest[1:]
    if rest:
        return None, None
    return first, {'pre': pre, 'old': rp[0], 'new': rp[1], 'suf': suf}


def _neg_cut(n, base='query'):
    """`query[:-k]` -> k"""
    if isinstance(n, ast.Subscript) and _is_name(n.value, base) and isinstance(n.slice, ast.Slice) and n.slice.lower is None \
            and n.slice.step is None and isinstance(n.slice.upper, ast.UnaryOp) and isinstance(n.slice.upper.op, ast.USub) \
            and isinstance(n.slice.upper.operand, ast.Constant) and isinstance(n.slice.upper.operand.value, int):
        return n.slice.upper.operand.value
    return None


def _loop_item(st):
    if not (isinstance(st, ast.For) and _is_name(st.target, 'reference') and _is_name(st.iter, 'references') and not st.orelse
            and len(st.body) == 1 and _assign_to(st.body[0], 'query')):
        return None
    first, it = _item(st.body[0].value, 'query', 'reference')
    if it is None or not _is_name(first, 'query'):
        return None
    return it


EMPTY_ITEM = {'pre': '', 'old': '.', 'new': '.', 'suf': ''}


def sql_shape(src, failures):
    sh = {'head': '', 'sel': dict(EMPTY_ITEM), 'cut1': 0, 'from': dict(EMPTY_ITEM), 'where': dict(EMPTY_ITEM), 'cut2': 0,
          'passthrough': False, 'needsRefs': False}
    try:
        fn = src.func('data_source/relational_db.py', '_build_sql_query')
    except KeyError:
        failures.append('_build_sql_query not found')
        return sh
    body = [st for st in fn.body if not (isinstance(st, ast.Expr) and isinstance(st.value, ast.Constant))]
    if [a.arg for a in fn.args.args] != ['rml_rule', 'references']:
        failures.append('_build_sql_query: unexpected parameters')
    if len(body) != 2 or not isinstance(body[0], ast.If) or _u(body[1]) != 'return query':
        failures.append('_build_sql_query: unrecognised body')
        return sh
    top = body[0]
    if _u(top.test) == "rml_rule['logical_source_type'] == RML_QUERY" and len(top.body) == 1 \
            and _u(top.body[0]) == "query = rml_rule['logical_source_value']":
        sh['passthrough'] = True
    else:
        failures.append('_build_sql_query: the query branch does not pass rml_rule[logical_source_value] through')
    if len(top.orelse) != 1 or not isinstance(top.orelse[0], ast.If):
        failures.append('_build_sql_query: no table branch')
        return sh
    tb = top.orelse[0]
    t = _u(tb.test)
    if t == "rml_rule['logical_source_type'] == RML_TABLE_NAME and len(references) > 0":
        sh['needsRefs'] = True
    else:
        failures.append('_build_sql_query: unrecognised table-branch test `' + t + '`')
    if len(tb.orelse) != 1 or _u(tb.orelse[0]) != 'query = None':
        failures.append('_build_sql_query: the else branch is not `query = None`')
    st = tb.body
    if len(st) != 5:
        failures.append(f'_build_sql_query: the table branch has {len(st)} statements, expected 5 '
                        '(head, SELECT loop, FROM, IS NOT NULL loop, cut)')
        return sh
    if _assign_to(st[0], 'query') and isinstance(st[0].value, ast.Constant) and isinstance(st[0].value.value, str):
        sh['head'] = st[0].value.value
    else:
        failures.append('_build_sql_query: first statement is not `query = <literal>`')
    it = _loop_item(st[1])
    if it is None:
        failures.append('_build_sql_query: unrecognised SELECT loop')
    else:
        sh['sel'] = it
    ok = False
    if _assign_to(st[2], 'query'):
        first, it = _item(st[2].value, None, "rml_rule['logical_source_value']")
        if it is not None and _neg_cut(first) is not None:
            sh['from'] = it
            sh['cut1'] = _neg_cut(first)
            ok = True
    if not ok:
        failures.append('_build_sql_query: unrecognised FROM statement')
    it = _loop_item(st[3])
    if it is None:
        failures.append('_build_sql_query: unrecognised WHERE loop')
    else:
        sh['where'] = it
    if _assign_to(st[4], 'query') and _neg_cut(st[4].value) is not None:
        sh['cut2'] = _neg_cut(st[4].value)
    else:
        failures.append('_build_sql_query: last statement is not `query = query[:-k]`')
    return sh


# ----------------------------------------------------------------------------------------------------
# readers
# ----------------------------------------------------------------------------------------------------

def _stmts(fn):
    return [st for st in ast.walk(fn) if isinstance(st, ast.stmt)]


def json_shape(src, rel, name, df, failures):
    sh = {'projection': 'topLevelKey', 'noneFilter': False, 'fill': 'pyNone', 'subset': 'noDrop'}
    try:
        fn = src.func(rel, name)
    except KeyError:
        failures.append(f'{name} not found')
        return sh
    text = [_u(st) for st in fn.body]
    # projection
    proj = [st for st in _stmts(fn) if isinstance(st, ast.AugAssign) and _is_name(st.target, 'jsonpath_expression')
            and isinstance(st.op, ast.Add)]
    pj = [_u(p.value) for p in proj]
    if pj == ["reference.split('.')[0] + ','"]:
        sh['projection'] = 'topLevelKey'
    elif pj == ["reference + ','"]:
        sh['projection'] = 'fullReference'
    else:
        failures.append(f'{name}: unrecognised JSONPath projection {pj}')
    if "jsonpath_expression = rml_rule['iterator'] + '.('" not in text or "jsonpath_expression = jsonpath_expression[:-1] + ')'" not in text:
        failures.append(f'{name}: unrecognised JSONPath expression frame')
    # normalisation + None filter
    norm = [st for st in fn.body if _assign_to(st, df)]
    flt = None
    for st in norm:
        u = _u(st.value)
        if u == 'pd.json_normalize([json_object for json_object in normalize_hierarchical_data(jsonpath_result) if None not in json_object.values()])':
            flt = True
        elif u == 'pd.json_normalize([json_object for json_object in normalize_hierarchical_data(jsonpath_result)])' \
                or u == 'pd.json_normalize(list(normalize_hierarchical_data(jsonpath_result)))':
            flt = False
    if flt is None:
        failures.append(f'{name}: unrecognised json_normalize statement')
    else:
        sh['noneFilter'] = flt
    # missing references
    if f'missing_references_in_df = list(set(references).difference(set({df}.columns)))' not in text:
        failures.append(f'{name}: unrecognised computation of the missing references')
    if f'{df}[missing_references_in_df] = None' in text:
        sh['fill'] = 'pyNone'
    elif f'{df}[missing_references_in_df] = np.nan' in text:
        sh['fill'] = 'npNan'
    else:
        failures.append(f'{name}: unrecognised fill of the missing references')
    # dropna
    drops = [st for st in _stmts(fn) if isinstance(st, (ast.Expr, ast.Assign, ast.AugAssign, ast.Return)) and 'dropna' in _u(st)]
    if not drops:
        sh['subset'] = 'noDrop'
    elif len(drops) == 1:
        d = drops[0]
        call = d.value if isinstance(d, (ast.Expr, ast.Assign)) else None
        if isinstance(call, ast.Call) and isinstance(call.func, ast.Attribute) and call.func.attr == 'dropna' and _is_name(call.func.value, df):
            inplace = any(k.arg == 'inplace' and isinstance(k.value, ast.Constant) and k.value.value is True for k in call.keywords)
            if isinstance(d, ast.Expr) != inplace or (isinstance(d, ast.Assign) and not _assign_to(d, df)):
                failures.append(f'{name}: the result of dropna is discarded')
            sub, how_any = _dropna_subset(call, failures, name)
            sh['subset'] = sub
            if not how_any:
                failures.append(f'{name}: dropna is not axis=0, how=any')
            if d not in fn.body or fn.body.index(d) < max([i for i, t in enumerate(text) if 'missing_references_in_df]' in t] or [0]):
                failures.append(f'{name}: dropna precedes the fill of the missing references')
        else:
            failures.append(f'{name}: unrecognised dropna statement `{_u(d)}`')
    else:
        failures.append(f'{name}: more than one dropna')
    if not isinstance(fn.body[-1], ast.Return) or not _is_name(fn.body[-1].value, df):
        failures.append(f'{name}: does not return {df}')
    return sh


XML_LOOP = (
    "for e in xpath_result: data_record = [] for reference in references: data_value = [] reference = reference.replace('/@', '@') "
    "if reference.startswith('@'): element = None attribute = reference elif '@' in reference: element = reference.split('@')[0] "
    "attribute = reference.split('@')[1] else: element = reference attribute = None if element: "
    "for r in e.findall(element, namespaces=namespaces): if attribute: data_value.append(r.get(attribute)) else: data_value.append(r.text) "
    "else: attribute = attribute[1:] data_value.append(%s) data_record.append(data_value) data_records.append(data_record)")


def xml_shape(src, failures):
    sh = {'selfAttr': 'subscript', 'childGetAndText': False, 'fill': 'pyNone', 'subset': 'noDrop', 'dropBeforeExplode': True}
    try:
        fn = src.func('data_source/data_file.py', '_read_xml')
    except KeyError:
        failures.append('_read_xml not found')
        return sh
    text = [_u(st) for st in fn.body]
    loops = [t for t in text if t.startswith('for e in xpath_result:')]
    if loops == [XML_LOOP % 'e.attrib[attribute]']:
        sh['selfAttr'], sh['childGetAndText'] = 'subscript', True
    elif loops == [XML_LOOP % 'e.get(attribute)']:
        sh['selfAttr'], sh['childGetAndText'] = 'get', True
    else:
        failures.append('_read_xml: unrecognised record loop')
    if 'xml_df = pd.DataFrame.from_records(data_records, columns=references)' not in text:
        failures.append('_read_xml: unrecognised frame construction')
    if 'xml_df[missing_references_in_df] = None' in text:
        sh['fill'] = 'pyNone'
    elif 'xml_df[missing_references_in_df] = np.nan' in text:
        sh['fill'] = 'npNan'
    else:
        failures.append('_read_xml: unrecognised fill of the missing references')
    ex = [i for i, t in enumerate(text) if t == 'for reference in references: xml_df = xml_df.explode(reference)']
    if len(ex) != 1:
        failures.append('_read_xml: unrecognised explode loop')
    drops = [(i, st) for i, st in enumerate(fn.body) if 'dropna' in _u(st)]
    if not drops:
        sh['subset'] = 'noDrop'
    elif len(drops) == 1:
        i, d = drops[0]
        call = d.value if isinstance(d, (ast.Expr, ast.Assign)) else None
        if isinstance(call, ast.Call) and isinstance(call.func, ast.Attribute) and call.func.attr == 'dropna' and _is_name(call.func.value, 'xml_df'):
            inplace = any(k.arg == 'inplace' and isinstance(k.value, ast.Constant) and k.value.value is True for k in call.keywords)
            if isinstance(d, ast.Expr) != inplace or (isinstance(d, ast.Assign) and not _assign_to(d, 'xml_df')):
                failures.append('_read_xml: the result of dropna is discarded')
            sub, how_any = _dropna_subset(call, failures, '_read_xml')
            sh['subset'] = sub
            if not how_any:
                failures.append('_read_xml: dropna is not axis=0, how=any')
            sh['dropBeforeExplode'] = bool(ex) and i < ex[0]
        else:
            failures.append(f'_read_xml: unrecognised dropna statement `{_u(d)}`')
    else:
        failures.append('_read_xml: more than one dropna')
    if _u(fn.body[-1]) != 'return xml_df':
        failures.append('_read_xml: does not return xml_df')
    return sh


def csv_shape(src, failures):
    sh = {'dtypeStr': False, 'keepDefaultNa': True, 'naFilter': True}
    try:
        fn = src.func('data_source/data_file.py', '_read_csv')
    except KeyError:
        failures.append('_read_csv not found')
        return sh
    calls = [n for n in ast.walk(fn) if isinstance(n, ast.Call) and _u(n.func) in ('pd.read_table', 'pd.read_csv')]
    if not calls:
        failures.append('_read_csv: no pd.read_table call')
        return sh
    vals = []
    for c in calls:
        kws = {k.arg: k.value for k in c.keywords}
        d = kws.get('dtype')
        kd = kws.get('keep_default_na')
        nf = kws.get('na_filter')
        if 'na_values' in kws:
            failures.append('_read_csv: explicit na_values')
        vals.append((d is not None and _is_name(d, 'str'),
                     not (isinstance(kd, ast.Constant) and kd.value is False),
                     not (isinstance(nf, ast.Constant) and nf.value is False)))
    if len(set(vals)) != 1:
        failures.append('_read_csv: the read_table calls disagree on dtype / keep_default_na / na_filter')
    # the weakest of the calls
    sh['dtypeStr'] = all(v[0] for v in vals)
    sh['keepDefaultNa'] = any(v[1] for v in vals)
    sh['naFilter'] = any(v[2] for v in vals)
    return sh


def ram_shape(src, failures):
    sh = {'frameProjects': False, 'listViaDataFrame': False, 'dictViaJson': False}
    try:
        fn = src.func('data_source/python_data.py', 'get_ram_data')
    except KeyError:
        failures.append('get_ram_data not found')
        return sh
    ifs = [st for st in fn.body if isinstance(st, ast.If)]
    if len(ifs) != 1:
        failures.append('get_ram_data: unrecognised body')
        return sh
    branches = []
    cur = ifs[0]
    while True:
        branches.append((_u(cur.test), cur.body))
        if len(cur.orelse) == 1 and isinstance(cur.orelse[0], ast.If):
            cur = cur.orelse[0]
        else:
            break
    by = {t: b for t, b in branches}
    b = by.get('isinstance(source_value, pd.DataFrame)')
    if b is not None and _u(b[-1]) == 'return source_value[references]':
        sh['frameProjects'] = True
    else:
        failures.append('get_ram_data: the DataFrame branch does not return source_value[references]')
    bl, bt = by.get('isinstance(source_value, list)'), by.get('isinstance(source_value, tuple)')
    if bl is not None and bt is not None and [_u(s) for s in bl] == ['return pd.DataFrame(source_value, columns=references)'] \
            and [_u(s) for s in bt] == ['return pd.DataFrame(list(source_value), columns=references)']:
        sh['listViaDataFrame'] = True
    else:
        failures.append('get_ram_data: unrecognised list / tuple branches')
    bd, bj = by.get('isinstance(source_value, dict)'), by.get('_check_if_json(source_value)')
    if bd is not None and bj is not None and [_u(s) for s in bd] == ['return _read_inmemory_json(json.dumps(source_value), rml_rule, references)'] \
            and [_u(s) for s in bj] == ['return _read_inmemory_json(source_value, rml_rule, references)']:
        sh['dictViaJson'] = True
    else:
        failures.append('get_ram_data: unrecognised dict / JSON-text branches')
    return sh


# ----------------------------------------------------------------------------------------------------
# rendering
# ----------------------------------------------------------------------------------------------------

def _b(x):
    return 'true' if x else 'false'


def _item_lean(it):
    return f'⟨{lean_str(it["pre"])}, {lean_str(it["old"])}, {lean_str(it["new"])}, {lean_str(it["suf"])}⟩'


def generate(src, env, out, summary):
    failures = []
    steps = preprocess_steps(src, failures)
    kind = PRE_KINDS.get(tuple(steps))
    if kind is None:
        failures.append('_preprocess_data: statement order not covered by the model: ' + ', '.join(steps))
    rn = remove_nulls_shape(src, failures)
    raw = na_config(src, failures)
    sq = sql_shape(src, failures)
    jf = json_shape(src, 'data_source/data_file.py', '_read_json', 'json_df', failures)
    jm = json_shape(src, 'data_source/python_data.py', '_read_inmemory_json', 'json_df', failures)
    xs = xml_shape(src, failures)
    cs = csv_shape(src, failures)
    rs = ram_shape(src, failures)

    def jshape(j):
        return f'{{ projection := .{j["projection"]}, noneFilter := {_b(j["noneFilter"])}, missingFill := .{j["fill"]}, dropSubset := .{j["subset"]} }}'

    lines = [HEADER, 'import MorphKgc.Model.NullTypes', '', 'namespace Gen', 'open Py Model', '',
             '/-- the statements of `materializer._preprocess_data` after the ORACLE block, in source order -/',
             'def preprocessSteps : List PreStep := [' + ', '.join('.' + s for s in steps) + ']', '',
             '/-- their classification by the translator (`Model.preKindOf` recomputes it in Lean) -/',
             f'def preprocessKind : PreKind := .{kind or "strThenNa"}', '',
             '/-- `utils.remove_null_values_from_dataframe` -/',
             'def removeNullsShape : RemoveNullsShape :=',
             f'  {{ guardedByNaValues := {_b(rn["guarded"])}, naMatch := .{rn["match"]}, replaceByNone := {_b(rn["byNone"])}, '
             f'dropSubset := .{rn["subset"]}, howAny := {_b(rn["howAny"])} }}', '',
             '/-- `config.DEFAULT_NA_VALUES`; `Config.get_na_values` is `list(set(<value>.split(\',\')))` -/',
             f'def defaultNaRaw : Str := {lean_str(raw)}', '',
             '/-- `relational_db._build_sql_query` -/',
             'def sqlShape : SqlShape :=',
             f'  {{ head := {lean_str(sq["head"])}, selItem := {_item_lean(sq["sel"])}, cut1 := {sq["cut1"]},',
             f'    fromItem := {_item_lean(sq["from"])}, whereItem := {_item_lean(sq["where"])}, cut2 := {sq["cut2"]},',
             f'    queryPassThrough := {_b(sq["passthrough"])}, tableNeedsRefs := {_b(sq["needsRefs"])} }}', '',
             '/-- `data_file._read_json` -/',
             'def jsonFileShape : JsonShape := ' + jshape(jf), '',
             '/-- `python_data._read_inmemory_json` -/',
             'def jsonMemShape : JsonShape := ' + jshape(jm), '',
             '/-- `data_file._read_xml` -/',
             'def xmlShape : XmlShape :=',
             f'  {{ selfAttr := .{xs["selfAttr"]}, childGetAndText := {_b(xs["childGetAndText"])}, missingFill := .{xs["fill"]}, '
             f'dropSubset := .{xs["subset"]}, dropBeforeExplode := {_b(xs["dropBeforeExplode"])} }}', '',
             '/-- `data_file._read_csv` -/',
             f'def csvShape : CsvShape := {{ dtypeStr := {_b(cs["dtypeStr"])}, keepDefaultNa := {_b(cs["keepDefaultNa"])}, naFilter := {_b(cs["naFilter"])} }}', '',
             '/-- `python_data.get_ram_data` -/',
             f'def ramShape : RamShape := {{ frameProjects := {_b(rs["frameProjects"])}, listViaDataFrame := {_b(rs["listViaDataFrame"])}, '
             f'dictViaJson := {_b(rs["dictViaJson"])} }}', '',
             f'def nullTranslated : Bool := {_b(not failures)}', '',
             'end Gen', '']
    write_if_changed(os.path.join(out, 'Null.lean'), '\n'.join(lines))
    summary['null'] = {'steps': steps, 'kind': kind, 'remove_nulls': rn, 'default_na_raw': raw, 'sql': sq, 'json_file': jf,
                       'json_mem': jm, 'xml': xs, 'csv': cs, 'ram': rs, 'failures': failures}
