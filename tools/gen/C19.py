"""C19: configuration tables, validation/defaulting/loader shapes (config.py, constants.py, args_parser.py) -> Gen/Config.lean"""
import ast
import importlib
import os
import re

from extract import HEADER, lean_str, write_if_changed

CFG = 'config.py'
ARGS = 'args_parser.py'


def _norm(node_or_nodes):
    if isinstance(node_or_nodes, list):
        txt = '\n'.join(ast.unparse(n) for n in node_or_nodes)
    else:
        txt = ast.unparse(node_or_nodes)
    return ' '.join(txt.split())


def _body_wo_doc(fn):
    b = fn.body
    if b and isinstance(b[0], ast.Expr) and isinstance(getattr(b[0], 'value', None), ast.Constant) and isinstance(b[0].value.value, str):
        b = b[1:]
    return b


IS_PROVIDED_SHAPE = (
    "def _is_option_provided(config, option, empty_value_is_valid=False): "
    "if not config.has_configuration_option(option): return False "
    "elif config.get_configuration_option(option) == '' and empty_value_is_valid is False: return False "
    "return True")

OUTPUT_PATH_SHAPE = (
    "file_extension = OUTPUT_FORMAT_FILE_EXTENSION[self.get_output_format()] "
    "if self.get_output_dir(): file_name = mapping_group "
    "file_path = Path(self.get_output_dir(), file_name).with_suffix(file_extension) "
    "elif self.get_output_file(): file_name = self.get_output_file() "
    "file_path = Path(file_name).with_suffix(file_extension) "
    "else: file_name = @@ "
    "file_path = Path(file_name).with_suffix(file_extension) "
    "return file_path.as_posix()")

MAPPINGS_FILES_SHAPE = (
    "mapping_file_paths = [] "
    "for mapping_path in self.get(source_section, MAPPINGS).split(@@): "
    "if os.path.isfile(mapping_path): mapping_file_paths.append(mapping_path) "
    "elif os.path.isdir(mapping_path): "
    "for mapping_file_name in os.listdir(mapping_path): "
    "mapping_file = os.path.join(mapping_path, mapping_file_name) "
    "if os.path.isfile(mapping_file): mapping_file_paths.append(mapping_file) "
    "elif mapping_path.startswith('http'): mapping_file_paths.append(mapping_path) "
    "else: raise FileNotFoundError(errno.ENOENT, os.strerror(errno.ENOENT), mapping_path) "
    "return mapping_file_paths")

REQUIRED_GETTERS = {
    'get_output_format': 'get', 'get_logging_level': 'get', 'get_mapping_partitioning': 'get', 'get_output_dir': 'get',
    'get_output_file': 'get', 'get_safe_percent_encoding': 'get', 'get_logging_file': 'get', 'get_udfs': 'get',
    'get_number_of_processes': 'getint', 'only_write_printable_characters': 'getboolean',
    'infer_sql_datatypes': 'getboolean', 'get_na_values': 'naList',
}


def _match_with_hole(shape, text):
    """`shape` contains one `@@` hole; returns the text in the hole or None"""
    pre, post = shape.split('@@')
    if text.startswith(pre) and text.endswith(post) and len(text) >= len(pre) + len(post):
        return text[len(pre):len(text) - len(post)]
    return None


def generate(src, env, out, summary):
    failures = []
    tree = src.tree(CFG)
    try:
        cm = importlib.import_module('morph_kgc.config')
        cvals = {k: v for k, v in vars(cm).items() if not k.startswith('__')}
    except Exception as e:  # package does not import
        cvals = dict(env)
        failures.append(f'morph_kgc.config does not import: {e!r}')

    # ---- module-level assignments of config.py --------------------------------------------------------
    assigns = {}
    order = []
    for n in tree.body:
        if isinstance(n, ast.Assign) and len(n.targets) == 1 and isinstance(n.targets[0], ast.Name):
            assigns[n.targets[0].id] = n.value
            order.append(n.targets[0].id)
    optconsts = [(k, assigns[k].value) for k in order
                 if isinstance(assigns[k], ast.Constant) and isinstance(assigns[k].value, str)
                 and not k.startswith('DEFAULT_') and not k.startswith('__')]
    optnames = {k for k, _ in optconsts}

    def default_val(node, what):
        """Lean `DefaultVal` term of the expression `node` used as a default"""
        expr = node
        seen = 0
        while isinstance(expr, ast.Name) and expr.id in assigns and seen < 5:
            name = expr.id
            expr = assigns[expr.id]
            seen += 1
        if any(isinstance(x, ast.Attribute) and x.attr == 'cpu_count' for x in ast.walk(expr)):
            if _norm(expr) == '2 * mp.cpu_count()':
                return '.twiceCpu', 'twiceCpu'
            failures.append(f'{what}: default depends on cpu_count in an unrecognised way: {_norm(expr)}')
            return '.twiceCpu', 'twiceCpu'
        try:
            if isinstance(node, ast.Name):
                v = cvals[node.id]
            else:
                v = ast.literal_eval(node)
        except Exception:
            failures.append(f'{what}: unresolvable default {_norm(node)}')
            return '.lit ([] : List Char)', ''
        return f'.lit ({lean_str(str(v))})', str(v)

    def table(name):
        node = assigns.get(name)
        if not isinstance(node, ast.Dict):
            failures.append(f'{name} is not a dict literal')
            return []
        rows, pos = [], {}
        for k, v in zip(node.keys, node.values):
            if not (isinstance(k, ast.Name) and k.id in optnames):
                failures.append(f'{name}: key {_norm(k) if k is not None else "**"} is not an option-name constant')
                continue
            lean, val = default_val(v, f'{name}[{k.id}]')
            if k.id in pos:
                rows[pos[k.id]] = (k.id, lean, val)
            else:
                pos[k.id] = len(rows)
                rows.append((k.id, lean, val))
        return rows

    tables = {n: table(n) for n in ('CONFIGURATION_OPTIONS_EMPTY_VALID', 'CONFIGURATION_OPTIONS_EMPTY_NON_VALID')}

    # ---- _is_option_provided ----------------------------------------------------------------------------
    try:
        fn = src.func(CFG, '_is_option_provided')
        got = 'def _is_option_provided(' + ast.unparse(fn.args) + '): ' + _norm(_body_wo_doc(fn))
        if got != IS_PROVIDED_SHAPE:
            failures.append('unrecognised shape of _is_option_provided: ' + got[:300])
    except KeyError as e:
        failures.append(f'function not found: {e}')

    # ---- complete_configuration_with_defaults -------------------------------------------------------------
    steps = []
    try:
        fn = src.func(CFG, 'complete_configuration_with_defaults', 'Config')
        for st in _body_wo_doc(fn):
            t = _norm(st)
            if t == 'if not self.has_section(self.configuration_section): self.add_section(self.configuration_section)':
                continue
            m = re.fullmatch(
                r"for (\w+), (\w+) in (\w+)\.items\(\): if not _is_option_provided\(self, \1(, empty_value_is_valid=(True|False))?\): "
                r"self\.set\(self\.configuration_section, \1, str\(\2\)\)", t)
            if not m or m.group(3) not in tables:
                failures.append('unrecognised statement in complete_configuration_with_defaults: ' + t[:300])
                continue
            steps.append((m.group(5) == 'True', m.group(3)))
    except KeyError as e:
        failures.append(f'function not found: {e}')

    # ---- getters and setters of the CONFIGURATION section ------------------------------------------------------
    getters = []     # (method, kind, option constant)
    setters = {}     # method -> (option constant, applies upper)
    na_shape = None
    cls = next((n for n in tree.body if isinstance(n, ast.ClassDef) and n.name == 'Config'), None)
    if cls is None:
        failures.append('class Config not found')
    for fn in (cls.body if cls else []):
        if not isinstance(fn, ast.FunctionDef):
            continue
        body = _body_wo_doc(fn)
        if len(body) != 1:
            continue
        t = _norm(body[0])
        m = re.fullmatch(r'return self\.(get|getboolean|getint)\(self\.configuration_section, (\w+)\)', t)
        if m and m.group(2) in optnames:
            getters.append((fn.name, m.group(1), m.group(2)))
            continue
        m = re.fullmatch(r"return list\(set\(self\.get\(self\.configuration_section, (\w+)\)\.split\(('[^']*')\)\)\)", t)
        m2 = re.fullmatch(r"return self\.get\(self\.configuration_section, (\w+)\)\.split\(('[^']*')\)", t)
        if (m or m2) and (m or m2).group(1) in optnames:
            mm = m or m2
            getters.append((fn.name, 'naList', mm.group(1)))
            if fn.name == 'get_na_values':
                na_shape = (ast.literal_eval(mm.group(2)), bool(m))
            continue
        m = re.fullmatch(r'self\.set\(self\.configuration_section, (\w+), (\w+)(\.upper\(\))?\)', t)
        if m and fn.name.startswith('set_') and m.group(1) in optnames and len(fn.args.args) == 2 and fn.args.args[1].arg == m.group(2):
            setters[fn.name] = (m.group(1), bool(m.group(3)))
            continue
        if fn.name in REQUIRED_GETTERS or fn.name.startswith('set_'):
            failures.append(f'unrecognised shape of Config.{fn.name}: {t[:200]}')
    gk = {g: (k, o) for g, k, o in getters}
    for g, k in REQUIRED_GETTERS.items():
        if g not in gk:
            failures.append(f'getter Config.{g} not found / not recognised')
        elif gk[g][0] != k:
            failures.append(f'getter Config.{g} uses {gk[g][0]}, expected {k}')
    if na_shape is None:
        failures.append('get_na_values: shape not recognised')
        na_shape = (',', True)
    if na_shape[0] == '':
        failures.append('get_na_values: empty separator')
        na_shape = (',', na_shape[1])

    # ---- validate_configuration_section -------------------------------------------------------------------------
    checks = []      # dicts option, upper, writeBack, setterUpper, valid(list), validExpr, raises
    evalenv = dict(env)
    evalenv.update(cvals)
    try:
        fn = src.func(CFG, 'validate_configuration_section', 'Config')
        cur = {}

        def close():
            if cur.get('var'):
                c = dict(cur)
                c.setdefault('writeBack', False)
                c.setdefault('setterUpper', False)
                if 'valid' not in c:
                    c['valid'], c['validExpr'], c['raises'] = [], '[]', False
                    failures.append(f'validate_configuration_section: no membership test for {c["option"]}')
                checks.append(c)
            cur.clear()

        for st in _body_wo_doc(fn):
            t = _norm(st)
            if re.fullmatch(r'create_dirs_in_path\(self\.\w+\(\)\)', t):
                continue
            m = re.fullmatch(r'(\w+) = (str\()?self\.(\w+)\(\)(\))?(\.upper\(\))?', t)
            if m and m.group(3) in gk and gk[m.group(3)][0] == 'get' and bool(m.group(2)) == bool(m.group(4)):
                close()
                cur.update(var=m.group(1), option=gk[m.group(3)][1], upper=bool(m.group(5)))
                continue
            m = re.fullmatch(r'self\.(\w+)\((\w+)\)', t)
            if m and cur.get('var') == m.group(2) and m.group(1) in setters and 'valid' not in cur:
                opt, up = setters[m.group(1)]
                if opt != cur['option']:
                    failures.append(f'validate_configuration_section: {m.group(1)} writes {opt}, value read from {cur["option"]}')
                cur.update(writeBack=True, setterUpper=up)
                continue
            if isinstance(st, ast.If) and cur.get('var') and not st.orelse and isinstance(st.test, ast.Compare) \
                    and len(st.test.ops) == 1 and isinstance(st.test.ops[0], ast.NotIn) \
                    and isinstance(st.test.left, ast.Name) and st.test.left.id == cur['var'] and 'valid' not in cur:
                expr = st.test.comparators[0]
                try:
                    val = eval(compile(ast.Expression(expr), '<valid>', 'eval'), {'__builtins__': {}}, evalenv)
                    val = [str(x) for x in val]
                    if not all(isinstance(x, str) for x in val):
                        raise TypeError('non-string member')
                except Exception as e:
                    failures.append(f'validate_configuration_section: cannot evaluate {_norm(expr)}: {e!r}')
                    val = []
                raises = (len(st.body) == 1 and isinstance(st.body[0], ast.Raise) and st.body[0].exc is not None
                          and isinstance(st.body[0].exc, ast.Call) and _norm(st.body[0].exc.func) == 'ValueError')
                if not raises and not (len(st.body) == 1 and isinstance(st.body[0], (ast.Pass, ast.Expr))):
                    failures.append('validate_configuration_section: unrecognised body of membership test: ' + _norm(st.body)[:200])
                cur.update(valid=val, validExpr=_norm(expr), raises=raises)
                close()
                continue
            failures.append('unrecognised statement in validate_configuration_section: ' + t[:300])
        close()
    except KeyError as e:
        failures.append(f'function not found: {e}')

    # ---- get_output_file_path, get_mappings_files ------------------------------------------------------------------
    fallback_name, fallback = 'OUTPUT_FILE', 'output_file'
    try:
        fn = src.func(CFG, 'get_output_file_path', 'Config')
        hole = _match_with_hole(OUTPUT_PATH_SHAPE, _norm(_body_wo_doc(fn)))
        if hole is None or not re.fullmatch(r'\w+', hole) or not isinstance(cvals.get(hole), str):
            failures.append('unrecognised shape of Config.get_output_file_path')
        else:
            fallback_name, fallback = hole, cvals[hole]
    except KeyError as e:
        failures.append(f'function not found: {e}')
    mappings_sep = ','
    try:
        fn = src.func(CFG, 'get_mappings_files', 'Config')
        hole = _match_with_hole(MAPPINGS_FILES_SHAPE, _norm(_body_wo_doc(fn)))
        try:
            mappings_sep = ast.literal_eval(hole) if hole is not None else None
        except Exception:
            mappings_sep = None
        if not isinstance(mappings_sep, str) or mappings_sep == '':
            failures.append('unrecognised shape of Config.get_mappings_files')
            mappings_sep = ','
    except KeyError as e:
        failures.append(f'function not found: {e}')

    # ---- loaders (args_parser.py) ---------------------------------------------------------------------------------------
    CALLS = {
        'config.read(args.config)': 'readFile', 'config.read(config_entry)': 'readFile',
        'config.read_string(config_entry)': 'readString',
        'config.complete_configuration_with_defaults()': 'completeDefaults',
        'config.validate_configuration_section()': 'validate',
        'configure_logger(config.get_logging_level(), config.get_logging_file())': 'configureLogger',
        'config.log_config_info()': 'logInfo',
    }
    interpolation = set()

    def flatten(stmts, depth=0):
        """list of alternative step lists: [(label, [steps])]"""
        paths = [(None, [])]
        for st in stmts:
            t = _norm(st)
            if t in ('return config', 'args = _parse_arguments()'):
                continue
            m = re.fullmatch(r'config = Config\((.*)\)', t)
            if m:
                interpolation.add(m.group(1))
                continue
            if t in CALLS:
                paths = [(l, s + [CALLS[t]]) for l, s in paths]
                continue
            if t in ('config = _parse_config(config)', '_parse_config(config)') and depth == 0:
                try:
                    inner = flatten(_body_wo_doc(src.func(ARGS, '_parse_config')), depth + 1)
                except KeyError:
                    failures.append('args_parser._parse_config not found')
                    inner = [(None, [])]
                if len(inner) != 1:
                    failures.append('args_parser._parse_config branches')
                paths = [(l, s + inner[0][1]) for l, s in paths]
                continue
            if isinstance(st, ast.If) and _norm(st.test) == 'os.path.isfile(config_entry)' and depth == 0:
                a = flatten(st.body, depth)
                b = flatten(st.orelse, depth)
                if len(a) != 1 or len(b) != 1:
                    failures.append('nested branching in load_config_from_argument')
                paths = [('file', s + a[0][1]) for _, s in paths] + [('string', s + b[0][1]) for _, s in paths]
                continue
            failures.append('unrecognised statement in args_parser loader: ' + t[:200])
        return paths

    loaders = {'file': [], 'string': [], 'cli': []}
    try:
        ps = flatten(_body_wo_doc(src.func(ARGS, 'load_config_from_argument')))
        d = {l: s for l, s in ps}
        if set(d) != {'file', 'string'}:
            failures.append('load_config_from_argument: file/string branches not recognised')
        loaders['file'] = d.get('file', d.get(None, []))
        loaders['string'] = d.get('string', d.get(None, []))
        ps = flatten(_body_wo_doc(src.func(ARGS, 'load_config_from_command_line')))
        if len(ps) != 1:
            failures.append('load_config_from_command_line branches')
        loaders['cli'] = ps[0][1]
    except KeyError as e:
        failures.append(f'function not found: {e}')
    if interpolation - {'interpolation=ExtendedInterpolation()'}:
        failures.append(f'Config constructed with {sorted(interpolation)}')

    # ---- stdlib truth table ---------------------------------------------------------------------------------------------------
    import configparser
    bool_states = list(configparser.RawConfigParser.BOOLEAN_STATES.items())

    # ---- constants.py ----------------------------------------------------------------------------------------------------------
    def strlist(name):
        v = env.get(name)
        if not (isinstance(v, list) and all(isinstance(x, str) for x in v)):
            failures.append(f'constants.{name} is not a list of strings')
            return []
        return v

    def strconst(name):
        v = env.get(name)
        if not isinstance(v, str):
            failures.append(f'constants.{name} is not a string')
            return ''
        return v

    ext = env.get('OUTPUT_FORMAT_FILE_EXTENSION')
    if not (isinstance(ext, dict) and all(isinstance(k, str) and isinstance(v, str) for k, v in ext.items())):
        failures.append('constants.OUTPUT_FORMAT_FILE_EXTENSION is not a dict of strings')
        ext = {}

    # ---- render -----------------------------------------------------------------------------------------------------------------------
    def lstrs(xs):
        return '[' + ', '.join(lean_str(x) for x in xs) + ']'

    L = [HEADER, 'import MorphKgc.Model.Config', '', 'namespace Gen.Config', 'open Py Model', '',
         '/-! option-name constants of config.py (source order) -/']
    for k, v in optconsts:
        L.append(f'def {k} : Str := {lean_str(v)}')
    L += ['', '/-! constants.py -/',
          f'def VALID_OUTPUT_FORMATS : List Str := {lstrs(strlist("VALID_OUTPUT_FORMATS"))}',
          f'def VALID_LOGGING_LEVEL : List Str := {lstrs(strlist("VALID_LOGGING_LEVEL"))}',
          f'def NO_PARTITIONING : List Str := {lstrs(strlist("NO_PARTITIONING"))}',
          f'def PARTIAL_AGGREGATIONS_PARTITIONING : Str := {lean_str(strconst("PARTIAL_AGGREGATIONS_PARTITIONING"))}',
          f'def MAXIMAL_PARTITIONING : Str := {lean_str(strconst("MAXIMAL_PARTITIONING"))}',
          f'def NTRIPLES : Str := {lean_str(strconst("NTRIPLES"))}',
          f'def NQUADS : Str := {lean_str(strconst("NQUADS"))}',
          'def OUTPUT_FORMAT_FILE_EXTENSION : List (Str × Str) := ['
          + ', '.join(f'({lean_str(k)}, {lean_str(v)})' for k, v in ext.items()) + ']', '']
    for name, lean_name in (('CONFIGURATION_OPTIONS_EMPTY_VALID', 'cfgEmptyValid'), ('CONFIGURATION_OPTIONS_EMPTY_NON_VALID', 'cfgEmptyNonValid')):
        L.append(f'/-- `{name}` of config.py, in source order; defaults as `str(default)` -/')
        L.append(f'def {lean_name} : List (Str × DefaultVal) := [\n  ' + ',\n  '.join(f'({k}, {lv})' for k, lv, _ in tables[name]) + '\n]')
        L.append('')
    tn = {'CONFIGURATION_OPTIONS_EMPTY_VALID': 'cfgEmptyValid', 'CONFIGURATION_OPTIONS_EMPTY_NON_VALID': 'cfgEmptyNonValid'}
    L.append('/-- the loops of `complete_configuration_with_defaults`, in code order, with the `empty_value_is_valid` flag of each -/')
    L.append('def completeSteps : List CompleteStep := [' + ', '.join(
        f'{{ emptyValid := {"true" if ev else "false"}, table := {tn[t]} }}' for ev, t in steps) + ']')
    L.append('')
    L.append('/-- the blocks of `validate_configuration_section`, in code order -/')
    L.append('def enumChecks : List EnumCheck := [\n  ' + ',\n  '.join(
        '{ option := %s, upper := %s, writeBack := %s, setterUpper := %s,\n    valid := %s, raises := %s }' % (
            c['option'], str(c['upper']).lower(), str(c['writeBack']).lower(), str(c['setterUpper']).lower(),
            lstrs(c['valid']), str(c['raises']).lower()) for c in checks) + '\n]')
    L.append('')
    L.append('/-- getters of the CONFIGURATION section: method, accessor kind, option -/')
    L.append('def getters : List (String × GetterKind × Str) := [\n  ' + ',\n  '.join(
        f'("{g}", .{k}, {o})' for g, k, o in getters) + '\n]')
    L.append('')
    L.append(f'/-- `get_na_values`: separator and whether the list is de-duplicated through `set` -/')
    L.append(f'def naShape : NaShape := {{ sep := {lean_str(na_shape[0])}, dedup := {"true" if na_shape[1] else "false"} }}')
    L.append('')
    L.append('/-- `configparser.RawConfigParser.BOOLEAN_STATES` of the running interpreter -/')
    L.append('def booleanStates : List (Str × Bool) := [' + ', '.join(
        f'({lean_str(k)}, {"true" if v else "false"})' for k, v in bool_states) + ']')
    L.append('')
    L.append(f'/-- the file name used by the last branch of `get_output_file_path` (`file_name = {fallback_name}`) -/')
    L.append(f'def outputFileFallback : Str := {lean_str(fallback)}')
    L.append(f'/-- separator of `get_mappings_files` -/')
    L.append(f'def mappingsSep : Str := {lean_str(mappings_sep)}')
    L.append('')
    L.append('/-! the step sequences of the loaders of args_parser.py (`_parse_config` inlined) -/')
    for k, nm in (('file', 'loaderFileSteps'), ('string', 'loaderStringSteps'), ('cli', 'loaderCliSteps')):
        L.append(f'def {nm} : List LoadStep := [' + ', '.join('.' + s for s in loaders[k]) + ']')
    L += ['', f'def configTranslated : Bool := {"true" if not failures else "false"}', '', 'end Gen.Config', '']
    write_if_changed(os.path.join(out, 'Config.lean'), '\n'.join(L))
    summary['config'] = {
        'options': dict(optconsts),
        'empty_valid': [(cvals.get(k, k), v) for k, _, v in tables['CONFIGURATION_OPTIONS_EMPTY_VALID']],
        'empty_non_valid': [(cvals.get(k, k), v) for k, _, v in tables['CONFIGURATION_OPTIONS_EMPTY_NON_VALID']],
        'complete_steps': [[ev, t] for ev, t in steps],
        'enum_checks': [{'option': cvals.get(c['option'], c['option']), 'upper': c['upper'], 'writeBack': c['writeBack'],
                         'setterUpper': c['setterUpper'], 'valid': c['valid'], 'raises': c['raises']} for c in checks],
        'getters': [[g, k, cvals.get(o, o)] for g, k, o in getters],
        'na_shape': {'sep': na_shape[0], 'dedup': na_shape[1]},
        'output_file_fallback': fallback,
        'loaders': loaders,
        'failures': failures,
    }
