"""C20: SQL type table and lookup kind (relational_db.py) -> Gen/SqlTypes.lean"""
import ast
import os

from extract import HEADER, lean_pairs, write_if_changed

# ----------------------------------------------------------------------------------------------------
# C20: SQL type table and lookup kind
# ----------------------------------------------------------------------------------------------------

def generate(src, env, out, summary):
    rel = 'data_source/relational_db.py'
    failures = []
    # --- the table: the dict literal assigned to SQL_RDF_DATATYPE (order preserved) ---------------------
    table = None
    for n in src.tree(rel).body:
        if isinstance(n, ast.Assign) and len(n.targets) == 1 and isinstance(n.targets[0], ast.Name) \
                and n.targets[0].id == 'SQL_RDF_DATATYPE':
            if not isinstance(n.value, ast.Dict):
                failures.append('SQL_RDF_DATATYPE is not a dict literal')
                break
            table = []
            seen = {}
            for k, v in zip(n.value.keys, n.value.values):
                if not (isinstance(k, ast.Constant) and isinstance(k.value, str)):
                    failures.append('non-literal key in SQL_RDF_DATATYPE')
                    continue
                if isinstance(v, ast.Name) and v.id in env and isinstance(env[v.id], str):
                    val = env[v.id]
                elif isinstance(v, ast.Constant) and isinstance(v.value, str):
                    val = v.value
                else:
                    failures.append(f'unresolvable value for key {k.value!r}')
                    continue
                if k.value in seen:
                    # a dict literal keeps the position of the first occurrence and the value of the last
                    table[seen[k.value]] = (k.value, val)
                else:
                    seen[k.value] = len(table)
                    table.append((k.value, val))
    if table is None:
        failures.append('SQL_RDF_DATATYPE not found')
        table = []

    # --- the lookup: statements of _get_column_table_datatype after `data_type = data_type.upper()` -------
    kind = None
    try:
        fn = src.func(rel, '_get_column_table_datatype')
        idx = None
        for i, st in enumerate(fn.body):
            if isinstance(st, ast.Assign) and ast.unparse(st).replace(' ', '') == 'data_type=data_type.upper()':
                idx = i
        if idx is None:
            failures.append('`data_type = data_type.upper()` not found in _get_column_table_datatype')
        else:
            tail = '\n'.join(ast.unparse(st) for st in fn.body[idx + 1:])
            tail_norm = ' '.join(tail.split())
            KNOWN = {
                'for k, v in SQL_RDF_DATATYPE.items(): if k in data_type: return v return None': 'firstSubstring',
                LONGEST_WORD_SHAPE: 'longestWord',
            }
            kind = KNOWN.get(tail_norm)
            if kind is None:
                failures.append('unrecognised lookup loop in _get_column_table_datatype: ' + tail_norm[:300])
    except KeyError as e:
        failures.append(f'function not found: {e}')

    # --- get_rdb_reference_datatype: the loop over the tables of a query ------------------------------------
    loop = {'tableBranchDirect': False, 'tablesFromParser': False, 'breakOnFound': False, 'exceptPasses': False, 'otherExits': True}
    try:
        fn = src.func(rel, 'get_rdb_reference_datatype')
        ifs = [st for st in fn.body if isinstance(st, ast.If)]
        ret = fn.body[-1]
        if len(ifs) == 1 and isinstance(ret, ast.Return) and ast.unparse(ret.value) == 'inferred_data_type':
            top = ifs[0]
            u = lambda n: ' '.join(ast.unparse(n).split())
            if u(top.test) == "rml_rule['logical_source_type'] == RML_TABLE_NAME" and len(top.body) == 1 and \
                    u(top.body[0]) == "inferred_data_type = _get_column_table_datatype(config, rml_rule['source_name'], rml_rule['logical_source_value'], reference)":
                loop['tableBranchDirect'] = True
            q = top.orelse[0] if len(top.orelse) == 1 and isinstance(top.orelse[0], ast.If) else None
            if q is not None and u(q.test) == "rml_rule['logical_source_type'] == RML_QUERY" and not q.orelse:
                body = [st for st in q.body if not isinstance(st, (ast.Import, ast.ImportFrom))]
                if len(body) == 2 and u(body[0]) == "table_names = sql_metadata.Parser(rml_rule['logical_source_value']).tables" \
                        and isinstance(body[1], ast.For) and u(body[1].target) == 'table_name' and u(body[1].iter) == 'table_names' and not body[1].orelse:
                    loop['tablesFromParser'] = True
                    fb = body[1].body
                    if len(fb) == 1 and isinstance(fb[0], ast.Try) and len(fb[0].handlers) == 1 and not fb[0].orelse and not fb[0].finalbody:
                        tr = fb[0]
                        tb = [u(x) for x in tr.body]
                        if tb == ["inferred_data_type = _get_column_table_datatype(config, rml_rule['source_name'], table_name, reference)",
                                  'if inferred_data_type: break']:
                            loop['breakOnFound'] = True
                            loop['otherExits'] = False
                        else:
                            exits = [x for x in ast.walk(tr) if isinstance(x, (ast.Break, ast.Return, ast.Continue))]
                            loop['otherExits'] = len(exits) != 0
                        h = tr.handlers[0]
                        if [u(x) for x in h.body] == ['pass']:
                            loop['exceptPasses'] = True
        if not (loop['tableBranchDirect'] and loop['tablesFromParser'] and loop['breakOnFound'] and loop['exceptPasses'] and not loop['otherExits']):
            failures.append('get_rdb_reference_datatype: not `for table_name in <tables of the query>: try: dt = lookup(table_name); '
                            f'if dt: break; except: pass` — recognised parts: {loop}')
    except KeyError as e:
        failures.append(f'function not found: {e}')

    lines = [HEADER, 'import MorphKgc.Model.SqlTypes', '', 'namespace Gen', 'open Py', '',
             '/-- `SQL_RDF_DATATYPE` of relational_db.py, in source order -/',
             'def sqlRdfDatatype : List (Str × Str) := ' + lean_pairs(table), '',
             '/-- shape of the lookup loop at the end of `_get_column_table_datatype` -/',
             f'def sqlLookupKind : Model.SqlLookupKind := .{kind or "firstSubstring"}', '',
             '/-- shape of the loop of `get_rdb_reference_datatype` over the tables of an rr:sqlQuery -/',
             'def refLoopShape : Model.RefLoopShape := { breakOnFound := %s, exceptPasses := %s, otherExits := %s }' % tuple(
                 'true' if loop[k] else 'false' for k in ('breakOnFound', 'exceptPasses', 'otherExits')), '',
             f'def sqlTypesTranslated : Bool := {"true" if not failures else "false"}', '',
             'end Gen', '']
    write_if_changed(os.path.join(out, 'SqlTypes.lean'), '\n'.join(lines))
    summary['sql_types'] = {'table': table, 'kind': kind, 'failures': failures}


# the tail of _get_column_table_datatype after the `fix:` commit (whitespace-normalised `ast.unparse`)
LONGEST_WORD_SHAPE = (
    "matched_type = None for k in SQL_RDF_DATATYPE: "
    "if re.search('(?<![A-Z0-9_])' + re.escape(k) + '(?![A-Z_])', data_type): "
    "if matched_type is None or len(k) > len(matched_type): matched_type = k "
    "if matched_type is None: return None return SQL_RDF_DATATYPE[matched_type]"
)


