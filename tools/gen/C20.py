"""C20: SQL type table and lookup kind (relational_db.py) -> Gen/SqlTypes.lean"""
import ast
import os

from extract import HEADER, lean_pairs, write_if_changed

# ----------------------------------------------------------------------------------------------------
# C20: SQL type table and lookup kind
# ----------------------------------------------------------------------------------------------------

def generate(src, env, out, summary):
    rel = 'data_source/relational_db.py'
    failures = []
    # --- the table: the dict literal assigned to SQL_RDF_DATATYPE (order preserved) ---------------------
    table = None
    for n in src.tree(rel).body:
        if isinstance(n, ast.Assign) and len(n.targets) == 1 and isinstance(n.targets[0], ast.Name) \
                and n.targets[0].id == 'SQL_RDF_DATATYPE':
            if not isinstance(n.value, ast.Dict):
                failures.append('SQL_RDF_DATATYPE is not a dict literal')
                break
            table = []
            seen = {}
            for k, v in zip(n.value.keys, n.value.values):
                if not (isinstance(k, ast.Constant) and isinstance(k.value, str)):
                    failures.append('non-literal key in SQL_RDF_DATATYPE')
                    continue
                if isinstance(v, ast.Name) and v.id in env and isinstance(env[v.id], str):
                    val = env[v.id]
                elif isinstance(v, ast.Constant) and isinstance(v.value, str):
                    val = v.value
                else:
                    failures.append(f'unresolvable value for key {k.value!r}')
                    continue
                if k.value in seen:
                    # a dict literal keeps the position of the first occurrence and the value of the last
                    table[seen[k.value]] = (k.value, val)
                else:
                    seen[k.value] = len(table)
                    table.append((k.value, val))
    if table is None:
        failures.append('SQL_RDF_DATATYPE not found')
        table = []

    # --- the lookup: statements of _get_column_table_datatype after `data_type = data_type.upper()` -------
    kind = None
    try:
        fn = src.func(rel, '_get_column_table_datatype')
        idx = None
        for i, st in enumerate(fn.body):
            if isinstance(st, ast.Assign) and ast.unparse(st).replace(' ', '') == 'data_type=data_type.upper()':
                idx = i
        if idx is None:
            failures.append('`data_type = data_type.upper()` not found in _get_column_table_datatype')
        else:
            tail = '\n'.join(ast.unparse(st) for st in fn.body[idx + 1:])
            tail_norm = ' '.join(tail.split())
            KNOWN = {
                'for k, v in SQL_RDF_DATATYPE.items(): if k in data_type: return v return None': 'firstSubstring',
                LONGEST_WORD_SHAPE: 'longestWord',
            }
            kind = KNOWN.get(tail_norm)
            if kind is None:
                failures.append('unrecognised lookup loop in _get_column_table_datatype: ' + tail_norm[:300])
    except KeyError as e:
        failures.append(f'function not found: {e}')

    lines = [HEADER, 'import MorphKgc.Model.SqlTypes', '', 'namespace Gen', 'open Py', '',
             '/-- `SQL_RDF_DATATYPE` of relational_db.py, in source order -/',
             'def sqlRdfDatatype : List (Str × Str) := ' + lean_pairs(table), '',
             '/-- shape of the lookup loop at the end of `_get_column_table_datatype` -/',
             f'def sqlLookupKind : Model.SqlLookupKind := .{kind or "firstSubstring"}', '',
             f'def sqlTypesTranslated : Bool := {"true" if not failures else "false"}', '',
             'end Gen', '']
    write_if_changed(os.path.join(out, 'SqlTypes.lean'), '\n'.join(lines))
    summary['sql_types'] = {'table': table, 'kind': kind, 'failures': failures}


# the tail of _get_column_table_datatype after the `fix:` commit (whitespace-normalised `ast.unparse`)
LONGEST_WORD_SHAPE = (
    "matched_type = None for k in SQL_RDF_DATATYPE: "
    "if re.search('(?<![A-Z0-9_])' + re.escape(k) + '(?![A-Z_])', data_type): "
    "if matched_type is None or len(k) > len(matched_type): matched_type = k "
    "if matched_type is None: return None return SQL_RDF_DATATYPE[matched_type]"
)


